"""
Findings, known-findings file, evidence files and exit codes.

exit 0: every obligation of the property is discharged (or is a listed known finding)
exit 1: `VIOLATION property=<id> replay=<path>` for every finding not listed in known_findings.json
exit 2: `ANALYSIS-ERROR ...` the checker could not do its job (vanished anchor, instance count below the confirmed minimum,
        traceback) - never a silent pass.
"""
from __future__ import annotations

import json
import os
import sys
import time
from pathlib import Path
from typing import Any, Dict, List, Optional

VERIF = Path(__file__).resolve().parent.parent
EVIDENCE_DIR = VERIF / 'evidence'
REPLAY_DIR = EVIDENCE_DIR / 'replay'
KNOWN_FINDINGS = VERIF / 'known_findings.json'


class Obligation:
    __slots__ = ('rule', 'key', 'ok', 'detail', 'loc', 'extra')

    def __init__(self, rule: str, key: str, ok: bool, detail: str, loc: str, extra: Optional[dict] = None):
        self.rule = rule
        self.key = key
        self.ok = ok
        self.detail = detail
        self.loc = loc
        self.extra = extra or {}

    def as_dict(self) -> Dict[str, Any]:
        d = {'rule': self.rule, 'instance': self.key, 'ok': self.ok, 'detail': self.detail, 'at': self.loc}
        d.update(self.extra)
        return d


class Check:
    """Collects the obligations of one property on one run."""

    def __init__(self, prop: str, tier: str = 'quick', repo_root: str = '/repo', quiet: bool = False):
        self.prop = prop
        self.tier = tier
        self.repo_root = repo_root
        self.obligations: List[Obligation] = []
        self.errors: List[str] = []
        self.notes: List[str] = []
        self.minimums: Dict[str, int] = {}
        self.stats: Dict[str, Any] = {}
        self.assumptions: List[str] = []
        self.explanation = ''
        self.t0 = time.time()
        self.quiet = quiet
        self.selftest: Optional[Dict[str, Any]] = None
        self._seen_keys: Dict[tuple, int] = {}

    # ---------------------------------------------------------------- facts
    def ob(self, rule: str, key: str, ok: bool, detail: str = '', loc: str = '', **extra: Any) -> bool:
        key = ' '.join(key.split())
        detail = ' '.join(detail.split())
        n = self._seen_keys.get((rule, key), 0) + 1
        self._seen_keys[(rule, key)] = n
        if n > 1:
            key = f'{key} #{n}'
        self.obligations.append(Obligation(rule, key, bool(ok), detail, loc, extra))
        return bool(ok)

    def error(self, msg: str) -> None:
        """Analysis problem: the rule could not be evaluated."""
        self.errors.append(msg)

    def note(self, msg: str) -> None:
        self.notes.append(msg)

    def require(self, rule: str, n: int) -> None:
        """Declare the minimum number of instances `rule` must have matched (hand-confirmed)."""
        self.minimums[rule] = n

    def count(self, rule: str) -> int:
        return sum(1 for o in self.obligations if o.rule == rule)

    # -------------------------------------------------------------- finish
    def _known(self) -> List[dict]:
        try:
            data = json.loads(KNOWN_FINDINGS.read_text())
        except FileNotFoundError:
            return []
        return [e for e in data.get('findings', []) if e.get('property') == self.prop and e.get('status') == 'known']

    def finish(self, seed: int = 0, write_evidence: bool = True) -> int:
        for rule, n in self.minimums.items():
            c = self.count(rule)
            if c < n:
                self.errors.append(f'rule {rule} matched {c} instance(s), fewer than the {n} confirmed by hand '
                                   f'(an anchor moved or the rule no longer sees the code)')
        failing = [o for o in self.obligations if not o.ok]
        known = self._known()
        viol: List[Obligation] = []
        known_hits: List[tuple] = []
        for o in failing:
            hit = None
            for e in known:
                if e.get('rule') == o.rule and e.get('instance') == o.key:
                    hit = e
                    break
            if hit is not None:
                known_hits.append((o, hit))
            else:
                viol.append(o)
        out = sys.stdout
        if not self.quiet:
            print(f'== {self.prop} [{self.tier}] repo={self.repo_root}')
            by_rule: Dict[str, List[Obligation]] = {}
            for o in self.obligations:
                by_rule.setdefault(o.rule, []).append(o)
            for rule in sorted(by_rule):
                obs = by_rule[rule]
                print(f'  rule {rule}: {len(obs)} instance(s), {sum(1 for o in obs if o.ok)} discharged')
            for k, v in self.stats.items():
                print(f'  stat {k}: {v}')
            for n in self.notes:
                print(f'  note: {n}')
        for o, e in known_hits:
            print(f'KNOWN-FINDING: property={self.prop} {o.rule} {o.key} at {o.loc}: {e.get("what", o.detail)}')
        replay_paths: List[str] = []
        if viol:
            REPLAY_DIR.mkdir(parents=True, exist_ok=True)
        for i, o in enumerate(viol):
            safe = ''.join(ch if ch.isalnum() or ch in '._-' else '_' for ch in f'{self.prop}_{o.rule}_{o.key}')[:150]
            p = REPLAY_DIR / f'{safe}.json'
            p.write_text(json.dumps({'property': self.prop, 'repo': self.repo_root, **o.as_dict()}, indent=1))
            replay_paths.append(str(p))
            print(f'FAIL {o.rule} [{o.key}] at {o.loc}: {o.detail}')
            print(f'VIOLATION property={self.prop} replay={p}')
        for e in self.errors:
            print(f'ANALYSIS-ERROR property={self.prop} {e}')
        wall = time.time() - self.t0
        if write_evidence:
            self._write_evidence(seed, wall, viol, known_hits)
        # a definite violation takes precedence: exit 1 as the contract says; analysis problems alone exit 2
        if viol:
            return 1
        if self.errors:
            return 2
        if not self.quiet:
            print(f'OK {self.prop}: {len(self.obligations)} obligations, '
                  f'{len(self.obligations) - len(failing)} discharged, {len(known_hits)} known finding(s), {wall:.2f}s')
        return 0

    def _write_evidence(self, seed: int, wall: float, viol: List[Obligation], known_hits: List[tuple]) -> None:
        EVIDENCE_DIR.mkdir(parents=True, exist_ok=True)
        obs = self.obligations
        rules = sorted({o.rule for o in obs})
        samples: List[dict] = []
        seen_rules = set()
        for o in obs:
            if o.rule not in seen_rules or not o.ok:
                seen_rules.add(o.rule)
                samples.append(o.as_dict())
        for o in obs:
            if len(samples) >= 60:
                break
            d = o.as_dict()
            if d not in samples:
                samples.append(d)
        distinct = len({(o.rule, o.key) for o in obs})
        ev = {
            'property_id': self.prop,
            'tier': self.tier,
            'seed': seed,
            'level': 'other',
            'coverage': {
                'explanation': self.explanation or f'static rules {", ".join(rules)} evaluated on the syntax of {self.repo_root}',
                'obligations': len(obs),
                'discharged': sum(1 for o in obs if o.ok),
                'evaluations': len(obs),
                'distinct_nontrivial': distinct,
                'rule': 'one obligation per rule instance (rule id + qualified function + normalised construct) found in the '
                        'current tree; distinct = distinct (rule, instance) keys; every instance is a site the rule had to decide',
                'samples': samples,
                'rules': {r: {'instances': sum(1 for o in obs if o.rule == r),
                              'discharged': sum(1 for o in obs if o.rule == r and o.ok),
                              'minimum_confirmed_by_hand': self.minimums.get(r)} for r in rules},
                'analysed': self.stats,
                'known_findings_hit': [{'rule': o.rule, 'instance': o.key} for o, _ in known_hits],
                'exhaustive': True,
                'checker_cmd': f'./check {self.prop}' + (' --thorough' if self.tier == 'thorough' else ''),
                'analysis_errors': self.errors,
            },
            'assumptions': self.assumptions,
            'wall_s': round(wall, 3),
            'violations': len(viol),
        }
        if self.selftest is not None:
            ev['coverage']['selftest'] = self.selftest
        (EVIDENCE_DIR / f'{self.prop}.json').write_text(json.dumps(ev, indent=1, default=str))
