"""
Guard / dominance reasoning on a value: is a use of variable `v` protected by a test of `v.<attr>`
(if/continue/return idiom, comprehension `if`, BoolOp short-circuit, positive wrap)?
"""
from __future__ import annotations

import ast
from typing import Callable, Dict, Iterable, List, Optional, Sequence, Set, Tuple

from .cfg import CFG
from .core import Func, Repo, dotted, norm, parents
from .util import guard_tests


def expr_is_var(e: ast.AST, var: str) -> bool:
    """`var` may be a plain name ('o') or a dotted chain ('self.child')."""
    return dotted(e) == var


def implies_attr(test: ast.AST, polarity: bool, var: str, attr: str, repo: Optional[Repo] = None,
                 f: Optional[Func] = None, depth: int = 0) -> bool:
    """Does `test` evaluating to `polarity` imply that `var.attr` is true?"""
    if depth > 6:
        return False
    if isinstance(test, ast.Attribute) and test.attr == attr and expr_is_var(test.value, var):
        return polarity
    if isinstance(test, ast.UnaryOp) and isinstance(test.op, ast.Not):
        return implies_attr(test.operand, not polarity, var, attr, repo, f, depth + 1)
    if isinstance(test, ast.BoolOp):
        if isinstance(test.op, ast.And) and polarity:
            return any(implies_attr(v, True, var, attr, repo, f, depth + 1) for v in test.values)
        if isinstance(test.op, ast.Or) and not polarity:
            return any(implies_attr(v, False, var, attr, repo, f, depth + 1) for v in test.values)
        return False
    if isinstance(test, ast.Call) and repo is not None and f is not None and polarity:
        # predicate helper: def is_visible(o): return o.isVisible
        cal, how = repo.callees(test, f)
        if cal and all(not isinstance(g.node, ast.Lambda) or True for g in cal):
            ok = True
            for g in cal:
                ps = [p.arg for p in g.params()]
                if g.cls is not None and g.outer is None and not g.is_static and ps:
                    ps = ps[1:]
                pos = None
                for i, a in enumerate(test.args):
                    if expr_is_var(a, var):
                        pos = i
                if pos is None or pos >= len(ps):
                    ok = False
                    break
                body = g.body()
                rets = [n for st in body for n in ast.walk(st) if isinstance(n, ast.Return)]
                if isinstance(g.node, ast.Lambda):
                    rv: List[ast.AST] = [g.node.body]
                else:
                    rv = [r.value for r in rets if r.value is not None]
                if not rv or not all(implies_attr(v, True, ps[pos], attr, repo, g, depth + 1) for v in rv):
                    ok = False
                    break
            return ok
    return False


class UseGuard:
    """Decides whether uses of a variable inside one function are dominated by `var.attr` being true."""

    def __init__(self, repo: Repo, f: Func, attr: str = 'isVisible'):
        self.repo = repo
        self.f = f
        self.attr = attr
        self._cfg: Optional[CFG] = None

    @property
    def cfg(self) -> CFG:
        if self._cfg is None:
            self._cfg = CFG(self.f)
        return self._cfg

    def in_test(self, use: ast.AST, var: str) -> bool:
        """The use is part of an expression that itself tests var.attr (e.g. `' ' in v.name or not v.isVisible`)."""
        node = use
        for p in parents(use):
            if isinstance(p, (ast.stmt, ast.comprehension)):
                break
            node = p
        # node: the outermost expression containing the use
        holder = getattr(node, '_parent', None)
        is_test = False
        if isinstance(holder, (ast.If, ast.While, ast.IfExp)) and holder.test is node:
            is_test = True
        if isinstance(holder, ast.comprehension) and any(node is i for i in holder.ifs):
            is_test = True
        if isinstance(holder, ast.Assert):
            is_test = True
        if not is_test:
            # direct `v.attr` read anywhere counts as a test read
            p0 = getattr(use, '_parent', None)
            return isinstance(p0, ast.Attribute) and p0.attr == self.attr
        return any(isinstance(n, ast.Attribute) and n.attr == self.attr and expr_is_var(n.value, var)
                   for n in ast.walk(node))

    def guarded(self, use: ast.AST, var: str) -> bool:
        # structural guards: enclosing if/ifexp/boolop/comprehension-ifs
        for t, pol in guard_tests(use, self.f.node):
            if implies_attr(t, pol, var, self.attr, self.repo, self.f):
                return True
        # CFG dominance (early continue/return idiom)
        try:
            st = self.cfg.stmt_of(use)
        except AttributeError:
            return False
        for t, pol in self.cfg.dominating_tests(st):
            if implies_attr(t, pol, var, self.attr, self.repo, self.f):
                # the dominating test must not be followed by a re-binding of var before the use (loops re-bind at head)
                return True
        return False


def early_exit_guard_param(repo: Repo, g: Func, attr: str = 'isVisible') -> List[str]:
    """Parameters p of g such that g starts (top-level statement) with `if <not p.attr>: ... return|raise`."""
    out: List[str] = []
    if isinstance(g.node, ast.Lambda):
        return out
    ps = [p.arg for p in g.params()]
    for st in g.node.body:
        if isinstance(st, ast.If) and st.body and isinstance(st.body[-1], (ast.Return, ast.Raise, ast.Continue)):
            # (an `else:` holding the rest of the function is the same guard: its body is only reached when the test fails)
            for p in ps:
                if implies_attr(st.test, False, p, attr, repo, g) and p not in out:
                    out.append(p)
    # the same guard written the other way round: the whole body (after the docstring) is one `if p.attr: ...` without else
    body = [st for st in g.node.body if not (isinstance(st, ast.Expr) and isinstance(st.value, ast.Constant))]
    if len(body) == 1 and isinstance(body[0], ast.If) and not body[0].orelse:
        for p in ps:
            if implies_attr(body[0].test, True, p, attr, repo, g) and p not in out:
                out.append(p)
    return out
