"""Fixture package for the zero-count rules of the escape engine (never part of pydoctor)."""
