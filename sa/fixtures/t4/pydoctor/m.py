from typing import Optional


def maybe() -> Optional[int]:
    return None


def bad_arith() -> int:
    return maybe() - 1          # T4: TypeError when None


def good_arith() -> int:
    return (maybe() or 1) - 1   # guarded by `or`


class K:
    def name(self) -> Optional[str]:
        return None

    def bad_attr(self) -> str:
        return self.name().upper()   # T4: AttributeError when None


def bad_format(line: str, base: str) -> str:
    return f'bad "{line}" for %s' % (base,)   # T1b: dynamic format string


def parts() -> Optional[list]:
    return None


def bad_var() -> str:
    names = parts()
    return '.'.join(names)          # T4 (variable): TypeError when None


def good_var() -> str:
    names = parts()
    if names is None:
        return ''
    return '.'.join(names)


def bad_unpack(statements: list) -> object:
    if len(statements) > 1:
        raise SyntaxError('too many')
    stmt, = statements              # T5: the guard does not establish len == 1
    return stmt


def good_unpack(statements: list) -> object:
    if len(statements) != 1:
        raise SyntaxError('expected one')
    stmt, = statements
    return stmt


def bad_pop(names):
    args = list(names)
    args.pop(0)
    return args


def good_pop(names):
    args = list(names)
    if args:
        args.pop(0)
    return args


def bad_mapget(obj, name):
    member = obj.contents.get(name)
    member.kind = 1
    return member


def good_mapget(obj, name):
    member = obj.contents.get(name)
    if member is None:
        return None
    member.kind = 1
    return member


def bad_modattr(name):
    from importlib import import_module
    mod = import_module(f'pydoctor.x.{name}')
    return mod.get_parser          # T8: the module selected by `name` may not define it


def good_modattr(name):
    from importlib import import_module
    mod = import_module(f'pydoctor.x.{name}')
    if not hasattr(mod, 'get_parser'):
        raise ImportError(name)
    return mod.get_parser


def bad_strip(names):
    names2 = [n for n in names if n]
    r = []
    for n in names2:
        r.append(n)
        r.append(', ')
    del r[-1]                      # T9: names2 may be empty
    return r


def good_strip(names):
    names2 = [n for n in names if n]
    if not names2:
        return []
    r = []
    for n in names2:
        r.append(n)
        r.append(', ')
    del r[-1]
    return r


def stale_strip(names):
    if not names:
        return []
    names = [n for n in names if n]
    r = []
    for n in names:
        r.append(n)
        r.append(', ')
    del r[-1]                      # T9: the test is about the value before the re-binding
    return r


def bad_intstr(pyval):
    pyvaltype = type(pyval)
    if pyvaltype is int:
        return str(pyval)              # T10: ValueError beyond sys.int_max_str_digits
    return ''


def good_intstr(pyval):
    if isinstance(pyval, int):
        try:
            return str(pyval)
        except ValueError:
            return hex(pyval)
    return ''
