from typing import Optional


def maybe() -> Optional[int]:
    return None


def bad_arith() -> int:
    return maybe() - 1          # T4: TypeError when None


def good_arith() -> int:
    return (maybe() or 1) - 1   # guarded by `or`


class K:
    def name(self) -> Optional[str]:
        return None

    def bad_attr(self) -> str:
        return self.name().upper()   # T4: AttributeError when None


def bad_format(line: str, base: str) -> str:
    return f'bad "{line}" for %s' % (base,)   # T1b: dynamic format string
