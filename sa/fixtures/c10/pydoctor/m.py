"""Fixture for R10.10: a zero-count rule must still fire on a positive example."""
from docutils.writers import html4css1


class BadTranslator(html4css1.HTMLTranslator):
    def encode(self, text):                       # replaces docutils' escaping primitive: forgets the double quote
        return str(text).replace('&', '&amp;').replace('<', '&lt;').replace('>', '&gt;')


class GoodTranslator(html4css1.HTMLTranslator):
    def encode(self, text):                       # delegates: still docutils' table
        return super().encode(text).replace(' ', ' ')

    def starttag(self, node, tagname, suffix='\n', **attributes):
        return super().starttag(node, tagname, suffix, **attributes)
