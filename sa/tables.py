"""
Curated source tables of the exception-escape analysis (DESIGN.md 2.4).  Every entry was confirmed by reading
and carries its reason.  Statistics and docstrings were only used to discover candidates.
"""
from __future__ import annotations

from typing import Dict, List

# ---------------------------------------------------------------------------------------------------------
# T1 - library partial operations applied to source-derived / external data.
# key: dotted name of the external callee after import resolution ('.name' = method name on a typed receiver)
T1: Dict[str, dict] = {
    'ast.literal_eval': {
        'raises': ['ValueError', 'TypeError'],
        'str_arg_adds': ['SyntaxError'],
        'why': 'malformed node -> ValueError; unhashable dict key / set member -> TypeError; str argument is parsed first',
    },
    'ast.parse': {
        'raises': ['SyntaxError', 'ValueError'],
        'why': 'invalid source -> SyntaxError; source containing null bytes -> ValueError',
    },
    'compile': {
        'raises': ['SyntaxError', 'ValueError'],
        'why': 'same contract as ast.parse',
    },
    'zlib.decompress': {
        'raises': ['zlib.error'],
        'why': 'corrupt stream',
    },
    'inspect.Signature.bind': {
        'raises': ['TypeError'],
        'why': 'arguments do not match the signature',
    },
    'toml.loads': {'raises': ['toml.TomlDecodeError'], 'why': 'invalid TOML'},
    'toml.load': {'raises': ['toml.TomlDecodeError'], 'why': 'invalid TOML'},
    'xml.sax.parseString': {'raises': ['xml.sax.SAXParseException'], 'why': 'ill-formed markup'},
    '.decode': {
        'raises': ['UnicodeDecodeError'],
        'unless_kw': 'errors',
        'receiver': ['bytes'],
        'total_first_arg': ['latin1', 'latin-1', 'iso-8859-1'],
        'why': 'bytes.decode without errors= on external data (latin1 is total)',
    },
    'lunr.lunr': {
        'raises': ['ZeroDivisionError'],
        'needs_nonempty_kw': 'documents',
        'why': 'lunr.py computes average field lengths by dividing through the number of documents: an empty corpus (every object hidden) '
               'raises ZeroDivisionError inside Builder.build()',
    },
    'astor.to_source': {
        'raises': ['ValueError'],
        'why': 'an integer literal with more digits than sys.int_max_str_digits (4300, CPython >= 3.11; a hex literal has no such limit when it is '
               'parsed) makes repr(int) raise inside the code generator',
    },
    '.read_string': {
        'raises': ['configparser.Error'],
        'receiver': ['ConfigParser', 'RawConfigParser'],
        'why': 'invalid INI text',
    },
}

# ---------------------------------------------------------------------------------------------------------
# T2 - repo functions with a documented, input-dependent raising contract that is not visible as a raise
# statement the engine can follow (raised by library code they wrap, or by an abstract method).
DECLARED: Dict[str, List[str]] = {
    # "@raises Exception: If something went wrong. Callers should generally catch Exception" - wraps docutils
    'pydoctor.epydoc.markup.ParsedDocstring.to_stan': ['Exception'],
    # "if these converter functions raise an exception, the whole type docstring will be rendered as plaintext" (_types.py)
    'pydoctor.epydoc.markup._types.ParsedTypeDocstring.to_stan': ['Exception'],
    # html2stan re-raises the SAX error of twisted's XMLString on ill-formed markup
    'pydoctor.stanutils.html2stan': ['xml.sax.SAXParseException'],
    # get_parser_by_name imports `pydoctor.epydoc.markup.<name>`; the name comes from __docformat__
    'pydoctor.epydoc.markup.get_parser_by_name': ['ImportError'],
}

# T2b - NotImplementedError raised by design from concrete subclasses (documented in ParsedDocstring.to_node)
NOT_IMPLEMENTED_COUNTED = {
    'pydoctor.epydoc.markup._types.ParsedTypeDocstring.to_node',
    'pydoctor.epydoc2stan.ParsedStanOnly.to_node',
    'pydoctor.epydoc.markup.ParsedDocstring.to_node',
}

# ---------------------------------------------------------------------------------------------------------
# Exception classes that are never counted as "run aborted by input" and why.
IGNORED_CLASSES: Dict[str, str] = {
    'AssertionError': 'internal invariants (stated limit of the analysis)',
    'SystemExit': 'documented exit through utils.error()',
    'KeyboardInterrupt': 'user action',
    'GeneratorExit': 'protocol',
    'StopIteration': 'iterator protocol, consumed by for/next(default)',
    'StopAsyncIteration': 'protocol',
    'MemoryError': 'environmental',
    'RecursionError': 'environmental (deep nesting is a stated limit)',
    'docutils.nodes.TreePruningException': 'docutils walk protocol, consumed by Node.walk/walkabout',
    'docutils.nodes.SkipNode': 'docutils walk protocol', 'docutils.nodes.SkipChildren': 'docutils walk protocol',
    'docutils.nodes.SkipSiblings': 'docutils walk protocol', 'docutils.nodes.SkipDeparture': 'docutils walk protocol',
    'docutils.nodes.StopTraversal': 'docutils walk protocol', 'docutils.nodes.NodeFound': 'docutils walk protocol',
    'pydoctor.visitor.Visitor._TreePruningException': 'pydoctor walk protocol; its handling is decided by C19 (typestate rule)',
    'pydoctor.visitor.Visitor.SkipNode': 'see _TreePruningException', 'pydoctor.visitor.Visitor.SkipChildren': 'see _TreePruningException',
    'pydoctor.visitor.Visitor.SkipSiblings': 'see _TreePruningException', 'pydoctor.visitor.Visitor.SkipDeparture': 'see _TreePruningException',
}

# Vendored, unannotated CPython modules: analysed as one unit (any function may raise what any raise in it raises).
OPAQUE_MODULES = ['pydoctor.epydoc.sre_parse36', 'pydoctor.epydoc.sre_constants36']

# ---------------------------------------------------------------------------------------------------------
# Explicit raise statements that are not input-dependent failures, keyed by function, with the reason.
RAISE_NOT_COUNTED: Dict[str, str] = {
    'pydoctor.visitor._BaseVisitor.unknown_visit': 'abstract default; every concrete visitor used on a run overrides it or defines all node types (PartialVisitor/VisitorExt)',
    'pydoctor.visitor._BaseVisitor.unknown_departure': 'same as unknown_visit',
    'pydoctor.visitor.Visitor.get_children': 'abstract classmethod stub',
    'pydoctor.model.Documentable._localNameToFullName': 'abstract stub overridden by every concrete Documentable',
    'pydoctor.model.Documentable.isNameDefined': 'abstract stub overridden by every concrete Documentable',
    'pydoctor.napoleon.iterators.peek_iter.__init__': 'API misuse guard (TypeError on wrong constructor arguments)',
    'pydoctor.napoleon.iterators.modify_iter.__init__': 'API misuse guard',
    'pydoctor.astutils.Str.__init__': 'API misuse guard: Str is a typing-only alias never instantiated',
    'pydoctor.epydoc.sre_parse36._parse#Verbose': 'vendored CPython retry protocol: caught by sre_parse36.parse, which re-parses with the VERBOSE flag set so the second pass cannot raise it',
    'pydoctor.templatewriter.writer.flattenToFile': 're-raise of what a renderer raised; renderers are analysed through the flatten->renderers model',
    'pydoctor.stanutils.flatten': 're-raise of what a renderer raised; modelled by the flatten->renderers edges',
    'pydoctor.templatewriter.TemplateLookup.get_template': 'depends on the installed/--template-dir templates, not on the documented sources',
    'pydoctor.templatewriter.TemplateLookup.get_loader': 'depends on the templates, not on the documented sources',
    'pydoctor.templatewriter.pages.Page.title': 'abstract stub, overridden by every concrete page',
    'pydoctor.utils.findClassFromDottedName': 'only reached with a str argument coming from CLI options; objectsOfType callers pass classes',
    'pydoctor.model.System.addObject': 'internal invariant: the builder only creates parentless modules',
    'pydoctor.model.import_mod_from_file_location': 'only with --introspect-c-modules, which executes foreign code: outside the analysed subset',
    'pydoctor.epydoc.markup._pyval_repr.PyvalColorizer._get_ast_constant_val': 'internal invariant: only called under the isinstance test of _colorize_ast',
}
