"""
Exception-escape (effect) analysis over the resolved call graph.

esc(f) = set of (exception class, origin site) that can leave f, computed bottom-up with a fix-point.
Sources are curated (tables T1/T2 in sa/tables.py) plus explicit `raise` statements (T3).
A `try` removes the classes its handlers subsume; a handler that re-raises keeps them.
"""
from __future__ import annotations

import ast
import builtins
from typing import Dict, FrozenSet, Iterable, List, Optional, Set, Tuple

from .core import AnalysisError, Cls, Func, Repo, dotted, norm, walk_no_nested
from .callgraph import CallGraph, Site
from .util import enclosing_trys


# library exception classes -> their bases (names as they appear after import resolution)
LIB_EXC: Dict[str, str] = {
    'zlib.error': 'Exception',
    're.error': 'Exception',
    'sre_constants.error': 'Exception',
    'xml.sax.SAXParseException': 'Exception',
    'xml.sax.SAXException': 'Exception',
    'xml.sax._exceptions.SAXParseException': 'Exception',
    'configargparse.ConfigFileParserException': 'Exception',
    'configparser.Error': 'Exception',
    'configparser.ParsingError': 'configparser.Error',
    'toml.TomlDecodeError': 'ValueError',
    'toml.decoder.TomlDecodeError': 'ValueError',
    'docutils.nodes.TreePruningException': 'Exception',
    'docutils.nodes.SkipNode': 'docutils.nodes.TreePruningException',
    'docutils.nodes.SkipChildren': 'docutils.nodes.TreePruningException',
    'docutils.nodes.SkipSiblings': 'docutils.nodes.TreePruningException',
    'docutils.nodes.SkipDeparture': 'docutils.nodes.TreePruningException',
    'docutils.nodes.StopTraversal': 'docutils.nodes.TreePruningException',
    'docutils.nodes.NodeFound': 'docutils.nodes.TreePruningException',
    'docutils.utils.SystemMessage': 'Exception',
    'docutils.ApplicationError': 'Exception',
    'requests.exceptions.RequestException': 'OSError',
    'requests.RequestException': 'OSError',
    'twisted.web.error.FlattenerError': 'Exception',
    'tokenize.TokenError': 'Exception',
    'json.JSONDecodeError': 'ValueError',
    'subprocess.CalledProcessError': 'Exception',
}


class Excs:
    """Exception class algebra over builtin, library and repo classes (by qualified name)."""

    def __init__(self, repo: Repo):
        self.repo = repo

    def bases(self, name: str) -> List[str]:
        """All ancestors of `name`, nearest first (including itself)."""
        out: List[str] = []
        todo = [name]
        while todo:
            n = todo.pop(0)
            if n in out:
                continue
            out.append(n)
            c = self.repo.classes.get(n)
            if c is not None:
                todo.extend(c.bases)
                continue
            b = getattr(builtins, n, None)
            if isinstance(b, type) and issubclass(b, BaseException):
                todo.extend(k.__name__ for k in b.__mro__[1:] if k is not object)
                continue
            if n in LIB_EXC:
                todo.append(LIB_EXC[n])
                continue
            if n not in ('BaseException', 'object'):
                # unknown external exception class: assume it derives from Exception
                todo.append('Exception')
        return out

    def is_sub(self, a: str, b: str) -> bool:
        return b in self.bases(a)

    def resolve_class_expr(self, e: ast.AST, f: Func) -> List[str]:
        """Exception classes named by the expression in an `except` clause / raise."""
        r = self.repo
        if isinstance(e, ast.Tuple):
            out: List[str] = []
            for x in e.elts:
                out.extend(self.resolve_class_expr(x, f))
            return out
        t = r.type_of(e, f)
        out2: List[str] = []
        for a in t:
            if a[0] == 'type':
                out2.append(a[1])
            elif a[0] == 'extname':
                out2.append(a[1])
            elif a[0] == 'seq':
                for b in a[1]:
                    if b[0] in ('type', 'extname'):
                        out2.append(b[1])
        if out2:
            return out2
        d = dotted(e)
        if d is not None:
            # self.SkipNode -> nested class of the receiver's class
            res = r.resolve(f.mod, d, f)
            if res is not None and res[0] == 'cls':
                return [res[1].qn]
            if res is not None and res[0] == 'ext':
                return [res[1]]
            if isinstance(e, ast.Attribute):
                for a in r.type_of(e.value, f):
                    if a[0] in ('inst', 'type') and a[1] in r.classes:
                        for k in r.mro(r.classes[a[1]]):
                            if e.attr in k.nested:
                                return [k.nested[e.attr].qn]
            return [d]
        return ['?']


def ann_optional(a: Optional[ast.AST]) -> bool:
    """Does a return annotation admit None?"""
    if a is None:
        return False
    if isinstance(a, ast.Constant) and isinstance(a.value, str):
        try:
            a = ast.parse(a.value.strip(), mode='eval').body
        except SyntaxError:
            return False
    if isinstance(a, ast.Constant) and a.value is None:
        return False    # `-> None`: a procedure, its result is not used
    if isinstance(a, ast.Subscript):
        h = (dotted(a.value) or '').split('.')[-1]
        if h == 'Optional':
            return True
        if h == 'Union':
            el = a.slice.elts if isinstance(a.slice, ast.Tuple) else [a.slice]
            return any(isinstance(e, ast.Constant) and e.value is None for e in el)
    if isinstance(a, ast.BinOp) and isinstance(a.op, ast.BitOr):
        return ann_optional(a.left) or ann_optional(a.right) or \
            any(isinstance(x, ast.Constant) and x.value is None for x in (a.left, a.right))
    return False


def _implies_nonnull(test: ast.AST, pol: bool, v: str, depth: int = 0) -> bool:
    """Does `test` evaluating to `pol` imply that local `v` is not None?"""
    if depth > 6:
        return False
    if isinstance(test, ast.Name) and test.id == v:
        return pol
    if isinstance(test, ast.UnaryOp) and isinstance(test.op, ast.Not):
        return _implies_nonnull(test.operand, not pol, v, depth + 1)
    if isinstance(test, ast.Compare) and len(test.ops) == 1 and isinstance(test.left, ast.Name) and test.left.id == v:
        c0 = test.comparators[0]
        is_none = isinstance(c0, ast.Constant) and c0.value is None
        if is_none and isinstance(test.ops[0], ast.IsNot):
            return pol
        if is_none and isinstance(test.ops[0], ast.Is):
            return not pol
        if isinstance(test.ops[0], (ast.Eq, ast.In)) and not is_none:
            return pol      # equal to / member of something concrete
    if isinstance(test, ast.Call) and isinstance(test.func, ast.Name) and test.func.id in ('isinstance', 'len', 'callable') and test.args and \
            isinstance(test.args[0], ast.Name) and test.args[0].id == v:
        return pol
    if isinstance(test, ast.BoolOp):
        if isinstance(test.op, ast.And) and pol:
            return any(_implies_nonnull(x, True, v, depth + 1) for x in test.values)
        if isinstance(test.op, ast.Or) and not pol:
            return any(_implies_nonnull(x, False, v, depth + 1) for x in test.values)
    return False


class Source:
    __slots__ = ('func', 'node', 'excs', 'label', 'kind')

    def __init__(self, func: Func, node: ast.AST, excs: List[str], label: str, kind: str):
        self.func = func
        self.node = node
        self.excs = excs
        self.label = label
        self.kind = kind    # 'T1' | 'T2' | 'T3'

    @property
    def loc(self) -> str:
        return f'{self.func.mod.relpath}:{getattr(self.node, "lineno", 0)}'

    @property
    def key(self) -> str:
        return f'{self.func.qn}:{self.label}'


# esc item: (exception class, source) ; witness: how it got here
class Escape:
    def __init__(self, repo: Repo, cg: CallGraph, t1: Dict[str, dict], declared: Dict[str, List[str]],
                 ignore_classes: Iterable[str] = (), opaque_modules: Iterable[str] = (),
                 skip_raise_in: Optional[Dict[str, str]] = None):
        self.repo = repo
        self.cg = cg
        self.x = Excs(repo)
        self.t1 = t1
        self.declared = declared
        self.ignore = set(ignore_classes)
        self.opaque = set(opaque_modules)
        self.skip_raise_in = skip_raise_in or {}
        self.sources: List[Source] = []
        self.local: Dict[str, List[Tuple[ast.AST, str, Source]]] = {}
        self.esc: Dict[str, Dict[Tuple[str, int], Tuple[Source, Optional[Site], Optional[str]]]] = {}
        self.discharged: Dict[int, List[Tuple[str, str, str]]] = {}   # id(source) -> [(exc, in func, handler text)]
        self._src_index: Dict[int, Source] = {}
        self.t9_instances: List[str] = []      # separator-strip idioms examined (discharged or not)
        self._collect_sources()
        self._fixpoint()

    # ------------------------------------------------------------ sources
    def _raise_classes(self, n: ast.Raise, f: Func) -> List[str]:
        r = self.repo
        e = n.exc
        if e is None:
            return []   # bare re-raise: handled by the handler logic
        if isinstance(e, ast.Call):
            # raise X(...) ; raise self.error(...) where error() returns an exception instance
            t = r.type_of(e.func, f)
            if any(a[0] in ('type', 'extname') for a in t):
                return [a[1] for a in t if a[0] in ('type', 'extname')]
            out: List[str] = []
            cal, how = r.callees(e, f)
            for g in cal:
                got = [a[1] for a in r.return_type(g) if a[0] == 'inst']
                if not got and not isinstance(g.node, ast.Lambda):
                    for m in g.walk():
                        if isinstance(m, ast.Return) and isinstance(m.value, ast.Call):
                            got.extend(c for c in self.x.resolve_class_expr(m.value.func, g) if self._known_exc(c))
                out.extend(c for c in got if c not in out)
            if out:
                return out
            cls = [c for c in self.x.resolve_class_expr(e.func, f) if self._known_exc(c)]
            return cls or ['Exception']
        # raise X  (class or instance variable)
        t = r.type_of(e, f)
        out2 = [a[1] for a in t if a[0] in ('inst', 'type', 'extname')]
        if out2:
            return out2
        d = dotted(e)
        if d:
            res = r.resolve(f.mod, d, f)
            if res and res[0] == 'cls':
                return [res[1].qn]
            if res and res[0] == 'ext':
                return [res[1]]
        return ['Exception']

    def _known_exc(self, c: str) -> bool:
        if c in self.repo.classes or c in LIB_EXC:
            return True
        b = getattr(builtins, c, None)
        return isinstance(b, type) and issubclass(b, BaseException)

    def _collect_sources(self) -> None:
        r = self.repo
        for f in r.funcs.values():
            items: List[Tuple[ast.AST, str, Source]] = []
            # T3: explicit raises
            for n in f.walk():
                if isinstance(n, ast.Raise) and n.exc is not None:
                    if f.qn in self.skip_raise_in:
                        continue
                    classes = self._raise_classes(n, f)
                    classes = [c for c in classes if f'{f.qn}#{c.split(".")[-1]}' not in self.skip_raise_in]
                    if not classes:
                        continue
                    src = Source(f, n, classes, f'raise {norm(n.exc)[:60]}', 'T3')
                    self.sources.append(src)
                    for c in classes:
                        items.append((n, c, src))
            # T1: library partial operations
            for s in self.cg.sites.get(f.qn, []):
                if not isinstance(s.node, ast.Call):
                    continue
                name = s.ext or ''
                entry = self._t1_lookup(name, s.node, f)
                if entry is not None:
                    classes = list(entry['raises'])
                    cond = entry.get('str_arg_adds')
                    if cond and s.node.args:
                        at = r.type_of(s.node.args[0], f)
                        if any(a == ('inst', 'str') for a in at):
                            classes = classes + list(cond)
                    src = Source(f, s.node, classes, f'{entry["name"]}({norm(s.node.args[0])[:40] if s.node.args else ""})', 'T1')
                    self.sources.append(src)
                    for c in classes:
                        items.append((s.node, c, src))
            # T1b: %-formatting whose *format string* contains interpolated data (f-string % args)
            for n in f.walk():
                if isinstance(n, ast.BinOp) and isinstance(n.op, ast.Mod) and isinstance(n.left, ast.JoinedStr) and \
                        any(isinstance(v, ast.FormattedValue) for v in n.left.values):
                    classes = ['ValueError', 'TypeError']
                    src = Source(f, n, classes, f'dynamic format string {norm(n.left)[:40]} % ...', 'T1')
                    self.sources.append(src)
                    for c in classes:
                        items.append((n, c, src))
            # T4: result of a function declared Optional[...] used directly where None is not acceptable
            for n in f.walk():
                if not isinstance(n, ast.Call):
                    continue
                ctx = self._none_sensitive_context(n)
                if ctx is None:
                    continue
                cal, how = r.callees(n, f)
                if not cal or how not in ('direct', 'method'):
                    continue
                if not all(not isinstance(g.node, ast.Lambda) and ann_optional(g.node.returns) for g in cal):
                    continue
                classes = ['AttributeError'] if ctx == 'attribute access' else ['TypeError']
                src = Source(f, n, classes, f'Optional result of {norm(n.func)[:40]}() used in {ctx}', 'T4')
                self.sources.append(src)
                for c in classes:
                    items.append((n, c, src))
            # T4v: a local that only ever holds the result of Optional-returning functions, used where None is not acceptable,
            #      without a dominating non-None test
            for src in self._optional_variable_uses(f):
                self.sources.append(src)
                for c in src.excs:
                    items.append((src.node, c, src))
            # T5: `a, b = L` after a length test on L that does not establish len(L) == 2 (the code believes the length can
            #     vary but checks the wrong bound)
            for src in self._insufficient_length_guards(f):
                self.sources.append(src)
                for c in src.excs:
                    items.append((src.node, c, src))
            # T7: partial list operations on a local list built in the same function (`args = list(...)`; `args.pop(0)`, `args.remove(x)`):
            #     IndexError / ValueError unless a dominating test says the list is non-empty / contains x
            for src in self._partial_list_ops(f):
                self.sources.append(src)
                for c in src.excs:
                    items.append((src.node, c, src))
            # T8: attribute of a module imported under a run-time name (`m = import_module(f'pkg.{name}')`; `m.attr`):
            #     AttributeError unless a dominating `hasattr(m, 'attr')` test / 3-argument getattr is used instead
            for src in self._dynamic_module_attrs(f):
                self.sources.append(src)
                for c in src.excs:
                    items.append((src.node, c, src))
            # T9: the separator-strip idiom (`r = []`; `for x in S: r.append(..); r.append(', ')`; `del r[-1]`): IndexError when S is empty,
            #     unless S is tested non-empty after its last re-binding (in the function, or - for a parameter - at every call site)
            for src in self._separator_strips(f):
                self.sources.append(src)
                for c in src.excs:
                    items.append((src.node, c, src))
            # T10: decimal conversion of a value the code has just established to be an int (`type(v) is int` / `isinstance(v, int)` dominating
            #      `str(v)` / `repr(v)`): ValueError beyond sys.int_max_str_digits - the value is a literal of the analysed source
            for src in self._int_to_str(f):
                self.sources.append(src)
                for c in src.excs:
                    items.append((src.node, c, src))
            # T2: declared raises of the function itself (abstract / documented contract)
            if f.qn in self.declared:
                src = Source(f, f.node, list(self.declared[f.qn]), 'declared contract', 'T2')
                self.sources.append(src)
                for c in self.declared[f.qn]:
                    items.append((f.node, c, src))
            self.local[f.qn] = items
        for s in self.sources:
            self._src_index[id(s)] = s

    # ------------------------------------------------------------ T4v / T5
    def _optional_variable_uses(self, f: Func) -> List['Source']:
        from .cfg import CFG
        from .util import guard_tests
        r = self.repo
        if isinstance(f.node, ast.Lambda):
            return []
        cand: Dict[str, List[ast.Call]] = {}
        disq: Set[str] = set(p.arg for p in f.params())
        for n in f.walk():
            tgts: List[ast.AST] = []
            val: Optional[ast.AST] = None
            if isinstance(n, ast.Assign):
                tgts, val = list(n.targets), n.value
            elif isinstance(n, (ast.AnnAssign, ast.AugAssign)):
                tgts, val = [n.target], n.value
            elif isinstance(n, (ast.For, ast.comprehension)):
                for x in ast.walk(n.target):
                    if isinstance(x, ast.Name):
                        disq.add(x.id)
            elif isinstance(n, (ast.With,)):
                for it in n.items:
                    if it.optional_vars is not None:
                        for x in ast.walk(it.optional_vars):
                            if isinstance(x, ast.Name):
                                disq.add(x.id)
            elif isinstance(n, ast.NamedExpr) and isinstance(n.target, ast.Name):
                disq.add(n.target.id)
            elif isinstance(n, ast.ExceptHandler) and n.name:
                disq.add(n.name)
            for t in tgts:
                if isinstance(t, ast.Name):
                    ok = False
                    if isinstance(val, ast.Call) and not isinstance(n, ast.AugAssign):
                        cal, how = r.callees(val, f)
                        if cal and how in ('direct', 'method') and all(not isinstance(g.node, ast.Lambda) and ann_optional(g.node.returns) for g in cal):
                            ok = True
                        # T4v for mappings: `m.get(key)` without a default answers None for a missing key
                        if not ok and isinstance(val.func, ast.Attribute) and val.func.attr == 'get' and len(val.args) == 1 and not val.keywords:
                            recv_t = r.type_of(val.func.value, f)
                            if any(a[0] == 'map' for a in recv_t) or (isinstance(val.func.value, ast.Attribute) and val.func.value.attr in ('contents', 'allobjects')):
                                ok = True
                    if ok:
                        cand.setdefault(t.id, []).append(val)  # type: ignore[arg-type]
                    else:
                        disq.add(t.id)
                else:
                    # names (re)bound by a structured target; the receiver of `v.attr = ...` / `v[k] = ...` is a USE of v, not a binding
                    for x in ast.walk(t):
                        if isinstance(x, ast.Name) and isinstance(x.ctx, ast.Store):
                            disq.add(x.id)
        out: List[Source] = []
        names = [v for v in cand if v not in disq]
        if not names:
            return out
        cfg = None
        for v in names:
            for u in f.walk():
                if not (isinstance(u, ast.Name) and u.id == v and isinstance(u.ctx, ast.Load)):
                    continue
                ctx = self._none_sensitive_use(u)
                if ctx is None:
                    continue
                guarded = any(_implies_nonnull(t, pol, v) for t, pol in guard_tests(u, f.node))
                if not guarded:
                    if cfg is None:
                        cfg = CFG(f)
                    try:
                        st = cfg.stmt_of(u)
                        guarded = any(_implies_nonnull(t, pol, v) for t, pol in cfg.dominating_tests(st))
                        if not guarded:
                            # `assert v is not None` / `assert v` dominating the use
                            for a in f.walk():
                                if isinstance(a, ast.Assert) and _implies_nonnull(a.test, True, v) and a is not st and cfg.dominates(a, st, no_exc=True):
                                    guarded = True
                    except AttributeError:
                        guarded = True
                if guarded:
                    continue
                classes = ['AttributeError'] if ctx == 'attribute access' else ['TypeError']
                out.append(Source(f, u, classes, f'Optional result of {norm(cand[v][0].func)[:30]}() in `{v}` used in {ctx} without a None test', 'T4'))
        return out

    @staticmethod
    def _none_sensitive_use(u: ast.Name) -> Optional[str]:
        p = getattr(u, '_parent', None)
        if isinstance(p, ast.Attribute) and p.value is u:
            return 'attribute access'
        if isinstance(p, ast.Subscript) and p.value is u:
            return 'subscript'
        if isinstance(p, ast.Call) and p.func is u:
            return 'call'
        if isinstance(p, ast.BinOp) and not isinstance(p.op, ast.BitOr):
            return 'arithmetic'
        if isinstance(p, (ast.For, ast.comprehension)) and p.iter is u:
            return 'iteration'
        if isinstance(p, ast.Starred):
            return 'unpacking'
        if isinstance(p, ast.Call) and u in p.args:
            nm = p.func.attr if isinstance(p.func, ast.Attribute) else p.func.id if isinstance(p.func, ast.Name) else ''
            if nm in ('join', 'len', 'sorted', 'list', 'tuple', 'set', 'enumerate', 'zip', 'sum', 'min', 'max', 'any', 'all', 'iter', 'next', 'reversed'):
                return f'{nm}(...)'
        if isinstance(p, ast.Compare) and any(isinstance(o, (ast.Lt, ast.Gt, ast.LtE, ast.GtE)) for o in p.ops):
            return 'ordering comparison'
        return None

    @staticmethod
    def _fresh_nonempty_test(cfg, f: Func, name: str, use: ast.stmt) -> bool:
        """A test mentioning `name` dominates `use` and `name` is not re-bound between that test and `use`."""
        stores = [n for n in f.walk() if isinstance(n, ast.Name) and isinstance(n.ctx, ast.Store) and n.id == name]
        for t, _pol in cfg.dominating_tests(use):
            if not any(isinstance(x, ast.Name) and x.id == name for x in ast.walk(t)):
                continue
            stale = False
            for st_ in stores:
                try:
                    ss = cfg.stmt_of(st_)
                except AttributeError:
                    continue
                if cfg.before(t, st_) and (ss is use or id(use) in cfg.reachable(ss)):
                    stale = True
            if not stale:
                return True
        return False

    def _separator_strips(self, f: Func) -> List['Source']:
        from .cfg import CFG
        out: List[Source] = []
        if isinstance(f.node, ast.Lambda):
            return out
        stores: Dict[str, int] = {}
        for n in f.walk():
            if isinstance(n, ast.Name) and isinstance(n.ctx, ast.Store):
                stores[n.id] = stores.get(n.id, 0) + 1
        empties = {}
        for n in f.walk():
            if isinstance(n, (ast.Assign, ast.AnnAssign)) and isinstance(n.value, ast.List) and not n.value.elts:
                for t in (n.targets if isinstance(n, ast.Assign) else [n.target]):
                    if isinstance(t, ast.Name) and stores.get(t.id) == 1:
                        empties[t.id] = n
        if not empties:
            return out
        cfg = None
        for d in f.walk():
            # the strip: `del r[-1]` / `r.pop()` as a statement of its own
            r = None
            if isinstance(d, ast.Delete) and len(d.targets) == 1 and isinstance(d.targets[0], ast.Subscript) and isinstance(d.targets[0].value, ast.Name) and \
                    isinstance(d.targets[0].slice, ast.UnaryOp) and isinstance(d.targets[0].slice.op, ast.USub):
                r = d.targets[0].value.id
            elif isinstance(d, ast.Expr) and isinstance(d.value, ast.Call) and isinstance(d.value.func, ast.Attribute) and d.value.func.attr == 'pop' and \
                    not d.value.args and isinstance(d.value.func.value, ast.Name):
                r = d.value.func.value.id
            if r is None or r not in empties:
                continue
            # every mutation of r sits in the body of ONE for loop that does not contain the strip
            muts = [c for c in f.walk() if isinstance(c, ast.Call) and isinstance(c.func, ast.Attribute) and c.func.attr in ('append', 'extend', 'insert') and
                    isinstance(c.func.value, ast.Name) and c.func.value.id == r]
            loops = set()
            for c in muts:
                q = getattr(c, '_parent', None)
                while q is not None and q is not f.node and not isinstance(q, (ast.For, ast.AsyncFor, ast.While)):
                    q = getattr(q, '_parent', None)
                loops.add(id(q) if isinstance(q, (ast.For, ast.AsyncFor)) else None)
            if not muts or len(loops) != 1 or None in loops:
                continue
            loop = next(n for n in f.walk() if id(n) in loops)
            if any(x is d for x in ast.walk(loop)):
                continue
            it = loop.iter
            while isinstance(it, ast.Call) and isinstance(it.func, ast.Name) and it.func.id in ('reversed', 'sorted', 'list', 'tuple', 'enumerate') and it.args:
                it = it.args[0]
            if not isinstance(it, ast.Name):
                continue
            seq = it.id
            self.t9_instances.append(f'{f.qn} :: {r} <- {seq}')
            if cfg is None:
                cfg = CFG(f)
            if any(h.type is None or any(isinstance(x, ast.Name) and x.id in ('IndexError', 'LookupError', 'Exception') for x in ast.walk(h.type))
                   for t in enclosing_trys(d, f.node) for h in t.handlers):
                continue
            if self._fresh_nonempty_test(cfg, f, r, d) or self._fresh_nonempty_test(cfg, f, seq, d):
                continue
            params = [a.arg for a in f.params()]
            if seq in params and stores.get(seq, 0) == 0:
                # the requirement moves to the call sites
                pos = params.index(seq)
                sites = self.cg.callers.get(f.qn, [])
                bad = None
                for s_ in sites:
                    call = s_.node
                    if not isinstance(call, ast.Call):
                        bad = s_
                        break
                    arg = None
                    off = 1 if (f.cls is not None and params and params[0] in ('self', 'cls') and isinstance(call.func, ast.Attribute)) else 0
                    if pos - off < len(call.args) and pos - off >= 0:
                        arg = call.args[pos - off]
                    for kw in call.keywords:
                        if kw.arg == seq:
                            arg = kw.value
                    if isinstance(arg, (ast.List, ast.Tuple)) and arg.elts and not any(isinstance(e, ast.Starred) for e in arg.elts):
                        continue
                    if not isinstance(arg, ast.Name):
                        bad = s_
                        break
                    ccfg = CFG(s_.func)
                    try:
                        use = ccfg.stmt_of(call)
                    except AttributeError:
                        bad = s_
                        break
                    if not self._fresh_nonempty_test(ccfg, s_.func, arg.id, use):
                        bad = s_
                        break
                if sites and bad is None:
                    continue
                where = f' (not established by the caller {bad.func.qn})' if bad is not None else ' (no call site found)'
                out.append(Source(f, d, ['IndexError'], f'trailing separator stripped from a list filled by a loop over a parameter that may be empty{where}', 'T9'))
            else:
                out.append(Source(f, d, ['IndexError'], 'trailing separator stripped from a list filled by a loop over a sequence that may be empty', 'T9'))
        return out

    def _int_to_str(self, f: Func) -> List['Source']:
        from .cfg import CFG
        out: List[Source] = []
        if isinstance(f.node, ast.Lambda):
            return out
        cands = [c for c in f.walk() if isinstance(c, ast.Call) and isinstance(c.func, ast.Name) and c.func.id in ('str', 'repr') and len(c.args) == 1 and
                 isinstance(c.args[0], ast.Name)]
        if not cands:
            return out
        # locals holding type(v)
        type_of: Dict[str, str] = {}
        for n in f.walk():
            if isinstance(n, ast.Assign) and len(n.targets) == 1 and isinstance(n.targets[0], ast.Name) and isinstance(n.value, ast.Call) and \
                    isinstance(n.value.func, ast.Name) and n.value.func.id == 'type' and len(n.value.args) == 1 and isinstance(n.value.args[0], ast.Name):
                type_of[n.targets[0].id] = n.value.args[0].id
        cfg = None
        for c in cands:
            v = c.args[0].id
            if cfg is None:
                cfg = CFG(f)
            try:
                st = cfg.stmt_of(c)
            except AttributeError:
                continue
            def says_int(t: ast.AST) -> bool:
                if isinstance(t, ast.Call) and isinstance(t.func, ast.Name) and t.func.id == 'isinstance' and len(t.args) == 2 and \
                        isinstance(t.args[0], ast.Name) and t.args[0].id == v:
                    return isinstance(t.args[1], ast.Name) and t.args[1].id == 'int'
                if isinstance(t, ast.Compare) and len(t.ops) == 1 and isinstance(t.ops[0], (ast.Is, ast.Eq)) and \
                        isinstance(t.comparators[0], ast.Name) and t.comparators[0].id == 'int':
                    l = t.left
                    if isinstance(l, ast.Name) and type_of.get(l.id) == v:
                        return True
                    if isinstance(l, ast.Call) and isinstance(l.func, ast.Name) and l.func.id == 'type' and l.args and isinstance(l.args[0], ast.Name) and l.args[0].id == v:
                        return True
                return False
            if not any(pol and says_int(t) for t, pol in cfg.dominating_tests(st)):
                continue
            if any(h.type is None or any(isinstance(x, ast.Name) and x.id in ('ValueError', 'Exception') for x in ast.walk(h.type))
                   for t in enclosing_trys(c, f.node) for h in t.handlers):
                continue
            out.append(Source(f, c, ['ValueError'], 'decimal conversion of an int taken from the analysed source (sys.int_max_str_digits)', 'T10'))
        return out

    def _dynamic_module_attrs(self, f: Func) -> List['Source']:
        from .cfg import CFG
        out: List[Source] = []
        if isinstance(f.node, ast.Lambda):
            return out
        def dyn_import(v: ast.AST) -> bool:
            if not (isinstance(v, ast.Call) and v.args):
                return False
            nm = v.func.attr if isinstance(v.func, ast.Attribute) else v.func.id if isinstance(v.func, ast.Name) else ''
            return nm in ('import_module', '__import__') and not isinstance(v.args[0], ast.Constant)
        stores: Dict[str, List[ast.AST]] = {}
        for n in f.walk():
            if isinstance(n, ast.Name) and isinstance(n.ctx, ast.Store):
                stores.setdefault(n.id, []).append(n)
        mods = {t.id for n in f.walk() if isinstance(n, ast.Assign) and dyn_import(n.value) for t in n.targets
                if isinstance(t, ast.Name) and len(stores.get(t.id, [])) == 1}
        if not mods:
            return out
        cfg = None
        for a in f.walk():
            if not (isinstance(a, ast.Attribute) and isinstance(a.ctx, ast.Load) and isinstance(a.value, ast.Name) and a.value.id in mods):
                continue
            if a.attr.startswith('__') and a.attr.endswith('__'):
                continue                      # __name__, __file__, ... exist on every module
            v = a.value.id
            if cfg is None:
                cfg = CFG(f)
            try:
                st = cfg.stmt_of(a)
            except AttributeError:
                continue
            def is_hasattr(t: ast.AST) -> bool:
                return (isinstance(t, ast.Call) and isinstance(t.func, ast.Name) and t.func.id == 'hasattr' and len(t.args) == 2 and
                        isinstance(t.args[0], ast.Name) and t.args[0].id == v and isinstance(t.args[1], ast.Constant) and t.args[1].value == a.attr)
            if any(pol and is_hasattr(t) for t, pol in cfg.dominating_tests(st)):
                continue
            out.append(Source(f, a, ['AttributeError'], f'`{v}.{a.attr}` on a module imported under a run-time name', 'T8'))
        return out

    def _partial_list_ops(self, f: Func) -> List['Source']:
        from .cfg import CFG
        out: List[Source] = []
        if isinstance(f.node, ast.Lambda):
            return out
        built = {t.id for n in f.walk() if isinstance(n, ast.Assign) and isinstance(n.value, ast.Call) and isinstance(n.value.func, ast.Name) and
                 n.value.func.id == 'list' for t in n.targets if isinstance(t, ast.Name)}
        if not built:
            return out
        cfg = None
        for c in f.walk():
            if not (isinstance(c, ast.Call) and isinstance(c.func, ast.Attribute) and isinstance(c.func.value, ast.Name) and c.func.value.id in built):
                continue
            v = c.func.value.id
            if c.func.attr == 'pop' and len(c.args) == 1 and isinstance(c.args[0], ast.Constant) and isinstance(c.args[0].value, int):
                exc, what = 'IndexError', f'`{v}.pop({c.args[0].value})` on a list that may be empty'
            elif c.func.attr == 'remove' and len(c.args) == 1:
                exc, what = 'ValueError', f'`{v}.remove(...)` of an element that may be absent'
            else:
                continue
            if cfg is None:
                cfg = CFG(f)
            try:
                st = cfg.stmt_of(c)
            except AttributeError:
                continue
            guarded = False
            for t, pol in cfg.dominating_tests(st):
                if pol and ((isinstance(t, ast.Name) and t.id == v) or
                            (isinstance(t, ast.Compare) and any(isinstance(x, ast.Call) and isinstance(x.func, ast.Name) and x.func.id == 'len' and x.args and
                                                                isinstance(x.args[0], ast.Name) and x.args[0].id == v for x in ast.walk(t))) or
                            (isinstance(t, ast.Compare) and isinstance(t.ops[0], ast.In) and isinstance(t.comparators[0], ast.Name) and t.comparators[0].id == v)):
                    guarded = True
            if not guarded:
                out.append(Source(f, c, [exc], what, 'T7'))
        return out

    def _insufficient_length_guards(self, f: Func) -> List['Source']:
        from .cfg import CFG
        out: List[Source] = []
        if isinstance(f.node, ast.Lambda):
            return out
        cfg = None
        for a in f.walk():
            if not (isinstance(a, ast.Assign) and isinstance(a.targets[0], (ast.Tuple, ast.List)) and isinstance(a.value, ast.Name)):
                continue
            tg = a.targets[0]
            if any(isinstance(e, ast.Starred) for e in tg.elts):
                continue
            n = len(tg.elts)
            lname = a.value.id
            lens = [t for t in f.walk() if isinstance(t, ast.Compare) and isinstance(t.left, ast.Call) and isinstance(t.left.func, ast.Name)
                    and t.left.func.id == 'len' and t.left.args and isinstance(t.left.args[0], ast.Name) and t.left.args[0].id == lname
                    and isinstance(t.comparators[0], ast.Constant)]
            if not lens:
                continue        # no stated belief about the length: relies on an invariant, not decided
            if cfg is None:
                cfg = CFG(f)
            tests = cfg.dominating_tests(a)
            exact = False
            for t, pol in tests:
                for c in ([t] if isinstance(t, ast.Compare) else [x for x in ast.walk(t) if isinstance(x, ast.Compare)] if (isinstance(t, ast.BoolOp) and ((isinstance(t.op, ast.And) and pol) or (isinstance(t.op, ast.Or) and not pol))) else []):
                    if c in lens and isinstance(c.comparators[0], ast.Constant) and c.comparators[0].value == n:
                        if (isinstance(c.ops[0], ast.Eq) and pol) or (isinstance(c.ops[0], ast.NotEq) and not pol):
                            exact = True
            if not exact:
                out.append(Source(f, a, ['ValueError'], f'unpacking {n} value(s) from `{lname}` whose length test does not establish len == {n}', 'T5'))
        return out

    @staticmethod
    def _none_sensitive_context(c: ast.Call) -> Optional[str]:
        p = getattr(c, '_parent', None)
        if isinstance(p, ast.BinOp) and not isinstance(p.op, ast.BitOr):
            return 'arithmetic'
        if isinstance(p, ast.Attribute) and p.value is c:
            return 'attribute access'
        if isinstance(p, ast.Subscript) and p.value is c:
            return 'subscript'
        if isinstance(p, ast.Call) and p.func is c:
            return 'call'
        if isinstance(p, ast.Compare) and any(isinstance(o, (ast.Lt, ast.Gt, ast.LtE, ast.GtE)) for o in p.ops):
            return 'ordering comparison'
        if isinstance(p, ast.UnaryOp) and isinstance(p.op, (ast.USub, ast.UAdd, ast.Invert)):
            return 'arithmetic'
        return None

    def _t1_lookup(self, name: str, call: ast.Call, f: Func) -> Optional[dict]:
        if not name:
            return None
        for key, entry in self.t1.items():
            if name == key or name.endswith('.' + key) and key.count('.') >= 1:
                e = dict(entry)
                e['name'] = key
                if 'unless_kw' in e and any(k.arg == e['unless_kw'] for k in call.keywords):
                    return None
                if 'needs_nonempty_kw' in e:
                    # partial only on an empty collection: discharged by a test of that argument made after its last (re-)binding
                    kwv = next((k.value for k in call.keywords if k.arg == e['needs_nonempty_kw']), None)
                    if isinstance(kwv, ast.Name) and not isinstance(f.node, ast.Lambda):
                        from .cfg import CFG
                        cfg = CFG(f)
                        try:
                            if self._fresh_nonempty_test(cfg, f, kwv.id, cfg.stmt_of(call)):
                                return None
                        except AttributeError:
                            pass
                return e
        # method-name entries: '?.decode'
        short = name.split('.')[-1]
        e2 = self.t1.get('.' + short)
        if e2 is not None and isinstance(call.func, ast.Attribute):
            e = dict(e2)
            e['name'] = '.' + short
            if 'unless_kw' in e and any(k.arg == e['unless_kw'] for k in call.keywords):
                return None
            if 'total_first_arg' in e and call.args and isinstance(call.args[0], ast.Constant) \
                    and call.args[0].value in e['total_first_arg']:
                return None
            if 'receiver' in e:
                ok = False
                for a in self.repo.type_of(call.func.value, f):
                    if a[0] == 'inst' and a[1].split('.')[-1] in e['receiver']:
                        ok = True
                if not ok:
                    return None
            return e
        return None

    # ------------------------------------------------------------ handlers
    def protecting(self, node: ast.AST, f: Func) -> List[ast.Try]:
        """Try statements of f whose *body* contains node, innermost first."""
        out: List[ast.Try] = []
        child = node
        p = getattr(node, '_parent', None)
        while p is not None and p is not f.node:
            if isinstance(p, ast.Try) and any(child is b for b in p.body):
                out.append(p)
            child = p
            p = getattr(p, '_parent', None)
        return out

    def handler_outcome(self, exc: str, t: ast.Try, f: Func) -> Tuple[str, Optional[ast.ExceptHandler]]:
        """
        'caught' : a handler subsumes exc and does not re-raise it
        'reraise': a handler subsumes exc and re-raises (bare raise / raise e)
        'maybe'  : a handler for a subclass of exc exists, exc itself may pass
        'pass'   : no handler
        """
        for h in t.handlers:
            if h.type is None:
                hs = ['BaseException']
            else:
                hs = self.x.resolve_class_expr(h.type, f)
            if any(self.x.is_sub(exc, hc) for hc in hs):
                if self._reraises(h):
                    return 'reraise', h
                return 'caught', h
        return 'pass', None

    @staticmethod
    def _reraises(h: ast.ExceptHandler) -> bool:
        """Does the handler re-raise the caught exception on some path (bare `raise` or `raise <name>`)?"""
        for st in h.body:
            for n in walk_no_nested(st, include_self=True):
                if isinstance(n, ast.Raise):
                    if n.exc is None:
                        return True
                    if h.name and isinstance(n.exc, ast.Name) and n.exc.id == h.name:
                        return True
        return False

    def escapes_site(self, exc: str, node: ast.AST, f: Func, src: Source) -> bool:
        """Does `exc` raised at `node` leave f?  Records the discharging handler otherwise."""
        for t in self.protecting(node, f):
            outcome, h = self.handler_outcome(exc, t, f)
            if outcome == 'caught':
                assert h is not None
                rec = (exc, f.qn, f'except {norm(h.type) if h.type is not None else ""} @ {f.mod.relpath}:{h.lineno}')
                lst = self.discharged.setdefault(id(src), [])
                if rec not in lst:
                    lst.append(rec)
                return False
        return True

    # ------------------------------------------------------------ fix-point
    def _fixpoint(self) -> None:
        r = self.repo
        esc = self.esc
        for qn in r.funcs:
            esc[qn] = {}
        # opaque (vendored, unannotated) modules: every function may raise whatever any raise in the module raises
        # ... restricted to the functions reachable inside the module by *name* (identifiers mentioned in the body that
        # name a function or method of the module: covers aliases such as `sourceget = source.get`).
        opaque_pool: Dict[str, List[Tuple[str, Source]]] = {}
        for m in self.opaque:
            fs = [f for f in r.funcs.values() if f.mod.name == m]
            by_name: Dict[str, List[Func]] = {}
            for f in fs:
                by_name.setdefault(f.name, []).append(f)
                if f.name.startswith('__') and not f.name.endswith('__') and f.cls is not None:
                    by_name.setdefault(f'_{f.cls.name}{f.name}', []).append(f)
            edges: Dict[str, Set[str]] = {}
            for f in fs:
                out: Set[str] = set()
                for n in f.walk():
                    nm = n.id if isinstance(n, ast.Name) else n.attr if isinstance(n, ast.Attribute) else None
                    if nm and nm in by_name:
                        out.update(g.qn for g in by_name[nm])
                    if isinstance(n, ast.Call):
                        d = dotted(n.func)
                        if d:
                            res = r.resolve(f.mod, d, f)
                            if res and res[0] == 'cls':
                                for nm2 in ('__init__', '__new__'):
                                    g2 = r.find_method(res[1], nm2)
                                    if g2 is not None and g2.mod.name == m:
                                        out.add(g2.qn)
                edges[f.qn] = out
            for f in fs:
                seen: Set[str] = set()
                todo = [f.qn]
                while todo:
                    q = todo.pop()
                    if q in seen:
                        continue
                    seen.add(q)
                    todo.extend(edges.get(q, ()))
                pool: List[Tuple[str, Source]] = []
                for q in seen:
                    for node, c, src in self.local[q]:
                        pool.append((c, src))
                opaque_pool[f.qn] = pool
        changed = True
        rounds = 0
        order = list(r.funcs.values())
        while changed:
            changed = False
            rounds += 1
            if rounds > 60:
                raise AnalysisError('escape fix-point did not converge')
            for f in order:
                cur = esc[f.qn]
                if f.mod.name in self.opaque:
                    for c, src in opaque_pool[f.qn]:
                        k = (c, id(src))
                        if k not in cur and c not in self.ignore:
                            cur[k] = (src, None, None)
                            changed = True
                    continue
                for node, c, src in self.local[f.qn]:
                    if c in self.ignore:
                        continue
                    k = (c, id(src))
                    if k in cur:
                        continue
                    if self.escapes_site(c, node, f, src):
                        cur[k] = (src, None, None)
                        changed = True
                for s in self.cg.sites.get(f.qn, []):
                    for g in s.callees:
                        ge = esc.get(g.qn)
                        if not ge:
                            continue
                        for k, (src, _, _) in list(ge.items()):
                            if k in cur:
                                continue
                            if self.escapes_site(k[0], s.node, f, src):
                                cur[k] = (src, s, g.qn)
                                changed = True
        self.rounds = rounds

    # ------------------------------------------------------------ per-site upward query
    def caught_locally(self, exc: str, node: ast.AST, f: Func) -> Optional[str]:
        """Handler of f that subsumes `exc` raised at `node` (text), or None."""
        for t in self.protecting(node, f):
            outcome, h = self.handler_outcome(exc, t, f)
            if outcome == 'caught':
                assert h is not None
                return f'except {norm(h.type) if h.type is not None else ""} in {f.qn} ({f.mod.relpath}:{h.lineno})'
        return None

    def reaches_entry(self, exc: str, node: ast.AST, f: Func, entries: Iterable[str]) -> Tuple[Optional[List[str]], List[str]]:
        """
        Can an exception of class `exc` raised at `node` inside f propagate up to one of the entry functions?
        @return: (path or None, handlers that stop it on the explored paths)
        """
        entries = set(entries)
        stops: List[str] = []
        h = self.caught_locally(exc, node, f)
        if h is not None:
            return None, [h]
        seen: Set[str] = set()
        todo: List[Tuple[Func, List[str]]] = [(f, [f'{f.qn} ({f.mod.relpath}:{getattr(node, "lineno", 0)})'])]
        while todo:
            g, path = todo.pop(0)
            if g.qn in seen:
                continue
            seen.add(g.qn)
            if g.qn in entries:
                return path, stops
            for s in self.cg.callers.get(g.qn, []):
                h = self.caught_locally(exc, s.node, s.func)
                if h is not None:
                    if h not in stops:
                        stops.append(h)
                    continue
                todo.append((s.func, path + [f'<- {s.func.qn} ({s.loc})']))
        return None, stops

    # ------------------------------------------------------------ zero-count self check
    @staticmethod
    def fixture_selfcheck() -> List[str]:
        """The T1b / T4 source rules match nothing on today's tree: make sure they still fire on the fixture."""
        import os
        from .callgraph import CallGraph as _CG
        root = os.path.join(os.path.dirname(os.path.abspath(__file__)), 'fixtures', 't4')
        repo = Repo(root)
        e = Escape(repo, _CG(repo), {}, {})
        got = {(s.func.name, s.kind) for s in e.sources}
        problems = []
        for want in (('bad_arith', 'T4'), ('bad_attr', 'T4'), ('bad_format', 'T1'), ('bad_var', 'T4'), ('bad_unpack', 'T5'), ('bad_pop', 'T7'), ('bad_mapget', 'T4'), ('bad_modattr', 'T8'), ('bad_strip', 'T9'), ('stale_strip', 'T9'), ('bad_intstr', 'T10')):
            if want not in got:
                problems.append(f'fixture source {want} not detected')
        for ok_name, k in (('good_arith', 'T4'), ('good_var', 'T4'), ('good_unpack', 'T5'), ('good_pop', 'T7'), ('good_mapget', 'T4'), ('good_modattr', 'T8'), ('good_strip', 'T9'), ('good_intstr', 'T10')):
            if (ok_name, k) in got:
                problems.append(f'guarded fixture {ok_name} wrongly flagged')
        return problems

    # ------------------------------------------------------------ queries
    def path(self, fqn: str, key: Tuple[str, int]) -> List[str]:
        """Call path from function fqn down to the origin of the escaping exception."""
        out: List[str] = []
        seen = set()
        cur = fqn
        while cur is not None and cur not in seen:
            seen.add(cur)
            item = self.esc.get(cur, {}).get(key)
            if item is None:
                break
            src, site, callee = item
            if site is None:
                out.append(f'{cur} raises {key[0]} at {src.loc} [{src.label}]')
                break
            out.append(f'{cur} -> {callee} (call at {site.loc})')
            cur = callee
        return out

    def escaping(self, fqn: str) -> List[Tuple[str, Source]]:
        return [(k[0], v[0]) for k, v in self.esc.get(fqn, {}).items()]
