"""Static analysis engine for pydoctor properties (see /verif/DESIGN.md)."""
