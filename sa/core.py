"""
Program index for the pydoctor tree: modules, classes, functions, import/alias
maps, class hierarchy, annotation-driven light types and callee resolution.

Nothing from /repo is imported or executed: everything is read with `ast`.
"""
from __future__ import annotations

import ast
import os
import sys
from pathlib import Path
from typing import Dict, FrozenSet, Iterable, Iterator, List, Optional, Sequence, Set, Tuple, Union


class AnalysisError(Exception):
    """The analysis itself is broken (vanished anchor, unparsable file...). Exit 2."""


FuncNode = Union[ast.FunctionDef, ast.AsyncFunctionDef, ast.Lambda]


def norm(node: Optional[ast.AST]) -> str:
    """Normalised source text of a node (position independent)."""
    if node is None:
        return ''
    try:
        return ast.unparse(node)
    except Exception:  # pragma: no cover
        return ast.dump(node)


def dotted(node: ast.AST) -> Optional[str]:
    """`a.b.c` -> 'a.b.c' for Name/Attribute chains, else None."""
    parts: List[str] = []
    while isinstance(node, ast.Attribute):
        parts.append(node.attr)
        node = node.value
    if isinstance(node, ast.Name):
        parts.append(node.id)
        return '.'.join(reversed(parts))
    return None


def walk_no_nested(node: ast.AST, include_self: bool = False) -> Iterator[ast.AST]:
    """Walk a function body without entering nested function/class/lambda scopes."""
    todo = list(ast.iter_child_nodes(node)) if not include_self else [node]
    first = include_self
    while todo:
        n = todo.pop()
        if not first and isinstance(n, (ast.FunctionDef, ast.AsyncFunctionDef, ast.Lambda, ast.ClassDef)):
            # decorators / defaults belong to the enclosing scope but never matter for us
            yield n
            continue
        first = False
        yield n
        todo.extend(reversed(list(ast.iter_child_nodes(n))))


class Func:
    def __init__(self, qn: str, node: FuncNode, mod: 'Mod', cls: Optional['Cls'], outer: Optional['Func']):
        self.qn = qn
        self.node = node
        self.mod = mod
        self.cls = cls
        self.outer = outer
        self.name = getattr(node, 'name', '<lambda>')
        self.decorators: List[str] = []
        if not isinstance(node, ast.Lambda):
            for d in node.decorator_list:
                t = d.func if isinstance(d, ast.Call) else d
                self.decorators.append(dotted(t) or norm(t))
        self.local_imports: Dict[str, str] = {}
        self._locals: Optional[Dict[str, 'T']] = None

    @property
    def lineno(self) -> int:
        return self.node.lineno

    @property
    def loc(self) -> str:
        return f'{self.mod.relpath}:{self.node.lineno}'

    @property
    def is_static(self) -> bool:
        return 'staticmethod' in self.decorators

    @property
    def is_classmethod(self) -> bool:
        return 'classmethod' in self.decorators

    @property
    def is_property(self) -> bool:
        return any(d in ('property', 'cached_property', 'functools.cached_property') or d.endswith('.setter')
                   for d in self.decorators)

    def params(self) -> List[ast.arg]:
        a = self.node.args
        return list(a.posonlyargs) + list(a.args) + ([a.vararg] if a.vararg else []) + \
            list(a.kwonlyargs) + ([a.kwarg] if a.kwarg else [])

    def body(self) -> List[ast.stmt]:
        if isinstance(self.node, ast.Lambda):
            return [ast.Expr(self.node.body)]
        return self.node.body

    def walk(self) -> Iterator[ast.AST]:
        """Nodes of the body, not entering nested scopes."""
        if isinstance(self.node, ast.Lambda):
            yield from walk_no_nested(self.node.body, include_self=True)
        else:
            for st in self.node.body:
                if isinstance(st, (ast.FunctionDef, ast.AsyncFunctionDef, ast.ClassDef)):
                    yield st
                    continue
                yield from walk_no_nested(st, include_self=True)

    def __repr__(self) -> str:
        return f'<Func {self.qn}>'


class Cls:
    def __init__(self, qn: str, node: ast.ClassDef, mod: 'Mod', outer: Optional[Union['Cls', Func]]):
        self.qn = qn
        self.node = node
        self.mod = mod
        self.outer = outer
        self.name = node.name
        self.methods: Dict[str, Func] = {}
        self.aliases: Dict[str, ast.expr] = {}      # name = <expr> at class level
        self.attr_ann: Dict[str, ast.expr] = {}     # name: <annotation> at class level or self.name: ann
        self.attr_val: Dict[str, List[Tuple[ast.expr, Optional[Func]]]] = {}  # self.name = value (value, func)
        self.nested: Dict[str, 'Cls'] = {}
        self.bases: List[str] = []                  # resolved qualified names (repo) or dotted external names
        self.base_cls: List['Cls'] = []
        self.subs: List['Cls'] = []

    @property
    def loc(self) -> str:
        return f'{self.mod.relpath}:{self.node.lineno}'

    def __repr__(self) -> str:
        return f'<Cls {self.qn}>'


class Mod:
    def __init__(self, name: str, path: Path, relpath: str, tree: ast.Module, src: str, is_pkg: bool):
        self.name = name
        self.path = path
        self.relpath = relpath
        self.tree = tree
        self.src = src
        self.is_pkg = is_pkg
        self.imports: Dict[str, str] = {}
        self.funcs: Dict[str, Func] = {}
        self.classes: Dict[str, Cls] = {}
        self.assigns: Dict[str, ast.expr] = {}
        self.ann: Dict[str, ast.expr] = {}

    @property
    def package(self) -> str:
        return self.name if self.is_pkg else self.name.rpartition('.')[0]

    def __repr__(self) -> str:
        return f'<Mod {self.name}>'


# ------------------------------------------------------------------ light types
# A type is a frozenset of atoms; atoms are tuples:
#   ('inst', qn)   instance of class qn (repo class, or external dotted name such as 'ast.expr' / 'str')
#   ('type', qn)   the class object itself
#   ('fn', qn)     a repo function object (unbound); ('bound', qn) bound method
#   ('mod', name)  a module (repo or external)
#   ('seq', T)     iterable / sequence with element type T
#   ('map', T)     mapping with value type T
#   ('super', qn)  super() inside class qn
#   ('lam', id)    a lambda / nested function (key in repo.funcs_by_node)
T = FrozenSet[tuple]
EMPTY: T = frozenset()

_SEQ_NAMES = {'List', 'Sequence', 'Iterable', 'Iterator', 'Set', 'FrozenSet', 'Tuple', 'Collection',
              'MutableSequence', 'MutableSet', 'AbstractSet', 'Deque', 'Generator', 'list', 'set',
              'frozenset', 'tuple', 'KeysView', 'ValuesView', 'Reversible', 'Container'}
_MAP_NAMES = {'Dict', 'Mapping', 'MutableMapping', 'DefaultDict', 'OrderedDict', 'dict', 'ChainMap',
              'defaultdict'}
_TRANSPARENT = {'Optional', 'Union', 'Final', 'ClassVar', 'Annotated'}

# result types of a few external functions (only where a rule needs the type of the result)
EXT_RETURNS = {'zlib.decompress': 'bytes', 'zlib.compress': 'bytes', 'os.listdir': 'list', 'str': 'str', 'repr': 'str',
               'bytes': 'bytes'}

BUILTIN_METHOD_NAMES: Set[str] = set()
for _t in (str, bytes, list, dict, set, frozenset, tuple, int, float):
    BUILTIN_METHOD_NAMES.update(n for n in dir(_t) if not n.startswith('__'))


_AST_STR_FIELDS = {'id', 'attr', 'arg', 'name', 'module', 'asname'}
_AST_SEQ_FIELDS = {'elts', 'body', 'args', 'keywords', 'targets', 'values', 'keys', 'names', 'handlers', 'orelse',
                   'decorator_list', 'bases', 'finalbody', 'ops', 'comparators', 'generators', 'ifs', 'items',
                   'posonlyargs', 'kwonlyargs', 'defaults', 'kw_defaults'}
_AST_NODE_FIELDS = {'value', 'func', 'left', 'right', 'operand', 'test', 'target', 'iter', 'slice', 'annotation',
                    'returns', 'elt', 'key', 'exc', 'cause', 'context_expr', 'optional_vars', 'lower', 'upper', 'step',
                    'vararg', 'kwarg', 'op', 'ctx', 'msg', 'type'}


def t_inst(qn: str) -> T:
    return frozenset({('inst', qn)})


class Repo:
    """Index of the Python sources of a pydoctor checkout."""

    PKG = 'pydoctor'

    def __init__(self, root: Union[str, Path], include_tests: bool = False):
        self.root = Path(root)
        self.modules: Dict[str, Mod] = {}
        self.funcs: Dict[str, Func] = {}
        self.classes: Dict[str, Cls] = {}
        self.func_by_node: Dict[int, Func] = {}
        self.cls_by_node: Dict[int, Cls] = {}
        self.include_tests = include_tests
        self._star: List[Tuple[Mod, str, Dict[str, str]]] = []
        self._mro_cache: Dict[str, List[Cls]] = {}
        self._exact_cache: Dict[str, Optional[T]] = {}
        self.opaque_modules: Set[str] = set()
        self._load()
        self._link()

    # -------------------------------------------------------------- loading
    def _load(self) -> None:
        pkgdir = self.root / self.PKG
        if not pkgdir.is_dir():
            raise AnalysisError(f'no package directory {pkgdir}')
        for dirpath, dirnames, filenames in os.walk(pkgdir):
            dirnames.sort()
            rel = Path(dirpath).relative_to(self.root)
            if not self.include_tests and 'test' in rel.parts:
                continue
            if '__pycache__' in rel.parts:
                continue
            for fn in sorted(filenames):
                if not fn.endswith('.py'):
                    continue
                path = Path(dirpath) / fn
                relpath = str(path.relative_to(self.root))
                parts = list(rel.parts)
                is_pkg = fn == '__init__.py'
                if not is_pkg:
                    parts.append(fn[:-3])
                name = '.'.join(parts)
                try:
                    src = path.read_text(encoding='utf-8')
                    tree = ast.parse(src, filename=str(path))
                except (SyntaxError, ValueError, OSError, UnicodeDecodeError) as e:
                    raise AnalysisError(f'cannot parse {relpath}: {e}')
                mod = Mod(name, path, relpath, tree, src, is_pkg)
                self.modules[name] = mod
        for mod in self.modules.values():
            self._index_module(mod)

    def _index_module(self, mod: Mod) -> None:
        for node in ast.walk(mod.tree):
            for ch in ast.iter_child_nodes(node):
                ch._parent = node  # type: ignore[attr-defined]
        mod.tree._parent = None  # type: ignore[attr-defined]
        self._index_body(mod, mod.tree.body, mod.name, None, None, toplevel=True)
        # imports anywhere at module level (including under `if TYPE_CHECKING` / try)
        for node in walk_no_nested(mod.tree):
            if isinstance(node, (ast.Import, ast.ImportFrom)):
                self._add_import(mod, node, mod.imports)

    def _add_import(self, mod: Mod, node: Union[ast.Import, ast.ImportFrom], table: Dict[str, str]) -> None:
        if isinstance(node, ast.Import):
            for a in node.names:
                if a.asname:
                    table[a.asname] = a.name
                else:
                    table[a.name.split('.')[0]] = a.name.split('.')[0]
        else:
            base = node.module or ''
            if node.level:
                pkg = mod.package.split('.')
                if node.level > 1:
                    pkg = pkg[:-(node.level - 1)]
                base = '.'.join(pkg + ([node.module] if node.module else []))
            for a in node.names:
                if a.name == '*':
                    self._star.append((mod, base, table))
                    continue
                table[a.asname or a.name] = f'{base}.{a.name}'

    def _index_body(self, mod: Mod, body: Sequence[ast.stmt], prefix: str, cls: Optional[Cls],
                    outer_func: Optional[Func], toplevel: bool = False) -> None:
        """Index defs found in a statement list (descending into if/try/with/for blocks)."""
        for st in body:
            if isinstance(st, (ast.FunctionDef, ast.AsyncFunctionDef)):
                self._index_func(mod, st, prefix, cls, outer_func, toplevel)
            elif isinstance(st, ast.ClassDef):
                self._index_class(mod, st, prefix, cls, outer_func, toplevel)
            elif isinstance(st, ast.Assign):
                if len(st.targets) == 1 and isinstance(st.targets[0], ast.Name):
                    nm = st.targets[0].id
                    if cls is not None and outer_func is None:
                        cls.aliases[nm] = st.value
                    elif toplevel:
                        mod.assigns[nm] = st.value
                self._index_lambdas(mod, st, prefix, cls, outer_func)
            elif isinstance(st, ast.AnnAssign):
                if isinstance(st.target, ast.Name):
                    nm = st.target.id
                    if cls is not None and outer_func is None:
                        cls.attr_ann[nm] = st.annotation
                        if st.value is not None:
                            cls.aliases[nm] = st.value
                    elif toplevel:
                        mod.ann[nm] = st.annotation
                        if st.value is not None:
                            mod.assigns[nm] = st.value
                self._index_lambdas(mod, st, prefix, cls, outer_func)
            elif isinstance(st, (ast.If, ast.Try, ast.With, ast.For, ast.While)):
                for fld in ('body', 'orelse', 'finalbody'):
                    self._index_body(mod, getattr(st, fld, []) or [], prefix, cls, outer_func, toplevel)
                for h in getattr(st, 'handlers', []) or []:
                    self._index_body(mod, h.body, prefix, cls, outer_func, toplevel)
                for fld in ('test', 'iter', 'items'):
                    v = getattr(st, fld, None)
                    if isinstance(v, ast.AST):
                        self._index_lambdas(mod, v, prefix, cls, outer_func)
            else:
                self._index_lambdas(mod, st, prefix, cls, outer_func)

    def _index_lambdas(self, mod: Mod, node: ast.AST, prefix: str, cls: Optional[Cls], outer_func: Optional[Func]) -> None:
        for n in walk_no_nested(node, include_self=True):
            if isinstance(n, ast.Lambda) and id(n) not in self.func_by_node:
                qn = f'{prefix}.<lambda@{n.lineno}:{n.col_offset}>'
                f = Func(qn, n, mod, cls if outer_func is None else outer_func.cls, outer_func)
                self.funcs[qn] = f
                self.func_by_node[id(n)] = f
                self._index_lambdas(mod, n.body, qn, f.cls, f)

    def _index_func(self, mod: Mod, node: Union[ast.FunctionDef, ast.AsyncFunctionDef], prefix: str,
                    cls: Optional[Cls], outer_func: Optional[Func], toplevel: bool) -> None:
        qn = f'{prefix}.{node.name}'
        in_class_scope = cls is not None and outer_func is None
        f = Func(qn, node, mod, cls if in_class_scope else (outer_func.cls if outer_func else None), outer_func)
        if qn in self.funcs:
            # redefinition (e.g. @overload stubs, property setter): keep the last plain one, index others with suffix
            k = 2
            while f'{qn}#{k}' in self.funcs:
                k += 1
            prev = self.funcs[qn]
            if any(d.endswith('.setter') or d.endswith('.deleter') or d in ('overload', 'typing.overload')
                   for d in f.decorators):
                f.qn = f'{qn}#{k}'
                self.funcs[f.qn] = f
                self.func_by_node[id(node)] = f
                self._index_inner(mod, f)
                return
            prev.qn = f'{qn}#{k}'
            self.funcs[prev.qn] = prev
        self.funcs[qn] = f
        self.func_by_node[id(node)] = f
        if in_class_scope:
            assert cls is not None
            cls.methods[node.name] = f
        elif toplevel and outer_func is None:
            mod.funcs[node.name] = f
        self._index_inner(mod, f)

    def _index_inner(self, mod: Mod, f: Func) -> None:
        node = f.node
        assert not isinstance(node, ast.Lambda)
        for n in walk_no_nested(node):
            if isinstance(n, (ast.Import, ast.ImportFrom)):
                self._add_import(mod, n, f.local_imports)
        # defaults / decorators may hold lambdas
        for d in list(node.args.defaults) + [x for x in node.args.kw_defaults if x is not None] + list(node.decorator_list):
            self._index_lambdas(mod, d, f.qn, f.cls, f)
        self._index_body(mod, node.body, f.qn, f.cls, f)

    def _index_class(self, mod: Mod, node: ast.ClassDef, prefix: str, cls: Optional[Cls],
                     outer_func: Optional[Func], toplevel: bool) -> None:
        qn = f'{prefix}.{node.name}'
        c = Cls(qn, node, mod, outer_func if outer_func is not None else cls)
        self.classes[qn] = c
        self.cls_by_node[id(node)] = c
        if cls is not None and outer_func is None:
            cls.nested[node.name] = c
        elif toplevel and outer_func is None:
            mod.classes[node.name] = c
        self._index_body(mod, node.body, qn, c, None)

    # -------------------------------------------------------------- linking
    def _link(self) -> None:
        for mod, base, table in self._star:
            src = self.modules.get(base)
            if src is None:
                continue
            for nm in list(src.classes) + list(src.funcs) + list(src.assigns):
                if not nm.startswith('_') and nm not in table and nm not in mod.classes and nm not in mod.funcs:
                    table[nm] = f'{base}.{nm}'
        for c in self.classes.values():
            for b in c.node.bases:
                target = b.value if isinstance(b, ast.Subscript) else b
                d = dotted(target)
                if d is None:
                    continue
                r = self.resolve(c.mod, d, c.outer if isinstance(c.outer, Cls) else None)
                if r and r[0] == 'cls':
                    c.bases.append(r[1].qn)
                    c.base_cls.append(r[1])
                    r[1].subs.append(c)
                elif r and r[0] == 'ext':
                    c.bases.append(r[1])
                else:
                    c.bases.append(d)
        # self.attr annotations / values
        for f in list(self.funcs.values()):
            if f.cls is None or isinstance(f.node, ast.Lambda) or f.outer is not None:
                continue
            ps = f.params()
            if not ps or f.is_static:
                continue
            selfname = ps[0].arg
            for n in f.walk():
                tgt = None
                if isinstance(n, ast.AnnAssign):
                    tgt = n.target
                    if isinstance(tgt, ast.Attribute) and isinstance(tgt.value, ast.Name) and tgt.value.id == selfname \
                            and not f.is_classmethod:
                        f.cls.attr_ann.setdefault(tgt.attr, n.annotation)
                        if n.value is not None:
                            f.cls.attr_val.setdefault(tgt.attr, []).append((n.value, f))
                elif isinstance(n, ast.Assign):
                    for tgt in n.targets:
                        if isinstance(tgt, ast.Attribute) and isinstance(tgt.value, ast.Name) and tgt.value.id == selfname \
                                and not f.is_classmethod:
                            f.cls.attr_val.setdefault(tgt.attr, []).append((n.value, f))

    # -------------------------------------------------------------- lookups
    def func(self, qn: str) -> Func:
        f = self.funcs.get(qn)
        if f is None:
            raise AnalysisError(f'anchor vanished: function {qn} not found in {self.root}')
        return f

    def cls(self, qn: str) -> Cls:
        c = self.classes.get(qn)
        if c is None:
            raise AnalysisError(f'anchor vanished: class {qn} not found in {self.root}')
        return c

    def mod(self, name: str) -> Mod:
        m = self.modules.get(name)
        if m is None:
            raise AnalysisError(f'anchor vanished: module {name} not found in {self.root}')
        return m

    def mro(self, c: Cls) -> List[Cls]:
        """Repo-class part of the linearisation (simple left-to-right DFS with last-occurrence kept)."""
        r = self._mro_cache.get(c.qn)
        if r is not None:
            return r
        seqs: List[List[Cls]] = [[c]]
        for b in c.base_cls:
            if b is c:
                continue
            seqs.append(self.mro(b))
        out: List[Cls] = []
        for s in seqs:
            for x in s:
                if x in out:
                    out.remove(x)
                out.append(x)
        # make sure c first
        out.remove(c)
        out.insert(0, c)
        self._mro_cache[c.qn] = out
        return out

    def ext_bases(self, c: Cls) -> List[str]:
        out: List[str] = []
        for k in self.mro(c):
            for b in k.bases:
                if b not in self.classes and b not in out:
                    out.append(b)
        return out

    def all_subclasses(self, c: Cls) -> List[Cls]:
        out: List[Cls] = []
        todo = list(c.subs)
        while todo:
            s = todo.pop()
            if s in out:
                continue
            out.append(s)
            todo.extend(s.subs)
        return out

    def is_subclass(self, c: Cls, qn: str) -> bool:
        return any(k.qn == qn for k in self.mro(c)) or qn in self.ext_bases(c)

    def find_method(self, c: Cls, name: str, seen: Optional[Set[str]] = None) -> Optional[Func]:
        """Method `name` as seen on an instance of c (follows class-level aliases `a = b`)."""
        for k in self.mro(c):
            if name in k.methods:
                return k.methods[name]
            if name in k.aliases:
                v = k.aliases[name]
                if isinstance(v, ast.Name) and v.id != name:
                    if seen is None:
                        seen = set()
                    if (k.qn, v.id) in seen:
                        return None
                    seen.add((k.qn, v.id))
                    m = self.find_method(k, v.id, seen)
                    if m is not None:
                        return m
                if isinstance(v, ast.Lambda):
                    return self.func_by_node.get(id(v))
        return None

    def method_impls(self, c: Cls, name: str) -> List[Func]:
        """Dynamic dispatch on a receiver of static type c: the inherited impl + every override in subclasses."""
        out: List[Func] = []
        m = self.find_method(c, name)
        if m is not None:
            out.append(m)
        for s in self.all_subclasses(c):
            if name in s.methods or name in s.aliases:
                m2 = self.find_method(s, name)
                if m2 is not None and m2 not in out:
                    out.append(m2)
        return out

    # ------------------------------------------------------ name resolution
    def resolve_global(self, d: str) -> Optional[tuple]:
        """Resolve an absolute dotted name."""
        parts = d.split('.')
        if parts[0] != self.PKG:
            return ('ext', d)
        # longest module prefix
        for i in range(len(parts), 0, -1):
            mn = '.'.join(parts[:i])
            if mn in self.modules:
                cur: tuple = ('mod', self.modules[mn])
                for p in parts[i:]:
                    nxt = self._member(cur, p)
                    if nxt is None:
                        return None
                    cur = nxt
                return cur
        return None

    def _member(self, cur: tuple, name: str, depth: int = 0) -> Optional[tuple]:
        if depth > 8:
            return None
        kind = cur[0]
        if kind == 'mod':
            m: Mod = cur[1]
            if name in m.classes:
                return ('cls', m.classes[name])
            if name in m.funcs:
                return ('func', m.funcs[name])
            if name in m.imports:
                tgt = m.imports[name]
                if tgt == f'{m.name}.{name}' and f'{m.name}.{name}' not in self.modules:
                    return None
                return self.resolve_global(tgt)
            if name in m.assigns:
                v = m.assigns[name]
                dd = dotted(v)
                if dd is not None and dd.split('.')[0] != name:
                    r = self.resolve(m, dd)
                    if r is not None:
                        return r
                if isinstance(v, ast.Lambda):
                    f = self.func_by_node.get(id(v))
                    if f:
                        return ('func', f)
                if isinstance(v, ast.Call) and (dotted(v.func) or '').split('.')[-1] == 'partial' and v.args:
                    dd2 = dotted(v.args[0])
                    if dd2 is not None:
                        r2 = self.resolve(m, dd2)
                        if r2 is not None:
                            return r2
                return ('var', m, name)
            if name in m.ann:
                return ('var', m, name)
            sub = f'{m.name}.{name}'
            if sub in self.modules:
                return ('mod', self.modules[sub])
            return None
        if kind == 'cls':
            c: Cls = cur[1]
            for k in self.mro(c):
                if name in k.methods:
                    return ('func', k.methods[name])
                if name in k.nested:
                    return ('cls', k.nested[name])
                if name in k.aliases:
                    v = k.aliases[name]
                    if isinstance(v, ast.Name):
                        r = self._member(('cls', k), v.id, depth + 1) if v.id != name else None
                        if r:
                            return r
                    return ('cattr', k, name)
                if name in k.attr_ann:
                    return ('cattr', k, name)
            return None
        if kind == 'ext':
            return ('ext', f'{cur[1]}.{name}')
        return None

    def resolve(self, mod: Mod, d: str, scope: Optional[Union[Cls, Func]] = None) -> Optional[tuple]:
        """Resolve dotted name `d` as seen from `scope` in `mod`."""
        parts = d.split('.')
        head = parts[0]
        cur: Optional[tuple] = None
        s = scope
        while s is not None and cur is None:
            if isinstance(s, Func):
                if head in s.local_imports:
                    cur = self.resolve_global(s.local_imports[head]) or ('ext', s.local_imports[head])
                else:
                    # nested defs
                    q = f'{s.qn}.{head}'
                    if q in self.funcs:
                        cur = ('func', self.funcs[q])
                    elif q in self.classes:
                        cur = ('cls', self.classes[q])
                s = s.outer if s.outer is not None else None
            else:
                # class scope is only visible directly (not from methods) - we accept it for class-level resolution
                cur = self._member(('cls', s), head)
                s = s.outer if isinstance(s.outer, (Cls, Func)) else None
        if cur is None:
            cur = self._member(('mod', mod), head)
        if cur is None:
            import builtins
            if hasattr(builtins, head):
                cur = ('ext', head)
            else:
                return None
        for p in parts[1:]:
            cur = self._member(cur, p)
            if cur is None:
                return None
        return cur

    # ------------------------------------------------------------- types
    def ann_type(self, ann: Optional[ast.expr], mod: Mod, scope: Optional[Union[Cls, Func]] = None, depth: int = 0) -> T:
        if ann is None or depth > 6:
            return EMPTY
        if isinstance(ann, ast.Constant):
            if isinstance(ann.value, str):
                try:
                    e = ast.parse(ann.value.strip(), mode='eval').body
                except SyntaxError:
                    return EMPTY
                return self.ann_type(e, mod, scope, depth + 1)
            return EMPTY
        if isinstance(ann, ast.BinOp) and isinstance(ann.op, ast.BitOr):
            return self.ann_type(ann.left, mod, scope, depth + 1) | self.ann_type(ann.right, mod, scope, depth + 1)
        if isinstance(ann, ast.Subscript):
            head = dotted(ann.value)
            if head is None:
                return EMPTY
            short = head.split('.')[-1]
            sl = ann.slice
            args = list(sl.elts) if isinstance(sl, ast.Tuple) else [sl]
            if short in _TRANSPARENT:
                out: Set[tuple] = set()
                for a in (args[:1] if short == 'Annotated' else args):
                    out |= self.ann_type(a, mod, scope, depth + 1)
                return frozenset(out)
            if short == 'Type' or short == 'type':
                inner = self.ann_type(args[0], mod, scope, depth + 1)
                return frozenset(('type', a[1]) for a in inner if a[0] == 'inst')
            if short in _SEQ_NAMES:
                el: Set[tuple] = set()
                for a in args:
                    if isinstance(a, ast.Constant) and a.value is Ellipsis:
                        continue
                    el |= self.ann_type(a, mod, scope, depth + 1)
                return frozenset({('seq', frozenset(el))})
            if short in _MAP_NAMES:
                v = self.ann_type(args[-1], mod, scope, depth + 1) if args else EMPTY
                return frozenset({('map', v)})
            if short == 'Callable':
                return EMPTY
            # generic repo class e.g. ExtList[T], Visitor[T]
            return self.ann_type(ann.value, mod, scope, depth + 1)
        d = dotted(ann)
        if d is None:
            return EMPTY
        if d in ('None',):
            return EMPTY
        r = self.resolve(mod, d, scope)
        if r is not None and r[0] in ('func', 'cattr') and scope is not None:
            # a method/attribute of the enclosing class shadows the name: annotations mean the module-level class
            r = self.resolve(mod, d, None)
        if r is None:
            return EMPTY
        if r[0] == 'cls':
            return t_inst(r[1].qn)
        if r[0] == 'ext':
            short = r[1].split('.')[-1]
            if short in _SEQ_NAMES:
                return frozenset({('seq', EMPTY)})
            if short in _MAP_NAMES:
                return frozenset({('map', EMPTY)})
            return t_inst(r[1])
        if r[0] == 'var':
            # type alias: X = Union[...]
            m2: Mod = r[1]
            v = m2.assigns.get(r[2])
            if v is not None and isinstance(v, (ast.Subscript, ast.Name, ast.Attribute, ast.Constant, ast.BinOp)):
                if isinstance(v, ast.Call):
                    return EMPTY
                return self.ann_type(v, m2, None, depth + 1)
        return EMPTY

    def return_type(self, f: Func) -> T:
        if isinstance(f.node, ast.Lambda):
            return self.type_of(f.node.body, f)
        exact = self._exact_return(f)
        if exact is not None:
            return exact
        return self.ann_type(f.node.returns, f.mod, f.cls or f.outer)

    def _exact_return(self, f: Func) -> Optional[T]:
        """When every `return` of f is a direct constructor call of a repo class, the result is exactly that class
        (more precise than an abstract return annotation)."""
        if f.qn in self._exact_cache:
            return self._exact_cache[f.qn]
        self._exact_cache[f.qn] = None
        out: Set[tuple] = set()
        n_ret = 0
        for n in f.walk():
            if isinstance(n, ast.Return):
                n_ret += 1
                v = n.value
                vals: List[ast.AST] = []
                if isinstance(v, ast.Name):
                    for m in f.walk():
                        if isinstance(m, ast.Assign) and any(isinstance(t, ast.Name) and t.id == v.id for t in m.targets):
                            vals.append(m.value)
                        elif isinstance(m, ast.AnnAssign) and isinstance(m.target, ast.Name) and m.target.id == v.id \
                                and m.value is not None:
                            vals.append(m.value)
                    if not vals or v.id in [p.arg for p in f.params()]:
                        return None
                elif v is not None:
                    vals = [v]
                else:
                    return None
                for x in vals:
                    if not isinstance(x, ast.Call):
                        return None
                    d = dotted(x.func)
                    if d is None:
                        return None
                    res = self.resolve(f.mod, d, f)
                    if res is None or res[0] != 'cls':
                        return None
                    out.add(('inst', res[1].qn))
            elif isinstance(n, (ast.Yield, ast.YieldFrom)):
                return None
        if not n_ret or not out:
            return None
        r = frozenset(out)
        self._exact_cache[f.qn] = r
        return r

    def locals_of(self, f: Func) -> Dict[str, T]:
        """Flow-insensitive types of parameters and local variables."""
        if f._locals is not None:
            return f._locals
        env: Dict[str, T] = {}
        f._locals = env  # guard recursion
        ps = f.params()
        a = f.node.args
        for i, p in enumerate(ps):
            t = self.ann_type(p.annotation, f.mod, f.cls or f.outer)
            if p is a.vararg:
                t = frozenset({('seq', t)})
            elif p is a.kwarg:
                t = frozenset({('map', t)})
            env[p.arg] = t
        if f.cls is not None and f.outer is None and ps and not isinstance(f.node, ast.Lambda) and not f.is_static:
            if f.is_classmethod:
                env[ps[0].arg] = frozenset({('type', f.cls.qn)})
            elif not env[ps[0].arg]:
                env[ps[0].arg] = t_inst(f.cls.qn)
        # two rounds so that `a = f(); b = a.x` settles
        for _ in range(2):
            for n in f.walk():
                if isinstance(n, ast.AnnAssign) and isinstance(n.target, ast.Name):
                    t = self.ann_type(n.annotation, f.mod, f.cls or f.outer)
                    if not t and n.value is not None:
                        t = self.type_of(n.value, f)
                    env[n.target.id] = env.get(n.target.id, EMPTY) | t
                elif isinstance(n, ast.Assign):
                    for tg in n.targets:
                        self._bind(tg, self.type_of(n.value, f), env, n.value, f)
                elif isinstance(n, ast.NamedExpr) and isinstance(n.target, ast.Name):
                    env[n.target.id] = env.get(n.target.id, EMPTY) | self.type_of(n.value, f)
                elif isinstance(n, (ast.For, ast.AsyncFor)):
                    self._bind(n.target, self.elem_type(self.type_of(n.iter, f), n.iter, f), env, None, f)
                elif isinstance(n, ast.comprehension):
                    self._bind(n.target, self.elem_type(self.type_of(n.iter, f), n.iter, f), env, None, f)
                elif isinstance(n, (ast.With, ast.AsyncWith)):
                    for it in n.items:
                        if it.optional_vars is not None:
                            self._bind(it.optional_vars, self.type_of(it.context_expr, f), env, None, f)
                elif isinstance(n, ast.ExceptHandler) and n.name and n.type is not None:
                    types = n.type.elts if isinstance(n.type, ast.Tuple) else [n.type]
                    t2: Set[tuple] = set()
                    for tt in types:
                        got = self.ann_type(tt, f.mod, f.cls or f.outer)
                        if not got:
                            got = frozenset(('inst', a[1]) for a in self.type_of(tt, f) if a[0] in ('type', 'extname'))
                        t2 |= got
                    env[n.name] = env.get(n.name, EMPTY) | frozenset(t2)
                elif isinstance(n, (ast.FunctionDef, ast.AsyncFunctionDef)) and n is not f.node:
                    g = self.func_by_node.get(id(n))
                    if g is not None:
                        env[n.name] = env.get(n.name, EMPTY) | frozenset({('fn', g.qn)})
        return env

    def _bind(self, target: ast.AST, t: T, env: Dict[str, T], value: Optional[ast.expr], f: Func) -> None:
        if isinstance(target, ast.Name):
            env[target.id] = env.get(target.id, EMPTY) | t
        elif isinstance(target, (ast.Tuple, ast.List)):
            # tuple unpacking: element-wise when the value is a literal tuple, else element type for all
            if isinstance(value, (ast.Tuple, ast.List)) and len(value.elts) == len(target.elts):
                for tg, v in zip(target.elts, value.elts):
                    self._bind(tg, self.type_of(v, f), env, v, f)
            else:
                el = self.elem_type(t, None, f)
                for tg in target.elts:
                    if isinstance(tg, ast.Starred):
                        tg = tg.value
                    self._bind(tg, el, env, None, f)

    def elem_type(self, t: T, expr: Optional[ast.expr], f: Func) -> T:
        out: Set[tuple] = set()
        for a in t:
            if a[0] == 'seq':
                out |= a[1]
            elif a[0] == 'map':
                pass
        return frozenset(out)

    def type_of(self, e: ast.AST, f: Optional[Func], mod: Optional[Mod] = None, depth: int = 0) -> T:
        if depth > 10:
            return EMPTY
        m = f.mod if f is not None else mod
        assert m is not None
        if isinstance(e, ast.Name):
            g: Optional[Func] = f
            while g is not None:
                env = self.locals_of(g)
                if e.id in env:
                    return env[e.id]
                g = g.outer
            r = self.resolve(m, e.id, f)
            return self._res_type(r)
        if isinstance(e, ast.Attribute):
            base = self.type_of(e.value, f, m, depth + 1)
            out: Set[tuple] = set()
            for a in base:
                out |= self._attr_type(a, e.attr, depth)
            return frozenset(out)
        if isinstance(e, ast.Call):
            # b''.join(...) / ''.join(...): the type of the separator literal
            if isinstance(e.func, ast.Attribute) and e.func.attr == 'join' and isinstance(e.func.value, ast.Constant) and isinstance(e.func.value.value, (str, bytes)):
                return t_inst('bytes' if isinstance(e.func.value.value, bytes) else 'str')
            return self._call_type(e, f, m, depth)
        if isinstance(e, ast.Subscript):
            base = self.type_of(e.value, f, m, depth + 1)
            out2: Set[tuple] = set()
            for a in base:
                if a[0] == 'seq':
                    if isinstance(e.slice, ast.Slice):
                        out2.add(a)
                    else:
                        out2 |= a[1]
                elif a[0] == 'map':
                    out2 |= a[1]
            return frozenset(out2)
        if isinstance(e, ast.IfExp):
            return self.type_of(e.body, f, m, depth + 1) | self.type_of(e.orelse, f, m, depth + 1)
        if isinstance(e, ast.BoolOp):
            out3: Set[tuple] = set()
            for v in e.values:
                out3 |= self.type_of(v, f, m, depth + 1)
            return frozenset(out3)
        if isinstance(e, ast.NamedExpr):
            return self.type_of(e.value, f, m, depth + 1)
        if isinstance(e, ast.Await):
            return self.type_of(e.value, f, m, depth + 1)
        if isinstance(e, ast.Lambda):
            g2 = self.func_by_node.get(id(e))
            return frozenset({('fn', g2.qn)}) if g2 else EMPTY
        if isinstance(e, (ast.List, ast.Tuple, ast.Set)):
            el: Set[tuple] = set()
            for v in e.elts[:8]:
                el |= self.type_of(v, f, m, depth + 1)
            return frozenset({('seq', frozenset(el))})
        if isinstance(e, (ast.ListComp, ast.SetComp, ast.GeneratorExp)):
            return frozenset({('seq', self.type_of(e.elt, f, m, depth + 1))})
        if isinstance(e, ast.Dict):
            el2: Set[tuple] = set()
            for v in e.values[:8]:
                if v is not None:
                    el2 |= self.type_of(v, f, m, depth + 1)
            return frozenset({('map', frozenset(el2))})
        if isinstance(e, ast.Constant):
            if isinstance(e.value, str):
                return t_inst('str')
            if isinstance(e.value, bytes):
                return t_inst('bytes')
            if isinstance(e.value, bool):
                return t_inst('bool')
            if isinstance(e.value, int):
                return t_inst('int')
            return EMPTY
        if isinstance(e, ast.JoinedStr):
            return t_inst('str')
        if isinstance(e, ast.Starred):
            return self.type_of(e.value, f, m, depth + 1)
        return EMPTY

    def _res_type(self, r: Optional[tuple]) -> T:
        if r is None:
            return EMPTY
        k = r[0]
        if k == 'cls':
            return frozenset({('type', r[1].qn)})
        if k == 'func':
            return frozenset({('fn', r[1].qn)})
        if k == 'mod':
            return frozenset({('mod', r[1].name)})
        if k == 'ext':
            return frozenset({('extname', r[1])})
        if k == 'var':
            m2: Mod = r[1]
            if r[2] in m2.ann:
                return self.ann_type(m2.ann[r[2]], m2)
            v = m2.assigns.get(r[2])
            if v is not None:
                return self.type_of(v, None, m2, 5)
        if k == 'cattr':
            return self._cattr_type(r[1], r[2], 5)
        return EMPTY

    def _cattr_type(self, k: Cls, name: str, depth: int) -> T:
        if name in k.attr_ann:
            t = self.ann_type(k.attr_ann[name], k.mod, k)
            if t:
                return t
        if name in k.aliases:
            return self.type_of(k.aliases[name], None, k.mod, depth + 1)
        return EMPTY

    def _attr_type(self, a: tuple, attr: str, depth: int) -> T:
        kind = a[0]
        if kind == 'inst' or kind == 'type' or kind == 'super':
            c = self.classes.get(a[1])
            if c is None:
                if kind == 'inst' and a[1].startswith('ast.'):
                    if attr in _AST_STR_FIELDS:
                        return t_inst('str')
                    if attr in _AST_SEQ_FIELDS:
                        return frozenset({('seq', t_inst('ast.AST'))})
                    if attr in _AST_NODE_FIELDS:
                        return t_inst('ast.AST')
                if kind == 'inst':
                    return frozenset({('extattr', a[1], attr)})
                return EMPTY
            mro = self.mro(c)
            if kind == 'super':
                mro = mro[1:]
            for k in mro:
                if attr in k.methods:
                    fn = k.methods[attr]
                    if fn.is_property and kind != 'type':
                        return self.return_type(fn)
                    return frozenset({('bound', fn.qn, a[1])})
                if attr in k.nested:
                    return frozenset({('type', k.nested[attr].qn)})
                if attr in k.attr_ann:
                    t = self.ann_type(k.attr_ann[attr], k.mod, k)
                    if t:
                        return t
                if attr in k.aliases:
                    v = k.aliases[attr]
                    if isinstance(v, ast.Name) and v.id in k.methods:
                        return frozenset({('bound', k.methods[v.id].qn, a[1])})
                    t = self.type_of(v, None, k.mod, depth + 1)
                    if t:
                        return t
                if attr in k.attr_val and depth < 6:
                    out: Set[tuple] = set()
                    for v, fn2 in k.attr_val[attr][:4]:
                        out |= self.type_of(v, fn2, k.mod, depth + 3)
                    if out:
                        return frozenset(out)
            exts = self.ext_bases(c)
            if exts and kind in ('inst', 'super'):
                return frozenset({('extattr', exts[0], attr)})
            if kind == 'super':
                return frozenset({('extattr', 'object', attr)})
            return EMPTY
        if kind == 'mod':
            mm = self.modules.get(a[1])
            if mm is None:
                return frozenset({('extname', f'{a[1]}.{attr}')})
            return self._res_type(self._member(('mod', mm), attr))
        if kind == 'extname':
            return frozenset({('extname', f'{a[1]}.{attr}')})
        return EMPTY

    def _call_type(self, e: ast.Call, f: Optional[Func], m: Mod, depth: int) -> T:
        fn = e.func
        if isinstance(fn, ast.Name):
            if fn.id == 'super':
                if f is not None and f.cls is not None:
                    return frozenset({('super', f.cls.qn)})
                return EMPTY
            if fn.id == 'cast' and len(e.args) == 2:
                return self.ann_type(e.args[0], m, f)
            if fn.id in ('list', 'sorted', 'reversed', 'tuple', 'set', 'frozenset', 'iter') and e.args:
                t = self.type_of(e.args[0], f, m, depth + 1)
                el: Set[tuple] = set()
                for a in t:
                    if a[0] == 'seq':
                        el |= a[1]
                return frozenset({('seq', frozenset(el))})
            if fn.id == 'next' and e.args:
                return self.elem_type(self.type_of(e.args[0], f, m, depth + 1), None, f)  # type: ignore[arg-type]
            if fn.id in ('str', 'repr'):
                return t_inst('str')
            if fn.id == 'enumerate' and e.args:
                return frozenset({('seq', self.elem_type(self.type_of(e.args[0], f, m, depth + 1), None, f))})  # type: ignore[arg-type]
        ft = self.type_of(fn, f, m, depth + 1)
        out: Set[tuple] = set()
        for a in ft:
            if a[0] == 'type':
                out.add(('inst', a[1]))
            elif a[0] in ('fn', 'bound'):
                g = self.funcs.get(a[1])
                if g is not None:
                    out |= self.return_type(g)
            elif a[0] == 'extname':
                # calling an external class/function: instance of that name, or the documented result type
                out.add(('inst', EXT_RETURNS.get(a[1], a[1])))
            elif a[0] == 'extattr':
                # methods of builtin containers
                if a[2] in ('values',) :
                    pass
        # container methods
        if isinstance(fn, ast.Attribute) and fn.attr in ('values', 'get', 'pop', 'copy', 'items', 'keys', 'setdefault'):
            bt = self.type_of(fn.value, f, m, depth + 1)
            for a in bt:
                if a[0] == 'map':
                    if fn.attr == 'values':
                        out.add(('seq', a[1]))
                    elif fn.attr in ('get', 'pop', 'setdefault'):
                        out |= a[1]
                    elif fn.attr == 'copy':
                        out.add(a)
                    elif fn.attr == 'items':
                        out.add(('seq', a[1]))  # approximates (k, v) pairs by v
                elif a[0] == 'seq':
                    if fn.attr == 'pop':
                        out |= a[1]
                    elif fn.attr == 'copy':
                        out.add(a)
        return frozenset(out)

    # ------------------------------------------------------ callee resolution
    def callees(self, call: ast.Call, f: Func) -> Tuple[List[Func], str]:
        """
        Resolve the repo functions a call may invoke.

        @return: (callees, how) where how in
            'direct' | 'method' | 'ctor' | 'ext' (not repo code) | 'name' (name-based fallback) | 'unresolved'
        """
        fn = call.func
        t = self.type_of(fn, f)
        out: List[Func] = []
        how = ''
        for a in t:
            k = a[0]
            if k == 'fn':
                g = self.funcs.get(a[1])
                if g:
                    out.append(g)
                    how = how or 'direct'
            elif k == 'bound':
                g = self.funcs.get(a[1])
                recv = self.classes.get(a[2]) if len(a) > 2 else None
                if g is not None:
                    if recv is not None and isinstance(fn, ast.Attribute) and not self._is_super(fn.value):
                        # dynamic dispatch: add overrides in subclasses of the static receiver type
                        for h in self.method_impls(recv, g.name if g.name == fn.attr else fn.attr):
                            if h not in out:
                                out.append(h)
                        if g not in out:
                            out.append(g)
                    else:
                        out.append(g)
                    how = how or 'method'
            elif k == 'type':
                c = self.classes.get(a[1])
                if c is not None:
                    for nm in ('__init__', '__new__', '__attrs_post_init__', '__post_init__'):
                        g2 = self.find_method(c, nm)
                        if g2 is not None and g2 not in out:
                            out.append(g2)
                    how = how or 'ctor'
            elif k in ('extname', 'extattr'):
                how = how or 'ext'
            elif k == 'inst':
                c = self.classes.get(a[1])
                if c is not None:
                    g3 = self.find_method(c, '__call__')
                    if g3:
                        out.append(g3)
                        how = how or 'method'
                else:
                    how = how or 'ext'
        if out or how:
            return out, how or 'direct'
        # fallbacks
        if isinstance(fn, ast.Attribute):
            bt = self.type_of(fn.value, f)
            if bt and all(a[0] in ('inst', 'seq', 'map', 'extname', 'extattr', 'mod') and
                          not (a[0] == 'inst' and a[1] in self.classes) and
                          not (a[0] == 'mod' and a[1] in self.modules) for a in bt):
                return [], 'ext'
            if isinstance(fn.value, ast.Constant) or isinstance(fn.value, ast.JoinedStr):
                return [], 'ext'
            cands = [g for g in self.funcs.values() if g.name == fn.attr and g.cls is not None and g.outer is None
                     and (g.mod.name not in self.opaque_modules or g.mod is f.mod)]
            if not cands:
                return [], 'ext'
            if fn.attr in BUILTIN_METHOD_NAMES and not bt:
                return [], 'ext?'
            return cands, 'name'
        if isinstance(fn, ast.Name):
            import builtins
            if hasattr(builtins, fn.id):
                return [], 'ext'
            r = self.resolve(f.mod, fn.id, f)
            if r is not None and r[0] == 'ext':
                return [], 'ext'
        return [], 'unresolved'

    @staticmethod
    def _is_super(e: ast.AST) -> bool:
        return isinstance(e, ast.Call) and isinstance(e.func, ast.Name) and e.func.id == 'super'

    # ------------------------------------------------------------- helpers
    def enclosing_func(self, node: ast.AST) -> Optional[Func]:
        n = getattr(node, '_parent', None)
        while n is not None:
            if id(n) in self.func_by_node:
                return self.func_by_node[id(n)]
            n = getattr(n, '_parent', None)
        return None

    def iter_funcs(self, prefix: str = '') -> Iterator[Func]:
        for qn, f in self.funcs.items():
            if qn.startswith(prefix):
                yield f

    def loc(self, mod: Mod, node: ast.AST) -> str:
        return f'{mod.relpath}:{getattr(node, "lineno", 0)}'


def parents(node: ast.AST) -> Iterator[ast.AST]:
    n = getattr(node, '_parent', None)
    while n is not None:
        yield n
        n = getattr(n, '_parent', None)
