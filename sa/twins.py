#!/usr/bin/env python3
"""
Behaviour-preserving twin generator: renames local variables (not parameters, not globals/nonlocals, not names shared with
nested scopes) in every function of a copy of the pydoctor package.  usage: twin_rename.py <src pydoctor dir> <dst root> [suffix]
"""
import ast
import shutil
import symtable
import sys
from pathlib import Path


def local_names(st: symtable.SymbolTable) -> set:
    out = set()
    child_free = set()
    for ch in st.get_children():
        for s in ch.get_symbols():
            if s.is_free() or s.is_global():
                child_free.add(s.get_name())
        # nested functions/classes/comprehensions referencing outer names
        stack = list(ch.get_children())
        while stack:
            c = stack.pop()
            for s in c.get_symbols():
                if s.is_free() or s.is_global():
                    child_free.add(s.get_name())
            stack.extend(c.get_children())
    for s in st.get_symbols():
        n = s.get_name()
        if s.is_local() and s.is_assigned() and not s.is_parameter() and not s.is_global() and not s.is_nonlocal() \
                and not s.is_free() and n not in child_free and not n.startswith('__') and not s.is_imported() \
                and not s.is_namespace():
            out.add(n)
    return out


class Renamer(ast.NodeTransformer):
    def __init__(self, names: set, suffix: str):
        self.names = names
        self.suffix = suffix
        self.depth = 0

    def visit_Name(self, node: ast.Name) -> ast.Name:
        if node.id in self.names:
            node.id = node.id + self.suffix
        return node

    def _nested(self, node):
        return node     # do not descend into nested scopes

    def _deco(self, node):
        # decorators, defaults, annotations and base classes are evaluated in the enclosing scope
        for fld in ('decorator_list', 'bases', 'keywords'):
            for i, d in enumerate(getattr(node, fld, []) or []):
                getattr(node, fld)[i] = self.visit(d)
        a = getattr(node, 'args', None)
        if isinstance(a, ast.arguments):
            a.defaults = [self.visit(d) for d in a.defaults]
            a.kw_defaults = [self.visit(d) if d is not None else None for d in a.kw_defaults]
        return node

    visit_FunctionDef = visit_AsyncFunctionDef = visit_Lambda = visit_ClassDef = _deco

    def _comp(self, node):
        # only the first iterable of a comprehension is evaluated in the enclosing scope
        node.generators[0].iter = self.visit(node.generators[0].iter)
        return node

    visit_ListComp = visit_SetComp = visit_DictComp = visit_GeneratorExp = _comp

    def visit_ExceptHandler(self, node: ast.ExceptHandler):
        if node.name in self.names:
            node.name = node.name + self.suffix
        self.generic_visit(node)
        return node


def process(src: str, suffix: str) -> str:
    tree = ast.parse(src)
    top = symtable.symtable(src, '<m>', 'exec')

    def walk(node, st):
        kids = {c.get_name(): [] for c in st.get_children()}
        for c in st.get_children():
            kids[c.get_name()].append(c)
        for ch in ast.iter_child_nodes(node):
            handle(ch, kids)

    def handle(node, kids):
        if isinstance(node, (ast.FunctionDef, ast.AsyncFunctionDef)):
            lst = kids.get(node.name) or []
            st = lst.pop(0) if lst else None
            if st is not None and st.get_type() == 'function':
                names = local_names(st)
                # conservative: leave alone every name that also occurs inside a nested scope of this function
                nested_used = set()
                for sub in ast.walk(ast.Module(body=node.body, type_ignores=[])):
                    if isinstance(sub, (ast.FunctionDef, ast.AsyncFunctionDef, ast.Lambda, ast.ClassDef, ast.ListComp, ast.SetComp,
                                        ast.DictComp, ast.GeneratorExp)):
                        for x in ast.walk(sub):
                            if isinstance(x, ast.Name):
                                nested_used.add(x.id)
                            elif isinstance(x, ast.arg):
                                nested_used.add(x.arg)
                names -= nested_used
                r = Renamer(names, suffix)
                for stmt in node.body:
                    r.visit(stmt)
                k2 = {}
                for c in st.get_children():
                    k2.setdefault(c.get_name(), []).append(c)
                for stmt in ast.walk(ast.Module(body=node.body, type_ignores=[])):
                    pass
                # nested defs: find them structurally (not inside comprehensions/lambdas of this level is fine)
                for sub in _direct_defs(node.body):
                    handle(sub, k2)
        elif isinstance(node, ast.ClassDef):
            lst = kids.get(node.name) or []
            st = lst.pop(0) if lst else None
            if st is not None:
                k2 = {}
                for c in st.get_children():
                    k2.setdefault(c.get_name(), []).append(c)
                for sub in _direct_defs(node.body):
                    handle(sub, k2)
        else:
            for ch in ast.iter_child_nodes(node):
                handle(ch, kids)
    walk(tree, top)
    return ast.unparse(tree) + '\n'


def _direct_defs(body):
    out = []
    todo = list(body)
    while todo:
        n = todo.pop(0)
        if isinstance(n, (ast.FunctionDef, ast.AsyncFunctionDef, ast.ClassDef)):
            out.append(n)
        elif isinstance(n, (ast.If, ast.For, ast.While, ast.With, ast.Try)):
            for f in ('body', 'orelse', 'finalbody'):
                todo.extend(getattr(n, f, []) or [])
            for h in getattr(n, 'handlers', []) or []:
                todo.extend(h.body)
    return out


class IfSwapper(ast.NodeTransformer):
    """`if c: A else: B`  ->  `if not c: B else: A`  (only plain if/else, not elif chains)."""

    def visit_If(self, node: ast.If):
        self.generic_visit(node)
        if node.orelse and not (len(node.orelse) == 1 and isinstance(node.orelse[0], ast.If)):
            test = node.test.operand if isinstance(node.test, ast.UnaryOp) and isinstance(node.test.op, ast.Not) \
                else ast.UnaryOp(op=ast.Not(), operand=node.test)
            return ast.copy_location(ast.If(test=test, body=node.orelse, orelse=node.body), node)
        return node


def ifswap(src: str) -> str:
    tree = IfSwapper().visit(ast.parse(src))
    ast.fix_missing_locations(tree)
    return ast.unparse(tree) + '\n'


class PassPadder(ast.NodeTransformer):
    """Insert a `pass` after every statement of every function body (and of the blocks nested in it)."""

    def _pad(self, stmts):
        out = []
        for st in stmts:
            out.append(st)
            if not isinstance(st, (ast.Return, ast.Raise, ast.Break, ast.Continue)):
                out.append(ast.Pass())
        return out

    def generic_visit(self, node):
        super().generic_visit(node)
        if isinstance(node, (ast.FunctionDef, ast.AsyncFunctionDef, ast.For, ast.AsyncFor, ast.While, ast.If, ast.With, ast.AsyncWith,
                             ast.Try, ast.ExceptHandler)):
            inside_func = True
            for fld in ('body', 'orelse', 'finalbody'):
                v = getattr(node, fld, None)
                if isinstance(v, list) and v and isinstance(v[0], ast.stmt):
                    first_doc = isinstance(node, (ast.FunctionDef, ast.AsyncFunctionDef)) and fld == 'body' and \
                        isinstance(v[0], ast.Expr) and isinstance(v[0].value, ast.Constant) and isinstance(v[0].value.value, str)
                    setattr(node, fld, ([v[0]] + self._pad(v[1:])) if first_doc else self._pad(v))
        return node

    def visit_ClassDef(self, node):
        # class bodies are left alone (attribute docstrings follow their assignment), but methods are padded
        for i, st in enumerate(node.body):
            node.body[i] = self.visit(st)
        return node

    def visit_Module(self, node):
        for i, st in enumerate(node.body):
            if isinstance(st, (ast.FunctionDef, ast.AsyncFunctionDef, ast.ClassDef)):
                node.body[i] = self.visit(st)
        return node


def padpass(src: str) -> str:
    tree = PassPadder().visit(ast.parse(src))
    ast.fix_missing_locations(tree)
    return ast.unparse(tree) + '\n'


class GuardToElse(ast.NodeTransformer):
    """`if c: ...; return x` followed by the rest of the block  ->  `if c: ...; return x  else: <rest>` (guard clause to if/else)."""

    def _rewrite(self, stmts):
        for i, st in enumerate(stmts):
            if isinstance(st, ast.If) and not st.orelse and st.body and isinstance(st.body[-1], (ast.Return, ast.Raise, ast.Continue, ast.Break)) \
                    and i + 1 < len(stmts):
                rest = self._rewrite(stmts[i + 1:])
                st.orelse = rest
                return stmts[:i + 1]
        return stmts

    def generic_visit(self, node):
        super().generic_visit(node)
        if isinstance(node, (ast.FunctionDef, ast.AsyncFunctionDef, ast.For, ast.AsyncFor, ast.While, ast.If, ast.With, ast.AsyncWith,
                             ast.Try, ast.ExceptHandler)):
            for fld in ('body', 'orelse', 'finalbody'):
                v = getattr(node, fld, None)
                if isinstance(v, list) and v and isinstance(v[0], ast.stmt):
                    setattr(node, fld, self._rewrite(v))
        return node


def guard2else(src: str) -> str:
    tree = GuardToElse().visit(ast.parse(src))
    ast.fix_missing_locations(tree)
    return ast.unparse(tree) + '\n'


GENERATORS = {'padpass': padpass, 'guard2else': guard2else}


def rewrite_tree(root: Path, mode: str, suffix: str = '_x') -> int:
    """Rewrite every non-test module below root/pydoctor in place: mode 'rename' (local variables) or 'unparse' (reformat)."""
    n = 0
    for p in (root / 'pydoctor').rglob('*.py'):
        if 'test' in p.parts:
            continue
        s = p.read_text()
        try:
            out = process(s, suffix) if mode == 'rename' else ifswap(s) if mode == 'ifswap' else GENERATORS[mode](s) if mode in GENERATORS \
                else ast.unparse(ast.parse(s)) + '\n'
            compile(out, str(p), 'exec')
        except Exception:
            continue
        p.write_text(out)
        n += 1
    return n


def main():
    src, dst = Path(sys.argv[1]), Path(sys.argv[2])
    suffix = sys.argv[3] if len(sys.argv) > 3 else '_x'
    shutil.copytree(src, dst / 'pydoctor', ignore=lambda d, ns: [n for n in ns if n in ('__pycache__',)])
    n = 0
    for p in (dst / 'pydoctor').rglob('*.py'):
        if 'test' in p.parts:
            continue
        s = p.read_text()
        try:
            out = process(s, suffix)
            compile(out, str(p), 'exec')
        except Exception as e:
            print('skip', p, e)
            continue
        p.write_text(out)
        n += 1
    print('renamed locals in', n, 'files')


if __name__ == '__main__':
    main()
