"""
Resolved call graph of the pydoctor package, including an explicit model of the places where the
callee is computed at run time (DESIGN.md section 2.2).  Every model is derived from the source on every
run (no frozen list of callees).
"""
from __future__ import annotations

import ast
from typing import Dict, Iterable, Iterator, List, Optional, Set, Tuple

from .core import (AnalysisError, Cls, Func, Repo, BUILTIN_METHOD_NAMES, dotted, norm, parents)


class Site:
    """One call site (or property read) inside a function."""
    __slots__ = ('node', 'func', 'callees', 'how', 'ext')

    def __init__(self, node: ast.AST, func: Func, callees: List[Func], how: str, ext: Optional[str] = None):
        self.node = node
        self.func = func
        self.callees = callees
        self.how = how
        self.ext = ext      # dotted name of the external callee, when known

    @property
    def loc(self) -> str:
        return f'{self.func.mod.relpath}:{getattr(self.node, "lineno", 0)}'


MIXIN_SLOTS = {
    'ClassMixin': ['Class'], 'ModuleMixin': ['Module', 'Package'], 'PackageMixin': ['Package'],
    'FunctionMixin': ['Function'], 'AttributeMixin': ['Attribute'],
}


class CallGraph:
    def __init__(self, repo: Repo, opaque_modules: Iterable[str] = ()):
        self.repo = repo
        repo.opaque_modules = set(opaque_modules)
        self.sites: Dict[str, List[Site]] = {}
        self.callers: Dict[str, List[Site]] = {}
        self.stats: Dict[str, int] = {}
        self.models: Dict[str, int] = {}
        self._renderers: Optional[List[Func]] = None
        self._link_mixins()
        self._build()

    # ------------------------------------------------------------------ mixins
    def _link_mixins(self) -> None:
        """Classes deriving from pydoctor.extensions.<X>Mixin are composed into model.<X> by the factory:
        treat them as subclasses of the model class for dynamic dispatch."""
        r = self.repo
        n = 0
        for c in list(r.classes.values()):
            for k in r.mro(c):
                if k.mod.name == 'pydoctor.extensions' and k.name in MIXIN_SLOTS:
                    for slot in MIXIN_SLOTS[k.name]:
                        tgt = r.classes.get(f'pydoctor.model.{slot}')
                        if tgt is not None and c is not tgt and c not in tgt.subs and tgt not in r.mro(c) \
                                and c.mod.name != 'pydoctor.extensions':
                            tgt.subs.append(c)
                            n += 1
        self.models['mixin-as-subclass'] = n

    # ------------------------------------------------------------------ build
    def _build(self) -> None:
        r = self.repo
        pending_params: List[Tuple[Func, ast.Call, Func, str]] = []
        for f in list(r.funcs.values()):
            sites: List[Site] = []
            for n in f.walk():
                if isinstance(n, ast.Call):
                    s = self._resolve_call(n, f, pending_params)
                    sites.append(s)
                    # callables handed to external code are assumed to be invoked there
                    if s.how.startswith('ext'):
                        extra = self._callable_args(n, f)
                        if extra:
                            s.callees = list(s.callees) + [g for g in extra if g not in s.callees]
                    self.stats[s.how] = self.stats.get(s.how, 0) + 1
                elif isinstance(n, ast.Attribute) and isinstance(n.ctx, ast.Load):
                    p = getattr(n, '_parent', None)
                    props = self._property_reads(n, f)
                    if props:
                        sites.append(Site(n, f, props, 'property'))
                        self.stats['property'] = self.stats.get('property', 0) + 1
                elif isinstance(n, (ast.For, ast.comprehension)):
                    its = self._dunder(n.iter, f, ['__iter__', '__next__'])
                    if its:
                        sites.append(Site(n.iter, f, its, 'dunder'))
            self.sites[f.qn] = sites
        # second phase: calls of parameters -> arguments bound at the call sites of the enclosing function
        self._index_callers()
        for f, call, owner, pname in pending_params:
            bound = self._bound_args(owner, pname)
            for s in self.sites[f.qn]:
                if s.node is call:
                    s.callees = bound
                    s.how = 'param' if bound else 'param-unbound'
                    self.stats[s.how] = self.stats.get(s.how, 0) + 1
        self._index_callers()

    def _index_callers(self) -> None:
        self.callers = {}
        for qn, sites in self.sites.items():
            for s in sites:
                for g in s.callees:
                    self.callers.setdefault(g.qn, []).append(s)

    # ------------------------------------------------------------------ helpers
    def renderers(self) -> List[Func]:
        """Methods twisted's flattener calls: @renderer methods, `render`, `lookupRenderMethod`, `slot_map`-like
        hooks of every Element subclass."""
        if self._renderers is None:
            out: List[Func] = []
            for f in self.repo.funcs.values():
                if f.cls is None or f.outer is not None:
                    continue
                if any(d.split('.')[-1] == 'renderer' for d in f.decorators):
                    out.append(f)
                elif f.name in ('render', 'lookupRenderMethod') and self._is_element(f.cls):
                    out.append(f)
            self._renderers = out
        return self._renderers

    def _is_element(self, c: Cls) -> bool:
        for e in self.repo.ext_bases(c):
            if e.split('.')[-1] in ('Element', 'TemplateElement'):
                return True
        return any(k.name in ('TemplateElement',) for k in self.repo.mro(c))

    def _family(self, c: Cls) -> List[Cls]:
        out = list(self.repo.mro(c))
        for s in self.repo.all_subclasses(c):
            if s not in out:
                out.append(s)
            for k in self.repo.mro(s):
                if k not in out:
                    out.append(k)
        return out

    def _prefix_of(self, e: ast.AST, f: Func, depth: int = 0) -> Optional[str]:
        """Constant head of a computed attribute name ('visit_' + x, f'handle_{x}', name.lower())."""
        if depth > 4:
            return None
        if isinstance(e, ast.BinOp) and isinstance(e.op, ast.Add):
            if isinstance(e.left, ast.Constant) and isinstance(e.left.value, str):
                return e.left.value
            return self._prefix_of(e.left, f, depth + 1)
        if isinstance(e, ast.BinOp) and isinstance(e.op, ast.Mod) and isinstance(e.left, ast.Constant) \
                and isinstance(e.left.value, str):
            return e.left.value.split('%')[0]
        if isinstance(e, ast.JoinedStr) and e.values and isinstance(e.values[0], ast.Constant):
            return str(e.values[0].value)
        if isinstance(e, ast.Call) and isinstance(e.func, ast.Attribute) and e.func.attr in ('lower', 'upper', 'strip'):
            return self._prefix_of(e.func.value, f, depth + 1)
        if isinstance(e, ast.Name):
            for n in f.walk():
                if isinstance(n, ast.Assign) and len(n.targets) == 1 and isinstance(n.targets[0], ast.Name) \
                        and n.targets[0].id == e.id:
                    p = self._prefix_of(n.value, f, depth + 1)
                    if p:
                        return p
        return None

    def _getattr_dispatch(self, e: ast.AST, f: Func, depth: int = 0) -> Optional[List[Func]]:
        """`getattr(X, 'prefix' + k, default...)` -> all prefix* methods of X's class family + the defaults."""
        if not (isinstance(e, ast.Call) and isinstance(e.func, ast.Name) and e.func.id == 'getattr' and len(e.args) >= 2):
            return None
        prefix = self._prefix_of(e.args[1], f)
        if not prefix:
            return None
        r = self.repo
        out: List[Func] = []
        for a in r.type_of(e.args[0], f):
            if a[0] in ('inst', 'type') and a[1] in r.classes:
                for k in self._family(r.classes[a[1]]):
                    for nm, m in k.methods.items():
                        if nm.startswith(prefix) and m not in out:
                            out.append(m)
                    for nm, v in k.aliases.items():
                        if nm.startswith(prefix):
                            m2 = r.find_method(k, nm)
                            if m2 is not None and m2 not in out:
                                out.append(m2)
        for d in e.args[2:]:
            sub = self._getattr_dispatch(d, f, depth + 1)
            if sub is not None:
                out.extend(g for g in sub if g not in out)
                continue
            out.extend(g for g in self._funcs_of_value(d, f) if g not in out)
        self.models['getattr-prefix'] = self.models.get('getattr-prefix', 0) + 1
        return out


    def _dynamic_module_funcs(self, fn: ast.AST, f: Func) -> Optional[List[Func]]:
        """`m.attr` where `m = import_module(f'pkg.sub.{name}')` (one assignment): the function `attr` of every module of that package."""
        if not (isinstance(fn, ast.Attribute) and isinstance(fn.value, ast.Name)) or isinstance(f.node, ast.Lambda):
            return None
        vals = [n.value for n in f.walk() if isinstance(n, ast.Assign) and any(isinstance(t, ast.Name) and t.id == fn.value.id for t in n.targets)]
        if len(vals) != 1:
            return None
        v = vals[0]
        if not (isinstance(v, ast.Call) and (dotted(v.func) or '').split('.')[-1] == 'import_module' and v.args and isinstance(v.args[0], ast.JoinedStr)):
            return None
        parts = v.args[0].values
        if not (parts and isinstance(parts[0], ast.Constant) and isinstance(parts[0].value, str) and parts[0].value.endswith('.')):
            return None
        prefix = parts[0].value
        out = [g for g in self.repo.funcs.values() if g.cls is None and g.outer is None and g.name == fn.attr and g.mod.name.startswith(prefix) and
               '.' not in g.mod.name[len(prefix):]]
        if out:
            self.models['dynamic-import'] = self.models.get('dynamic-import', 0) + 1
        return out or None

    def _funcs_of_value(self, e: ast.AST, f: Func) -> List[Func]:
        """Repo functions an expression may denote (function names, bound methods with overrides, lambdas)."""
        r = self.repo
        out: List[Func] = []
        for a in r.type_of(e, f):
            if a[0] == 'fn':
                g = r.funcs.get(a[1])
                if g and g not in out:
                    out.append(g)
            elif a[0] == 'bound':
                g = r.funcs.get(a[1])
                recv = r.classes.get(a[2]) if len(a) > 2 else None
                if g is not None:
                    if recv is not None:
                        for h in r.method_impls(recv, g.name):
                            if h not in out:
                                out.append(h)
                    if g not in out:
                        out.append(g)
            elif a[0] == 'type':
                c = r.classes.get(a[1])
                if c is not None:
                    for nm in ('__init__', '__new__', '__attrs_post_init__'):
                        g2 = r.find_method(c, nm)
                        if g2 is not None and g2 not in out:
                            out.append(g2)
        if isinstance(e, ast.Call):
            # functools.partial(f, ...) / processtypes(f) style wrappers: the wrapped function
            d = dotted(e.func) or ''
            if d.split('.')[-1] == 'partial' and e.args:
                out.extend(g for g in self._funcs_of_value(e.args[0], f) if g not in out)
        return out

    def _callable_args(self, call: ast.Call, f: Func) -> List[Func]:
        out: List[Func] = []
        for a in list(call.args) + [k.value for k in call.keywords]:
            if isinstance(a, (ast.Name, ast.Attribute, ast.Lambda)):
                if isinstance(a, ast.Attribute) and not isinstance(a.value, (ast.Name, ast.Attribute)):
                    continue
                for g in self._funcs_of_value(a, f):
                    # only function-like values; a class passed as an argument is not a call
                    if g.name in ('__init__', '__new__', '__attrs_post_init__') and not isinstance(a, ast.Lambda):
                        continue
                    if g not in out:
                        out.append(g)
        return out

    def _property_reads(self, n: ast.Attribute, f: Func) -> List[Func]:
        r = self.repo
        out: List[Func] = []
        for a in r.type_of(n.value, f):
            if a[0] in ('inst', 'super') and a[1] in r.classes:
                c = r.classes[a[1]]
                for m in r.method_impls(c, n.attr) if a[0] == 'inst' else \
                        [x for x in [r.find_method(c, n.attr)] if x is not None]:
                    if m.is_property and m not in out:
                        out.append(m)
        return out

    def _dunder(self, e: ast.AST, f: Func, names: List[str]) -> List[Func]:
        r = self.repo
        out: List[Func] = []
        for a in r.type_of(e, f):
            if a[0] == 'inst' and a[1] in r.classes:
                for nm in names:
                    for m in r.method_impls(r.classes[a[1]], nm):
                        if m not in out:
                            out.append(m)
        return out

    def returned_funcs(self, g: Func, depth: int = 0) -> List[Func]:
        """Functions that `g` may return as a value (get_parser() -> parse_docstring)."""
        out: List[Func] = []
        if depth > 3 or isinstance(g.node, ast.Lambda):
            return out
        for n in g.walk():
            if isinstance(n, ast.Return) and n.value is not None:
                v = n.value
                if isinstance(v, (ast.Name, ast.Attribute, ast.Lambda)):
                    for h in self._funcs_of_value(v, g):
                        if h.name in ('__init__', '__new__', '__attrs_post_init__'):
                            continue
                        if h not in out:
                            out.append(h)
                elif isinstance(v, ast.Call):
                    # return wrapper(f) : keep f ; return other_get_parser(...) : recurse
                    for a in v.args:
                        if isinstance(a, (ast.Name, ast.Attribute)):
                            for h in self._funcs_of_value(a, g):
                                if h.name not in ('__init__', '__new__', '__attrs_post_init__') and h not in out:
                                    out.append(h)
                    cal, how = self.repo.callees(v, g)
                    cal = list(cal) + [x for x in (self._dynamic_module_funcs(v.func, g) or []) if x not in cal]
                    for c2 in cal:
                        for h in self.returned_funcs(c2, depth + 1):
                            if h not in out:
                                out.append(h)
        return out

    def _local_values(self, name: str, f: Func) -> List[ast.expr]:
        vals: List[ast.expr] = []
        for n in f.walk():
            if isinstance(n, ast.Assign):
                for t in n.targets:
                    if isinstance(t, ast.Name) and t.id == name:
                        vals.append(n.value)
            elif isinstance(n, ast.AnnAssign) and isinstance(n.target, ast.Name) and n.target.id == name and n.value:
                vals.append(n.value)
        return vals

    def _dict_values(self, e: ast.AST, f: Func) -> Optional[List[ast.expr]]:
        """Values of a dict literal denoted by `e` (module level, class level or local)."""
        r = self.repo
        if isinstance(e, ast.Dict):
            return [v for v in e.values if v is not None]
        if isinstance(e, ast.Name):
            for v in self._local_values(e.id, f):
                if isinstance(v, ast.Dict):
                    return [x for x in v.values if x is not None]
            res = r.resolve(f.mod, e.id, f)
            if res and res[0] == 'var':
                v2 = res[1].assigns.get(res[2])
                if isinstance(v2, ast.Dict):
                    return [x for x in v2.values if x is not None]
        if isinstance(e, ast.Attribute):
            d = dotted(e)
            if d:
                res = r.resolve(f.mod, d, f)
                if res and res[0] == 'var':
                    v2 = res[1].assigns.get(res[2])
                    if isinstance(v2, ast.Dict):
                        return [x for x in v2.values if x is not None]
                if res and res[0] == 'cattr':
                    v3 = res[1].aliases.get(res[2])
                    if isinstance(v3, ast.Dict):
                        return [x for x in v3.values if x is not None]
            # self.X where X is a class-level dict
            for a in r.type_of(e.value, f):
                if a[0] in ('inst', 'type') and a[1] in r.classes:
                    for k in r.mro(r.classes[a[1]]):
                        v4 = k.aliases.get(e.attr)
                        if isinstance(v4, ast.Dict):
                            return [x for x in v4.values if x is not None]
        return None

    def _bound_args(self, f: Func, pname: str) -> List[Func]:
        """Function values passed for parameter `pname` of f at every call site of f."""
        out: List[Func] = []
        ps = [p.arg for p in f.params()]
        if pname not in ps:
            return out
        idx = ps.index(pname)
        is_method = f.cls is not None and f.outer is None and not f.is_static
        for s in self.callers.get(f.qn, []):
            call = s.node
            if not isinstance(call, ast.Call):
                continue
            arg: Optional[ast.expr] = None
            for k in call.keywords:
                if k.arg == pname:
                    arg = k.value
            if arg is None:
                pos = idx - (1 if is_method and s.how in ('method', 'ctor', 'name') else 0)
                if 0 <= pos < len(call.args):
                    arg = call.args[pos]
            if arg is None:
                continue
            for g in self._funcs_of_value(arg, s.func):
                if g not in out:
                    out.append(g)
        # default value of the parameter
        node = f.node
        a = node.args
        allp = list(a.posonlyargs) + list(a.args)
        defaults = [None] * (len(allp) - len(a.defaults)) + list(a.defaults)
        for p, d in list(zip(allp, defaults)) + list(zip(a.kwonlyargs, a.kw_defaults)):
            if p.arg == pname and d is not None:
                for g in self._funcs_of_value(d, f.outer or f):
                    if g not in out:
                        out.append(g)
        return out

    # ------------------------------------------------------------------ resolution of one call
    def _resolve_call(self, call: ast.Call, f: Func, pending_params: List[Tuple[Func, ast.Call, Func, str]]) -> Site:
        r = self.repo
        fn = call.func
        # --- models first
        # getattr(...)(...) directly
        ga = self._getattr_dispatch(fn, f)
        if ga is not None:
            return Site(call, f, ga, 'model:getattr')
        dm = self._dynamic_module_funcs(fn, f)
        if dm is not None:
            return Site(call, f, dm, 'model:dynamic-import')
        if isinstance(fn, ast.Name):
            # local callable variable
            # by-name models
            if f.qn == 'pydoctor.extensions.load_extension_module' and fn.id not in [p.arg for p in f.params()] and \
                    not r.resolve(f.mod, fn.id, None):
                # the callable looked up on a dynamically imported extension module
                out2 = [g for g in r.funcs.values() if g.name == 'setup_pydoctor_extension' and g.cls is None and g.outer is None]
                self.models['setup_pydoctor_extension'] = len(out2)
                return Site(call, f, out2, 'model:extension-setup')
            if f.cls is not None and f.cls.name == 'PriorityProcessor' and fn.id not in [p.arg for p in f.params()] and \
                    not r.resolve(f.mod, fn.id, None):
                # a callable taken out of the list filled by register_post_processor
                out3 = self._registered('register_post_processor')
                self.models['post-processors'] = len(out3)
                return Site(call, f, out3, 'model:post-processor')
            vals = self._local_values(fn.id, f)
            if vals:
                out: List[Func] = []
                modelled = False
                for v in vals:
                    ga2 = self._getattr_dispatch(v, f)
                    if ga2 is not None:
                        out.extend(g for g in ga2 if g not in out)
                        modelled = True
                        continue
                    if isinstance(v, ast.Call):
                        cal, how = r.callees(v, f)
                        got = False
                        for g in cal:
                            rf = self.returned_funcs(g)
                            if rf:
                                got = True
                                out.extend(h for h in rf if h not in out)
                        if got:
                            modelled = True
                            continue
                    if isinstance(v, ast.Subscript):
                        dv = self._dict_values(v.value, f)
                        if dv is not None:
                            for x in dv:
                                out.extend(g for g in self._funcs_of_value(x, f) if g not in out)
                            modelled = True
                            continue
                    fv = self._funcs_of_value(v, f)
                    if fv:
                        out.extend(g for g in fv if g not in out)
                        modelled = True
                if modelled:
                    self.models['local-callable'] = self.models.get('local-callable', 0) + 1
                    return Site(call, f, out, 'model:local')
            # parameter of the enclosing function (or of an outer function)
            g0: Optional[Func] = f
            while g0 is not None:
                if fn.id in [p.arg for p in g0.params()] and not self._local_values(fn.id, g0):
                    t = r.locals_of(g0).get(fn.id, frozenset())
                    if not any(a[0] in ('type', 'fn', 'bound') for a in t):
                        pending_params.append((f, call, g0, fn.id))
                        return Site(call, f, [], 'param?')
                    break
                g0 = g0.outer
        if isinstance(fn, ast.Subscript):
            dv = self._dict_values(fn.value, f)
            if dv is not None:
                out4: List[Func] = []
                for x in dv:
                    out4.extend(g for g in self._funcs_of_value(x, f) if g not in out4)
                self.models['dict-dispatch'] = self.models.get('dict-dispatch', 0) + 1
                return Site(call, f, out4, 'model:dict')
        if isinstance(fn, ast.Call):
            # f(...)(...) : functions returned by f
            cal, how = r.callees(fn, f)
            out5: List[Func] = []
            for g in cal:
                out5.extend(h for h in self.returned_funcs(g) if h not in out5)
            if out5:
                return Site(call, f, out5, 'model:returned')
        # --- regular resolution
        cal, how = r.callees(call, f)
        ext = None
        if how.startswith('ext'):
            ext = self._ext_name(fn, f)
            short = (ext or '').split('.')[-1]
            if short in ('flattenString', 'flatten', 'flattenToFile') or \
                    (isinstance(fn, ast.Name) and fn.id in ('flattenString',)):
                self.models['flatten->renderers'] = len(self.renderers())
                return Site(call, f, list(self.renderers()), 'model:flatten', ext)
        if isinstance(fn, ast.Attribute) and fn.attr in ('walk', 'walkabout') and len(call.args) == 1 and \
                how in ('ext', 'ext?', 'name', 'unresolved'):
            vis: List[Func] = []
            for a in r.type_of(call.args[0], f):
                if a[0] == 'inst' and a[1] in r.classes:
                    for k in self._family(r.classes[a[1]]):
                        for nm, m in k.methods.items():
                            if nm.startswith(('visit_', 'depart_', 'unknown_', 'default_')) and m not in vis:
                                vis.append(m)
                        for nm in k.aliases:
                            if nm.startswith(('visit_', 'depart_')):
                                m2 = r.find_method(k, nm)
                                if m2 is not None and m2 not in vis:
                                    vis.append(m2)
            if vis:
                self.models['docutils-walk'] = self.models.get('docutils-walk', 0) + 1
                return Site(call, f, vis, 'model:walk')
        if isinstance(fn, ast.Attribute) and fn.attr in ('visit', 'generic_visit') and how in ('ext', 'ext?', 'unresolved', 'name'):
            # ast.NodeVisitor / NodeTransformer dispatch: visit_<Class> methods of the receiver's class family
            vis2: List[Func] = []
            for a in r.type_of(fn.value, f):
                if a[0] in ('inst', 'super') and a[1] in r.classes:
                    c0 = r.classes[a[1]]
                    if any(e.split('.')[-1] in ('NodeVisitor', 'NodeTransformer') for e in r.ext_bases(c0)):
                        for k in self._family(c0):
                            for nm, m in k.methods.items():
                                if nm.startswith('visit_') and m not in vis2:
                                    vis2.append(m)
                            for nm in k.aliases:
                                if nm.startswith('visit_'):
                                    m2 = r.find_method(k, nm)
                                    if m2 is not None and m2 not in vis2:
                                        vis2.append(m2)
            if vis2:
                self.models['ast-visitor'] = self.models.get('ast-visitor', 0) + 1
                return Site(call, f, vis2, 'model:ast-visit')
        if isinstance(fn, ast.Name) and fn.id in ('str', 'repr', 'next', 'iter', 'len', 'bool', 'sorted', 'list', 'tuple') and call.args:
            names = {'str': ['__str__', '__repr__'], 'repr': ['__repr__'], 'next': ['__next__'],
                     'iter': ['__iter__'], 'len': ['__len__'], 'bool': ['__bool__', '__len__'],
                     'sorted': ['__iter__', '__next__'], 'list': ['__iter__', '__next__'],
                     'tuple': ['__iter__', '__next__']}[fn.id]
            d = self._dunder(call.args[0], f, names)
            if d:
                extra = self._callable_args(call, f) if fn.id == 'sorted' else []
                return Site(call, f, d + [g for g in extra if g not in d], 'dunder', fn.id)
        return Site(call, f, cal, how, ext)

    def _registered(self, regname: str) -> List[Func]:
        r = self.repo
        out: List[Func] = []
        for f in r.funcs.values():
            for n in f.walk():
                if isinstance(n, ast.Call) and isinstance(n.func, ast.Attribute) and n.func.attr == regname:
                    for a in n.args:
                        for g in self._funcs_of_value(a, f):
                            if g not in out:
                                out.append(g)
        return out

    def _ext_name(self, fn: ast.AST, f: Func) -> Optional[str]:
        r = self.repo
        d = dotted(fn)
        if d:
            res = r.resolve(f.mod, d, f)
            if res and res[0] == 'ext':
                return res[1]
        if isinstance(fn, ast.Attribute):
            for a in r.type_of(fn.value, f):
                if a[0] == 'inst' and a[1] not in r.classes:
                    return f'{a[1]}.{fn.attr}'
                if a[0] == 'extname':
                    return f'{a[1]}.{fn.attr}'
                if a[0] == 'mod' and a[1] not in r.modules:
                    return f'{a[1]}.{fn.attr}'
            return f'?.{fn.attr}'
        return d

    # ------------------------------------------------------------------ queries
    def reachable_from(self, roots: Iterable[Func]) -> Set[str]:
        seen: Set[str] = set()
        todo = [f.qn for f in roots]
        while todo:
            q = todo.pop()
            if q in seen:
                continue
            seen.add(q)
            for s in self.sites.get(q, []):
                for g in s.callees:
                    if g.qn not in seen:
                        todo.append(g.qn)
        return seen

    def resolution_stats(self) -> Dict[str, int]:
        return dict(self.stats)
