"""
Loop progress (a narrow, sound-for-alarms non-termination rule).

A `while TEST:` loop that has no exit of its own (no break / return / raise in its body) ends only when TEST becomes false.
TEST can only change if the body
  (a) rebinds a name TEST reads, from an expression that *varies* between iterations, or
  (b) may mutate an object TEST reads (a call on it / with it as argument, a store into it), or
  (c) TEST itself calls a method (state hidden behind the call).
If none of these holds, an iteration leaves everything TEST depends on unchanged: once the loop is entered for a second
time it runs forever.  The rule decides exactly that and stays silent in every other case ("may progress").

"varies": the right-hand side reads the name itself or another name that varies, a name bound by an enclosing `for`/`with`
inside the loop body, or contains a call that is not apparently pure.  A call is apparently pure when it resolves to a
module-level pydoctor function whose body has no global/nonlocal statement and stores into no attribute or subscript; calls
of builtins that are pure on immutable arguments (str, len, int, repr, format, ...) are pure; everything else is impure
(so: unknown calls make the loop "may progress" - no alarm).
"""
from __future__ import annotations

import ast
from typing import Dict, Iterable, List, Optional, Set, Tuple

from .core import Func, Repo, dotted, norm
from .util import loop_exits

PURE_BUILTINS = {'str', 'len', 'int', 'repr', 'format', 'bool', 'float', 'tuple', 'abs', 'min', 'max', 'ord', 'chr', 'isinstance', 'type', 'sorted'}


# methods that keep or read a reference to their arguments without changing them
NON_MUTATING_ARG_METHODS = {'append', 'add', 'extend', 'insert', 'join', 'format', 'get', 'startswith', 'endswith', 'index', 'count',
                            'setdefault', 'write', 'report', 'msg', 'appendleft'}


def _root(e: ast.AST) -> Optional[str]:
    while isinstance(e, (ast.Attribute, ast.Subscript)):
        e = e.value
    return e.id if isinstance(e, ast.Name) else None


def _names(e: ast.AST) -> Set[str]:
    return {n.id for n in ast.walk(e) if isinstance(n, ast.Name)}


def apparently_pure(repo: Repo, f: Func, call: ast.Call) -> bool:
    if isinstance(call.func, ast.Name) and call.func.id in PURE_BUILTINS:
        return True
    if not isinstance(call.func, ast.Name):
        return False        # method calls: state behind the receiver
    res = repo.resolve(f.mod, call.func.id, f)
    if not res or res[0] != 'func':
        return False
    g = res[1]
    if not isinstance(g, Func) or g.cls is not None:
        return False
    for n in g.walk():
        if isinstance(n, (ast.Global, ast.Nonlocal, ast.Yield, ast.YieldFrom)):
            return False
        if isinstance(n, (ast.Attribute, ast.Subscript)) and isinstance(n.ctx, (ast.Store, ast.Del)):
            return False
        if isinstance(n, ast.Call) and n is not call:
            # one level only: nested calls must be pure builtins or methods of locals/str (re.sub, s.lower(), ...)
            if isinstance(n.func, ast.Name) and n.func.id not in PURE_BUILTINS:
                r2 = repo.resolve(g.mod, n.func.id, g)
                if r2 and r2[0] == 'func':
                    return False
    return True


def stuck_loops(repo: Repo, f: Func) -> List[Tuple[ast.While, str, str]]:
    """(loop, verdict, explanation) for every while loop of f; verdict in 'stuck', 'progress', 'not-analysed'."""
    out: List[Tuple[ast.While, str, str]] = []
    for loop in f.walk():
        if not isinstance(loop, ast.While):
            continue
        test = loop.test
        if isinstance(test, ast.Constant):
            out.append((loop, 'not-analysed', 'constant test: ends through break/return'))
            continue
        body_nodes = [n for st in loop.body for n in ast.walk(st)]
        if loop_exits(loop) or any(isinstance(n, ast.Raise) for n in body_nodes):
            out.append((loop, 'not-analysed', 'has an exit of its own (break / return / raise)'))
            continue
        if any(isinstance(n, (ast.Yield, ast.YieldFrom, ast.Await)) for n in body_nodes):
            out.append((loop, 'not-analysed', 'generator / coroutine: state can change between resumptions'))
            continue
        if any(isinstance(n, ast.Call) and not (isinstance(n.func, ast.Name) and n.func.id in PURE_BUILTINS) for n in ast.walk(test)):
            out.append((loop, 'progress', 'the test calls a function / method (state behind the call)'))
            continue
        roots = {r for r in (_root(n) for n in ast.walk(test) if isinstance(n, (ast.Name, ast.Attribute, ast.Subscript))) if r}
        # (b) possible mutation of an object the test reads
        mut = None
        for n in body_nodes:
            if isinstance(n, ast.Call):
                recv = _root(n.func.value) if isinstance(n.func, ast.Attribute) else None
                args = set().union(*[_names(a) for a in list(n.args) + [k.value for k in n.keywords]]) if (n.args or n.keywords) else set()
                if recv in roots:
                    mut = f'`{norm(n)[:50]}` is called on an object the test reads'
                    break
                if isinstance(n.func, ast.Attribute) and n.func.attr in NON_MUTATING_ARG_METHODS:
                    continue        # stores / reads a reference to the argument, cannot change it
                if args & roots and not (isinstance(n.func, ast.Name) and n.func.id in PURE_BUILTINS):
                    # passing an object the test reads to a call: only a mutation risk for mutable objects; names rebound in the
                    # body from str-building expressions are handled by (a); be conservative: may progress
                    if not apparently_pure(repo, f, n):
                        mut = f'`{norm(n)[:50]}` receives an object the test reads'
                        break
            if isinstance(n, (ast.Attribute, ast.Subscript)) and isinstance(n.ctx, (ast.Store, ast.Del)) and _root(n) in roots:
                mut = f'`{norm(n)[:50]}` stores into an object the test reads'
                break
        if mut:
            out.append((loop, 'progress', mut))
            continue
        # (a) rebinding from a varying expression
        assigns: Dict[str, List[ast.AST]] = {}
        bound_by_iteration: Set[str] = set()
        for n in body_nodes:
            if isinstance(n, ast.Assign):
                for t in n.targets:
                    for x in ast.walk(t):
                        if isinstance(x, ast.Name) and isinstance(x.ctx, ast.Store):
                            assigns.setdefault(x.id, []).append(n.value)
            elif isinstance(n, ast.AnnAssign) and n.value is not None and isinstance(n.target, ast.Name):
                assigns.setdefault(n.target.id, []).append(n.value)
            elif isinstance(n, ast.AugAssign) and isinstance(n.target, ast.Name):
                assigns.setdefault(n.target.id, []).append(ast.BinOp(left=ast.Name(id=n.target.id, ctx=ast.Load()), op=n.op, right=n.value))
            elif isinstance(n, (ast.For, ast.AsyncFor, ast.comprehension)):
                for x in ast.walk(n.target):
                    if isinstance(x, ast.Name):
                        bound_by_iteration.add(x.id)
            elif isinstance(n, ast.NamedExpr) and isinstance(n.target, ast.Name):
                assigns.setdefault(n.target.id, []).append(n.value)
            elif isinstance(n, (ast.With, ast.AsyncWith)):
                for it in n.items:
                    if it.optional_vars is not None:
                        for x in ast.walk(it.optional_vars):
                            if isinstance(x, ast.Name):
                                bound_by_iteration.add(x.id)
            elif isinstance(n, ast.ExceptHandler) and n.name:
                bound_by_iteration.add(n.name)
        varying: Set[str] = set(bound_by_iteration)
        changed = True
        while changed:
            changed = False
            for name, vals in assigns.items():
                if name in varying:
                    continue
                for v in vals:
                    reads = _names(v)
                    impure = any(isinstance(c, ast.Call) and not apparently_pure(repo, f, c) for c in ast.walk(v))
                    if name in reads or (reads & varying) or impure:
                        varying.add(name)
                        changed = True
                        break
        moving = sorted(r for r in roots if r in varying)
        if moving:
            out.append((loop, 'progress', f'{", ".join(moving)} change(s) between iterations'))
            continue
        rebound = sorted(r for r in roots if r in assigns)
        why = (f'the test `{norm(test)[:60]}` reads {sorted(roots)}; the body rebinds {rebound or "none of them"}'
               + (f' but only from values that are the same in every iteration ({"; ".join(norm(v)[:40] for r in rebound for v in assigns[r])})' if rebound else '')
               + ' and cannot mutate them: after one iteration nothing the test depends on changes any more, the loop never ends')
        out.append((loop, 'stuck', why))
    return out


def pushback_loops(repo: Repo, f: Func) -> List[Tuple[ast.AST, bool, str]]:
    """
    Second narrow rule, for loops that consume a queue: when the body takes an element from the front of a queue
    (`v = q.popleft()` / `q.pop(0)`) and puts that same element back (`q.appendleft(v)` / `q.insert(0, v)`), the queue is as it
    was: unless the loop is left on every path that follows the push-back, the next iteration takes the same element again,
    for ever.  Returns (push-back statement, ok, explanation) per push-back site.
    """
    from .cfg import CFG
    out: List[Tuple[ast.AST, bool, str]] = []
    if isinstance(f.node, ast.Lambda):
        return out
    cfg = None
    for loop in f.walk():
        if not isinstance(loop, (ast.While, ast.For)):
            continue
        body_nodes = [n for st in loop.body for n in ast.walk(st)]
        takes = {}
        for n in body_nodes:
            if isinstance(n, ast.Assign) and isinstance(n.value, ast.Call) and isinstance(n.value.func, ast.Attribute) and isinstance(n.value.func.value, ast.Name):
                c = n.value
                if c.func.attr == 'popleft' or (c.func.attr == 'pop' and c.args and norm(c.args[0]) == '0'):
                    for t in n.targets:
                        if isinstance(t, ast.Name):
                            takes[t.id] = c.func.value.id
        if not takes:
            continue
        for n in body_nodes:
            if not (isinstance(n, ast.Expr) and isinstance(n.value, ast.Call) and isinstance(n.value.func, ast.Attribute) and isinstance(n.value.func.value, ast.Name)):
                continue
            c = n.value
            back = None
            if c.func.attr == 'appendleft' and c.args and isinstance(c.args[0], ast.Name):
                back = c.args[0].id
            elif c.func.attr == 'insert' and len(c.args) == 2 and norm(c.args[0]) == '0' and isinstance(c.args[1], ast.Name):
                back = c.args[1].id
            if back is None or takes.get(back) != c.func.value.id:
                continue
            # innermost loop containing the push-back must be `loop`
            inner = None
            p = getattr(n, '_parent', None)
            while p is not None and p is not f.node:
                if isinstance(p, (ast.While, ast.For)):
                    inner = p
                    break
                p = getattr(p, '_parent', None)
            if inner is not loop:
                continue
            if cfg is None:
                cfg = CFG(f)
            exits = [x for x in body_nodes if isinstance(x, (ast.Break, ast.Return, ast.Raise))]
            r = cfg.reachable(n, avoid_nodes=exits, no_exc=True)
            again = id(loop) in r
            out.append((n, not again,
                        'every path after the push-back leaves the loop' if not again else
                        f'after `{norm(n)}` puts back the element the loop has just taken from `{c.func.value.id}`, a path returns to the top of the loop without leaving it: '
                        'the same element is taken and put back for ever'))
    return out



SCAN_METHODS = {'search', 'match', 'find', 'index', 'rfind', 'rindex', 'fullmatch'}
# methods whose result depends only on the receiver and the arguments (str / re.Match / re.Pattern / list reads)
STABLE_METHODS = SCAN_METHODS | {'start', 'end', 'group', 'groups', 'span', 'startswith', 'endswith', 'strip', 'lstrip', 'rstrip', 'lower', 'upper',
                                 'isspace', 'isdigit', 'isalpha', 'isalnum', 'count', 'get', 'keys', 'values', 'items', 'split', 'splitlines', 'join', 'format'}


def scan_loops(repo: Repo, f: Func) -> List[Tuple[ast.While, bool, str]]:
    """
    Third narrow rule, for loops that scan a text from a position: `m = X.search(text, pos)` / `i = text.find(c, pos)` at the top of a `while`
    body.  The scan gives the same answer as long as `text` and `pos` are what they were.  A way round the loop that rebinds neither is harmless
    only if something else the decisions on that way read has changed; when every test on such a way reads nothing that the statements on it can
    change, the next iteration finds the same match, takes the same way, and so on for ever.  Returns (loop, ok, explanation) per scanning loop.
    """
    from .cfg import CFG
    out: List[Tuple[ast.While, bool, str]] = []
    if isinstance(f.node, ast.Lambda):
        return out
    cfg = None
    for loop in f.walk():
        if not isinstance(loop, ast.While):
            continue
        scan = None
        for st in loop.body:
            if isinstance(st, ast.Assign) and isinstance(st.value, ast.Call) and isinstance(st.value.func, ast.Attribute) and \
                    st.value.func.attr in SCAN_METHODS and len(st.value.args) >= 2 and isinstance(st.value.args[1], ast.Name):
                scan = st
                break
        if scan is None:
            continue
        call = scan.value
        assert isinstance(call, ast.Call) and isinstance(call.func, ast.Attribute)
        pos = call.args[1].id  # type: ignore[attr-defined]
        texts = _names(call.args[0]) | ({_root(call.func.value)} - {None})  # type: ignore[arg-type]
        body_nodes = [n for st in loop.body for n in ast.walk(st)]
        body_ids = {id(n) for n in body_nodes}

        def rebinds(n: ast.AST, names: Set[str]) -> bool:
            if isinstance(n, ast.Assign):
                return any(isinstance(x, ast.Name) and x.id in names for t in n.targets for x in ast.walk(t) if isinstance(x, ast.Name) and isinstance(x.ctx, ast.Store))
            if isinstance(n, (ast.AugAssign, ast.AnnAssign)):
                return isinstance(n.target, ast.Name) and n.target.id in names
            return False
        adv = [n for n in body_nodes if isinstance(n, ast.stmt) and n is not scan and rebinds(n, {pos} | texts)]
        if cfg is None:
            cfg = CFG(f)
        fwd = cfg.reachable(loop, avoid_nodes=adv, no_exc=True)
        S = [n for n in body_nodes if isinstance(n, (ast.stmt, ast.ExceptHandler)) and id(n) in fwd and id(n) in cfg.nodes and
             id(loop) in cfg.reachable(n, avoid_nodes=adv, no_exc=True)]
        if not S:
            out.append((loop, True, f'every way round the loop rebinds `{pos}` (or the text) after `{norm(scan)[:50]}`'))
            continue
        sids = {id(n) for n in S} | {id(loop)}
        tests = [l[0] for n in S + [loop] for (t, l, k) in cfg.succ.get(id(n), []) if l is not None and id(t) in sids]
        # what the statements on the non-advancing ways may change
        changed: Set[str] = set()
        assigns: List[Tuple[str, ast.AST]] = []
        unknown = False
        for n in S:
            parts: List[ast.AST]
            if isinstance(n, (ast.If, ast.While)):
                parts = [n.test]
            elif isinstance(n, (ast.For, ast.AsyncFor, ast.With, ast.AsyncWith, ast.Try, ast.ExceptHandler)):
                unknown = True          # iteration / context managers / handlers on the way: state we do not model
                break
            else:
                parts = [n]
            for part in parts:
                for x in ast.walk(part):
                    if isinstance(x, ast.Call):
                        stable = (isinstance(x.func, ast.Name) and x.func.id in PURE_BUILTINS) or (isinstance(x.func, ast.Attribute) and x.func.attr in STABLE_METHODS)
                        if not stable:
                            if isinstance(x.func, ast.Attribute):
                                r = _root(x.func.value)
                                if r:
                                    changed.add(r)
                            for a in list(x.args) + [k.value for k in x.keywords]:
                                changed |= _names(a)
                    elif isinstance(x, (ast.Attribute, ast.Subscript)) and isinstance(x.ctx, (ast.Store, ast.Del)):
                        r = _root(x)
                        if r:
                            changed.add(r)
                    elif isinstance(x, (ast.Yield, ast.YieldFrom, ast.Await)):
                        pass                # a resumption cannot rebind the locals of this frame
                    elif isinstance(x, ast.NamedExpr) and isinstance(x.target, ast.Name):
                        assigns.append((x.target.id, x.value))
            if isinstance(n, ast.Assign):
                for t in n.targets:
                    for x in ast.walk(t):
                        if isinstance(x, ast.Name) and isinstance(x.ctx, ast.Store):
                            assigns.append((x.id, n.value))
            elif isinstance(n, ast.AugAssign) and isinstance(n.target, ast.Name):
                changed.add(n.target.id)
            elif isinstance(n, ast.AnnAssign) and n.value is not None and isinstance(n.target, ast.Name):
                assigns.append((n.target.id, n.value))
        if unknown:
            out.append((loop, True, 'a non-advancing way round the loop passes statements that are not modelled: may progress'))
            continue
        again = True
        while again:
            again = False
            for name, v in assigns:
                if name not in changed and (_names(v) & changed or any(isinstance(c, ast.Call) and not (
                        (isinstance(c.func, ast.Name) and c.func.id in PURE_BUILTINS) or (isinstance(c.func, ast.Attribute) and c.func.attr in STABLE_METHODS)) for c in ast.walk(v))):
                    changed.add(name)
                    again = True
        read = set().union(*[_names(t) for t in tests]) if tests else set()
        opaque_test = any(isinstance(c, ast.Call) and not ((isinstance(c.func, ast.Name) and c.func.id in PURE_BUILTINS) or
                                                           (isinstance(c.func, ast.Attribute) and c.func.attr in STABLE_METHODS)) for t in tests for c in ast.walk(t))
        moving = sorted(read & changed)
        if moving or opaque_test:
            out.append((loop, True, f'a way round the loop keeps `{pos}`, but {", ".join(moving) or "a call in a test"} may change on it: may progress'))
            continue
        first = min(S, key=lambda n: (getattr(n, 'lineno', 0), getattr(n, 'col_offset', 0)))
        last = max((n for n in S if not isinstance(n, (ast.If, ast.While))), key=lambda n: getattr(n, 'lineno', 0), default=first)
        out.append((loop, False,
                    f'a way round the loop (through `{norm(last)[:50]}`, line {getattr(last, "lineno", "?")}) rebinds neither `{pos}` nor the text scanned by `{norm(scan)[:50]}`, '
                    f'and nothing its tests read ({", ".join(sorted(read)) or "-"}) can change on it: the next iteration finds the same match and takes the same way - the '
                    'loop never ends (and whatever it appends to grows without bound)'))
    return out
