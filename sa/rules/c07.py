"""
C07 - a re-exported object is documented once, where exported, and stays reachable.  Decides the move primitive:
  R07.1 effect completeness and order in Documentable.reparent
  R07.2 decision guard in ModuleVistor._handleReExport
  R07.3 stale-name consumers re-resolve through find_object
  R07.5 the name-resolution functions keep no result across a move (or the mover drops the kept results of every scope)
  R07.4 a name -> object map handed to the colorizer with an expression is keyed by the spelling of that expression
Does not decide: that every consumer in every analysis order reaches the moved object (schedules x programs).
"""
from __future__ import annotations

import ast
from typing import Dict, List, Optional, Set, Tuple

from ..core import AnalysisError, Func, Repo, dotted, norm, parents
from ..cfg import CFG
from ..report import Check
from ..util import single_value as _single_value
from ..util import call_name, calls_in, values_of, excluded_by, eval3

DOC = 'pydoctor.model.Documentable'
MV = 'pydoctor.astbuilder.ModuleVistor'


def run(repo: Repo, chk: Check, thorough: bool = False) -> None:
    chk.explanation = ('ordering rule on the statement CFG of Documentable.reparent (effects normalised: del d[k] = d.pop(k)); dominance of the '
                       'reparent() call by its two guards in _handleReExport; exports of non-module scopes; census of consumers of stored '
                       'qualified names')
    chk.assumptions = ['reachability of the moved object from every consumer in every analysis order is a runtime matter and not decided']
    rp = repo.func(f'{DOC}.reparent')
    cfg = CFG(rp)
    stmts = [n for n in rp.walk() if isinstance(n, ast.stmt)]

    def find(pred) -> List[ast.stmt]:
        return [s for s in stmts if pred(s)]
    pre = find(lambda s: isinstance(s, ast.Expr) and isinstance(s.value, ast.Call) and call_name(s.value) == '_handle_reparenting_pre')
    post = find(lambda s: isinstance(s, ast.Expr) and isinstance(s.value, ast.Call) and call_name(s.value) == '_handle_reparenting_post')
    set_name = find(lambda s: isinstance(s, ast.Assign) and any(dotted(t) == 'self.name' for t in s.targets))
    set_parent = find(lambda s: isinstance(s, ast.Assign) and any(dotted(t) == 'self.parent' for t in s.targets))
    set_pmod = find(lambda s: isinstance(s, ast.Assign) and any(dotted(t) == 'self.parentMod' for t in s.targets))
    del_old = find(lambda s: (isinstance(s, ast.Delete) and any('contents' in norm(t) for t in s.targets)) or
                   (isinstance(s, ast.Expr) and isinstance(s.value, ast.Call) and call_name(s.value) == 'pop' and 'contents' in norm(s.value.func)))
    ins_new = find(lambda s: isinstance(s, ast.Assign) and any(isinstance(t, ast.Subscript) and 'contents' in norm(t.value) for t in s.targets))
    alias = find(lambda s: isinstance(s, ast.Assign) and any(isinstance(t, ast.Subscript) and '_localNameToFullName_map' in norm(t.value) for t in s.targets))
    old_name = find(lambda s: isinstance(s, ast.Assign) and norm(s.value) == 'self.name')
    old_parent = find(lambda s: isinstance(s, ast.Assign) and norm(s.value) == 'self.parent')
    for label, lst in (('_handle_reparenting_pre()', pre), ('_handle_reparenting_post()', post), ('self.name = ...', set_name),
                       ('self.parent = ...', set_parent), ('del old contents entry', del_old), ('insert new contents entry', ins_new),
                       ('alias at the old location', alias)):
        if not lst:
            chk.ob('R07.1', f'{DOC}.reparent :: effect {label}', False,
                   f'the move no longer performs `{label}`: the object is documented twice, unreachable or left without alias', rp.loc)
    if not (pre and post and set_name and set_parent and del_old and ins_new and alias and old_name and old_parent):
        if not (old_name and old_parent):
            chk.error('R07.1: reparent no longer saves the old name / old parent in local variables')
        chk.require('R07.1', 1)
    else:
        def before(a: ast.stmt, b: ast.stmt) -> bool:
            return a is not b and cfg.dominates(a, b, no_exc=True)
        rename = set_name[0]
        reparent_ = set_parent[0]
        chk.ob('R07.1', f'{DOC}.reparent :: old registry keys dropped before the rename', all(before(pre[0], x) for x in (rename, reparent_)),
               'subtree unregistered while fullName() still yields the old keys', repo.loc(rp.mod, pre[0]))
        chk.ob('R07.1', f'{DOC}.reparent :: new registry keys inserted after the rename', any(before(rename, p) and before(reparent_, p) for p in post),
               'subtree registered once fullName() yields the new keys', repo.loc(rp.mod, post[0]))
        chk.ob('R07.1', f'{DOC}.reparent :: old name and parent saved before they change', before(old_name[0], rename) and before(old_parent[0], reparent_),
               'old_name / old_parent captured first', repo.loc(rp.mod, old_name[0]))
        ok = all(norm(t.slice) == norm(old_name[0].targets[0]) for s in del_old for t in (s.targets if isinstance(s, ast.Delete) else [s.value.func.value])
                 if isinstance(t, ast.Subscript)) if isinstance(del_old[0], ast.Delete) else True
        chk.ob('R07.1', f'{DOC}.reparent :: entry removed from the old parent under the old name', ok and norm(old_parent[0].targets[0]) in norm(del_old[0]),
               norm(del_old[0]), repo.loc(rp.mod, del_old[0]))
        t0 = ins_new[0].targets[0]
        ps = [p.arg for p in rp.params()]
        ok = isinstance(t0, ast.Subscript) and ps[1] in norm(t0.value) and norm(t0.slice) == ps[2] and norm(ins_new[0].value) == 'self'
        chk.ob('R07.1', f'{DOC}.reparent :: entry inserted in the new parent under the new name', ok, norm(ins_new[0]), repo.loc(rp.mod, ins_new[0]))
        chk.ob('R07.1', f'{DOC}.reparent :: old entry removed before the new one is inserted', before(del_old[0], ins_new[0]),
               'del old_parent.contents[old_name] precedes new_parent.contents[new_name] = self' if before(del_old[0], ins_new[0]) else
               'the new entry is inserted before the old one is deleted: when an object is re-exported under its own name by its own parent '
               '(old parent is new parent, same name) the delete removes the entry that was just inserted and the object vanishes from its module',
               repo.loc(rp.mod, ins_new[0]))
        a0 = alias[0]
        at = a0.targets[0]
        ok = isinstance(at, ast.Subscript) and norm(old_parent[0].targets[0]) in norm(at.value) and norm(at.slice) == norm(old_name[0].targets[0]) and \
            norm(a0.value) == 'self.fullName()' and before(rename, a0) and before(reparent_, a0)
        chk.ob('R07.1', f'{DOC}.reparent :: alias old_name -> new qualified name, evaluated after the rename', ok,
               f'{norm(a0)} after the rename' if ok else
               f'`{norm(a0)[:70]}` is not the new qualified name under the old local name (evaluated before the rename it names itself): '
               'references through the defining module stop resolving', repo.loc(rp.mod, a0))
        ok = bool(set_pmod) and ps[1] in norm(set_pmod[0].value)
        chk.ob('R07.1', f'{DOC}.reparent :: parentMod follows the move', ok, norm(set_pmod[0]) if set_pmod else 'parentMod not updated', rp.loc)
        chk.require('R07.1', 8)

    # ------------------------------------------------------------------ R07.2
    hr = repo.func(f'{MV}._handleReExport')
    cfgh = CFG(hr)
    rc = [c for c in calls_in(hr) if call_name(c) == 'reparent']
    if not rc:
        chk.error('R07.2: reparent(...) is not called from _handleReExport')
    ps = [p.arg for p in hr.params()]
    for c in rc:
        tests = cfgh.dominating_tests(cfgh.stmt_of(c))
        g1 = any(pol and isinstance(t, ast.Compare) and isinstance(t.ops[0], ast.In) and norm(t.left) == ps[3] and norm(t.comparators[0]) == ps[1] for t, pol in tests)
        chk.ob('R07.2', f'{MV}._handleReExport :: only names listed in the current __all__ move', g1,
               f'dominated by `{ps[3]} in {ps[1]}`' if g1 else 'the move is not guarded by membership of the exported name in the current module\'s __all__',
               repo.loc(hr.mod, c))
        # scenario "the origin module has an __all__ and lists the name": the move must be unreachable in it, however the guard is spelled
        # (`if all is None or name not in all: move` / `if all is not None and name in all: return`)
        def _nm(e: ast.AST) -> str:
            # a named intermediate (`origin_exports = origin_module.all`) is the expression it names
            if isinstance(e, ast.Name):
                v_ = _single_value(hr, e.id)
                if v_ is not None:
                    return norm(v_)
            return norm(e)

        def origin_exports(e: ast.AST) -> Optional[bool]:
            if isinstance(e, ast.Compare) and len(e.ops) == 1:
                l, r = _nm(e.left), _nm(e.comparators[0])
                if isinstance(e.ops[0], ast.Is) and l.endswith('.all') and r == 'None':
                    return False
                if isinstance(e.ops[0], ast.In) and l == ps[2] and r.endswith('.all'):
                    return True
            return None
        g2 = excluded_by(cfgh.scenario_facts(cfgh.stmt_of(c)), origin_exports)
        chk.ob('R07.2', f'{MV}._handleReExport :: not moved when the origin exports it itself', g2,
               'dominated by `origin.all is None or origin_name not in origin.all`' if g2 else
               'an object the defining module lists in its own __all__ would be moved away from it', repo.loc(hr.mod, c))
        # the object to move is looked up in the defining module under the name it has THERE (the exported name only names the destination)
        lookups = [x for x in calls_in(hr) if isinstance(x.func, ast.Attribute) and x.args and
                   ((x.func.attr == 'get' and norm(x.func.value) == f'{ps[4]}.contents') or
                    (x.func.attr in ('resolveName', 'expandName') and norm(x.func.value) == ps[4]))] + \
                  [x for x in hr.walk() if isinstance(x, ast.Subscript) and norm(x.value) == f'{ps[4]}.contents']
        looked_up = [norm(x.args[0] if isinstance(x, ast.Call) else x.slice) for x in lookups]
        if not lookups:
            # the lookup extracted into a private helper of the class: `ob = self._lookup(origin_module, origin_name)` - its parameters stand for the arguments
            for hc in calls_in(hr):
                for g_ in [g for g in repo.funcs.values() if g.cls is hr.cls and g is not hr and g.name == call_name(hc) and g.name.startswith('_')]:
                    gpar = [p_.arg for p_ in g_.params() if p_.arg not in ('self', 'cls')]
                    amap = {gp_: norm(a_) for gp_, a_ in zip(gpar, hc.args)}
                    amap.update({k.arg: norm(k.value) for k in hc.keywords if k.arg})
                    for x in calls_in(g_):
                        if isinstance(x.func, ast.Attribute) and x.args and \
                                ((x.func.attr == 'get' and norm(x.func.value).endswith('.contents') and amap.get(norm(x.func.value)[:-len('.contents')]) == ps[4]) or
                                 (x.func.attr in ('resolveName', 'expandName') and amap.get(norm(x.func.value)) == ps[4])):
                            lookups.append(x)
                            looked_up.append(amap.get(norm(x.args[0]), norm(x.args[0])))
                    for x in g_.walk():
                        if isinstance(x, ast.Subscript) and norm(x.value).endswith('.contents') and amap.get(norm(x.value)[:-len('.contents')]) == ps[4]:
                            lookups.append(x)
                            looked_up.append(amap.get(norm(x.slice), norm(x.slice)))
        if not lookups:
            chk.error('R07.2: the lookup of the re-exported object in the origin module was not found in _handleReExport')
        badl = [x for x, nm_ in zip(lookups, looked_up) if nm_ != ps[2]]
        chk.ob('R07.2', f'{MV}._handleReExport :: the object is looked up under its name in the defining module', not badl,
               f'{len(lookups)} lookup(s) in {ps[4]} use {ps[2]}' if not badl else
               f'`{norm(badl[0])[:60]}` looks in the defining module under another name than {ps[2]}: for `from m import A as B` with B exported, '
               'a different object of m that happens to be called B is moved and A stays where it was', repo.loc(hr.mod, badl[0] if badl else c))
        a = c.args
        curv = {t.id for n in hr.walk() if isinstance(n, ast.Assign) and norm(n.value) == 'self.builder.current' for t in n.targets if isinstance(t, ast.Name)}
        ok = len(a) == 2 and norm(a[1]) == ps[3] and (norm(a[0]) in curv or norm(a[0]) == 'self.builder.current')
        chk.ob('R07.2', f'{MV}._handleReExport :: moved to the current module under the exported name', ok, norm(c), repo.loc(hr.mod, c))
    ge = repo.func(f'{MV}._getCurrentModuleExports')
    # scenario "the current scope is NOT a module": whatever can be returned in it is the empty list - a literal `[]`, or a local whose assignments that
    # are possible in the scenario are all `[]` (either spelling: `if isinstance(...): ... else: exports = []` or `if not isinstance(...): return []`)
    cfge = CFG(ge)

    def not_module(e: ast.AST) -> Optional[bool]:
        if isinstance(e, ast.Call) and call_name(e) == 'isinstance' and len(e.args) == 2 and norm(e.args[1]).endswith('Module'):
            return False
        return None

    def empty_list(e: Optional[ast.AST]) -> bool:
        return isinstance(e, ast.List) and not e.elts
    ok = False
    rets_ge = [r for r in ge.walk() if isinstance(r, ast.Return) and not excluded_by(cfge.scenario_facts(r), not_module)]
    if rets_ge:
        ok = True
        for r in rets_ge:
            if empty_list(r.value):
                continue
            if isinstance(r.value, ast.Name):
                vals_s = [a.value for a in ge.walk() if isinstance(a, ast.Assign) and any(isinstance(t, ast.Name) and t.id == r.value.id for t in a.targets) and
                          not excluded_by(cfge.scenario_facts(a), not_module)]
                if vals_s and all(empty_list(v) for v in vals_s):
                    continue
            ok = False
    chk.ob('R07.2', f'{MV}._getCurrentModuleExports :: nothing is exported from class/function scopes', ok,
           'exports = [] unless the current scope is a module' if ok else 'imports inside classes could trigger a move', ge.loc)
    users = [f.qn for f in repo.funcs.values() for c in calls_in(f) if call_name(c) == '_handleReExport']
    ok = sorted(set(users)) == sorted({f'{MV}._importAll', f'{MV}._importNames'})
    chk.ob('R07.2', f'{MV}._handleReExport :: called for plain and star imports', ok, ', '.join(sorted(set(users))), hr.loc)
    for q in (f'{MV}._importAll', f'{MV}._importNames'):
        f = repo.func(q)
        cf = CFG(f)
        for c in calls_in(f, lambda c: call_name(c) == '_handleReExport'):
            # when the move happened the local alias must not be (re)written for that name: in the scenario "this call returned True" every alias store
            # that the call can reach is excluded by its dominating facts (`if moved is True: continue` or `if moved is not True: alias = ...`)
            resv = {t.id for n in f.walk() if isinstance(n, ast.Assign) and n.value is c for t in n.targets if isinstance(t, ast.Name)}

            # operands evaluated before the call in the same `and` were true (short circuit), in the same `or` false
            before_true = set()
            before_false = set()
            x_ = c
            for p_ in parents(c):
                if isinstance(p_, ast.BoolOp):
                    idx = next((i for i, v in enumerate(p_.values) if v is x_), None)
                    if idx is not None:
                        (before_true if isinstance(p_.op, ast.And) else before_false).update(id(v) for v in p_.values[:idx])
                if isinstance(p_, ast.stmt):
                    break
                x_ = p_

            def moved(e: ast.AST) -> Optional[bool]:
                if id(e) in before_true:
                    return True
                if id(e) in before_false:
                    return False
                if e is c or (isinstance(e, ast.Name) and e.id in resv):
                    return True
                if isinstance(e, ast.Compare) and len(e.ops) == 1 and (e.left is c or (isinstance(e.left, ast.Name) and e.left.id in resv)) and \
                        isinstance(e.comparators[0], ast.Constant) and e.comparators[0].value is True and isinstance(e.ops[0], (ast.Is, ast.Eq)):
                    return True
                return None
            al = [n for n in f.walk() if isinstance(n, ast.Assign) and any(isinstance(t, ast.Subscript) and '_localNameToFullName' in norm(t.value) for t in n.targets)]
            after = cf.reachable(cf.stmt_of(c), no_exc=True)
            al_after = [n for n in al if id(n) in after and n is not cf.stmt_of(c)]
            skip = all(excluded_by(cf.scenario_facts(n), moved) for n in al_after)
            chk.ob('R07.2', f'{q} :: a moved name gets no import alias', skip and bool(al),
                   'every alias store the call reaches is excluded when the re-export succeeded (the object itself is now a member)' if skip else
                   'after the move the name is also recorded as an alias to the old location', repo.loc(f.mod, c))
    # star import: the names come from the origin module's members AND from its own imports / the aliases reparent() left there, so the
    # alias recorded in the importing module must be the origin module's expansion of the name, not `<origin>.<name>` glued together
    ia = repo.func(f'{MV}._importAll')
    modv = {t.id for n in ia.walk() if isinstance(n, ast.Assign) and isinstance(n.value, ast.Call) and call_name(n.value) == 'getProcessedModule'
            for t in n.targets if isinstance(t, ast.Name)}
    bound = {t.id: n.value.attr for n in ia.walk() if isinstance(n, ast.Assign) and isinstance(n.value, ast.Attribute) and
             isinstance(n.value.value, ast.Name) and n.value.value.id in modv for t in n.targets if isinstance(t, ast.Name)}
    stores = [n for n in ia.walk() if isinstance(n, ast.Assign) and any(isinstance(t, ast.Subscript) and '_localNameToFullName' in norm(t.value) for t in n.targets)]
    if not modv or not stores:
        raise AnalysisError('R07.2: _importAll no longer records the star-imported names in _localNameToFullName_map / no getProcessedModule result')
    EXPANDERS = ('expandName', '_localNameToFullName')
    for st in stores:
        v = st.value
        via = None
        if isinstance(v, ast.Call):
            if isinstance(v.func, ast.Attribute) and isinstance(v.func.value, ast.Name) and v.func.value.id in modv:
                via = v.func.attr
            elif isinstance(v.func, ast.Name) and v.func.id in bound:
                via = bound[v.func.id]
        ok = via in EXPANDERS
        chk.ob('R07.2', f'{MV}._importAll :: star-imported names are expanded by the module they come from', ok,
               f'alias = <origin module>.{via}(name)' if ok else
               f'`{norm(st)[:70]}`: a name the origin module itself imported, or one that was moved away from it by a re-export, is recorded under '
               '`<origin>.<name>`, where nothing is documented - bases, annotations and links through the star import stop resolving', repo.loc(ia.mod, st))
    chk.require('R07.2', 8)

    # ------------------------------------------------------------------ R07.3
    fo = repo.func('pydoctor.model.System.find_object')
    ok = any(call_name(c) == 'expandName' for c in calls_in(fo)) and any(call_name(c) == 'objForFullName' for c in calls_in(fo))
    chk.ob('R07.3', 'model.System.find_object :: follows the alias left at the old location', ok,
           'objForFullName(name) else objForFullName(root.expandName(rest))' if ok else 'find_object no longer chases the alias of a moved object', fo.loc)
    hi = repo.func('pydoctor.extensions.zopeinterface._handle_implemented')
    ok = any(call_name(c) == 'find_object' for c in calls_in(hi)) and not any(call_name(c) == 'objForFullName' for c in calls_in(hi))
    chk.ob('R07.3', 'zopeinterface._handle_implemented :: stored interface names are re-resolved', ok,
           'implementer.system.find_object(iface_name)' if ok else 'stored qualified names are looked up directly: a re-exported interface is not found', hi.loc)
    upd = any(isinstance(n, ast.Assign) and any(isinstance(t, ast.Subscript) and 'implements_directly' in norm(t.value) for t in n.targets) for n in hi.walk())
    chk.ob('R07.3', 'zopeinterface._handle_implemented :: outdated names are rewritten', upd, 'implements_directly[idx] = iface.fullName()', hi.loc)
    cm = repo.func('pydoctor.model.compute_mro.init_finalbaseobjects')
    ok = any(call_name(c) == 'resolveName' for c in calls_in(cm)) and any('fullName()' in norm(n) for n in cm.walk() if isinstance(n, ast.Call) and call_name(n) == 'append')
    chk.ob('R07.3', 'model.compute_mro :: bases re-resolved in post-processing, final names taken from the objects', ok,
           'finalbases.append(base.fullName())' if ok else 'base names are kept as recorded at visit time', cm.loc)
    lk = repo.func('pydoctor.linker._EpydocLinker._resolve_identifier_xref')
    ok = any(call_name(c) == 'find_object' for c in calls_in(lk)) or any(call_name(c) in ('resolveName', 'expandName') for c in calls_in(lk))
    chk.ob('R07.3', 'linker._resolve_identifier_xref :: cross-references resolve through the alias machinery', ok, 'resolveName / find_object', lk.loc)
    # a consumer that imported the object by name from the defining module holds `old.module.Name`; expandName must lead from there to the
    # moved object: either the lookup re-resolves a name nothing is documented under, or the move rewrites the consumers' import tables
    en = repo.func(f'{DOC}.expandName')
    cfe = CFG(en)
    look = [c for c in calls_in(en) if call_name(c) == 'objForFullName']
    if not look:
        raise AnalysisError('R07.3: expandName no longer looks the expanded name up with objForFullName')
    RERESOLVE = ('find_object', 'expandName', '_expandName', 'resolveName', '_resolveAlias')
    again = [c for c in calls_in(en) if call_name(c) in RERESOLVE and cfe.stmt_of(c) is not cfe.stmt_of(look[0]) and
             id(cfe.stmt_of(c)) in cfe.reachable(cfe.stmt_of(look[0]), no_exc=True)]
    rewrites = [n for n in rp.walk() if isinstance(n, (ast.For, ast.While)) and
                any(isinstance(x, ast.Subscript) and '_localNameToFullName_map' in norm(x.value) and isinstance(getattr(x, 'ctx', None), ast.Store) for x in ast.walk(n))]
    ok = bool(again) or bool(rewrites)
    chk.ob('R07.3', f'{DOC}.expandName :: an import of the old location of a moved object is re-resolved', ok,
           (f'`{norm(again[0])[:50]}` after the failed lookup' if again else 'reparent rewrites the import tables of the consumers') if ok else
           'a name bound by `from defining_module import Name` expands to `defining_module.Name`; when nothing is documented under it the loop just '
           'breaks - the alias reparent() left in the defining module is only consulted for dotted references (`defining_module.Name` written out), '
           'so a base class / annotation / cross-reference through the imported bare name does not reach the moved object', en.loc)
    # find_object: the component compared with the root names is the FIRST component of the outdated name, the rest is expanded from that root
    sp_ = [c for c in calls_in(fo) if call_name(c) in ('split', 'rsplit', 'partition', 'rpartition') and c.args and isinstance(c.args[0], ast.Constant) and c.args[0].value == '.']
    if not sp_:
        raise AnalysisError('R07.3: find_object no longer splits the outdated name at a dot')
    okr = all(call_name(c) in ('split', 'partition') for c in sp_) and all(call_name(c) != 'split' or (len(c.args) > 1 and norm(c.args[1]) == '1') for c in sp_)
    chk.ob('R07.3', 'model.System.find_object :: the outdated name is split after its root component', okr,
           f'{norm(sp_[0])}' if okr else
           f'`{norm(sp_[0])}` splits at the LAST dot: the part compared with the root names is only a root for two-component names - `pkg._impl.Widget` '
           '(a defining module inside a package) is never matched and the alias left by the move is not consulted', repo.loc(fo.mod, sp_[0]))
    # the walk up the object tree consults every scope, the root included: the loop is controlled by the cursor itself, not by its parent
    wl = [n for n in lk.walk() if isinstance(n, ast.While) and any(call_name(c) == 'resolveName' for st in n.body for c in ast.walk(st) if isinstance(c, ast.Call))]
    # ... or the walk is a private generator of the class that yields the cursor (`for src in self._enclosing_scopes(): src.resolveName(...)`)
    wl_gen: List[Tuple[ast.While, str]] = []
    for fl in [n for n in lk.walk() if isinstance(n, ast.For) and isinstance(n.iter, ast.Call) and isinstance(n.target, ast.Name) and
               any(isinstance(c, ast.Call) and call_name(c) == 'resolveName' and isinstance(c.func, ast.Attribute) and norm(c.func.value) == n.target.id
                   for st in n.body for c in ast.walk(st))]:
        for g_ in [g for g in repo.funcs.values() if g.cls is lk.cls and g is not lk and g.name == call_name(fl.iter) and g.name.startswith('_')]:
            for w_ in [x for x in g_.walk() if isinstance(x, ast.While)]:
                ys = [y.value.id for st in w_.body for y in ast.walk(st) if isinstance(y, ast.Yield) and isinstance(y.value, ast.Name)]
                if ys:
                    wl_gen.append((w_, ys[0]))
    if not wl and not wl_gen:
        raise AnalysisError('R07.3: the walk-up loop of _resolve_identifier_xref was not found')
    for n, cur0 in [(w_, None) for w_ in wl] + wl_gen:
        cur_ = cur0 or next((c.func.value.id for st in n.body for c in ast.walk(st) if isinstance(c, ast.Call) and call_name(c) == 'resolveName' and
                             isinstance(c.func, ast.Attribute) and isinstance(c.func.value, ast.Name)), None)
        okw = cur_ is not None and not any(isinstance(x, ast.Attribute) and x.attr == 'parent' for x in ast.walk(n.test)) and \
            any(isinstance(x, ast.Name) and x.id == cur_ for x in ast.walk(n.test))
        chk.ob('R07.3', 'linker._resolve_identifier_xref :: the walk up the tree includes the root', okw,
               f'while {norm(n.test)}' if okw else
               f'`while {norm(n.test)}` stops before the root object is consulted: a reference by old qualified name written in the docstring of a top-level '
               'module or package is not found', repo.loc(lk.mod, n))
    chk.require('R07.3', 8)

    # ------------------------------------------------------------------ R07.4
    # `colorize_*pyval(E, refmap={K: full name})` bypasses the linker for the names the map knows (the base class was resolved already and may have moved
    # since).  The colorizer looks the map up with the names *written in E*, so K has to be the written spelling: a name bound by the same unpacking
    # target as E (the (text, node) pairs of Class.rawbases) or something computed from E - never a name taken from the resolved object.
    n74 = 0
    for f in repo.funcs.values():
        for c in calls_in(f):
            if call_name(c) not in ('colorize_pyval', 'colorize_inline_pyval') or not c.args:
                continue
            kw = next((k.value for k in c.keywords if k.arg == 'refmap'), None)
            if kw is None or (isinstance(kw, ast.Constant) and kw.value is None) or f.name in ('colorize_pyval', 'colorize_inline_pyval'):
                continue
            maps = values_of(f, kw.id) if isinstance(kw, ast.Name) else [kw]
            # a conditional expression has two candidate values (`{...} if base is not None else None`)
            flat: List[ast.AST] = []
            for m_ in maps:
                stack = [m_]
                while stack:
                    y = stack.pop()
                    if isinstance(y, ast.IfExp):
                        stack += [y.body, y.orelse]
                    else:
                        flat.append(y)
            maps = flat
            expr = c.args[0]
            siblings: Set[str] = set()
            if isinstance(expr, ast.Name):
                for n in f.walk():
                    tg = n.target if isinstance(n, (ast.For, ast.comprehension)) else n.targets[0] if isinstance(n, ast.Assign) else None
                    if tg is None:
                        continue
                    for t in ast.walk(tg):
                        if isinstance(t, (ast.Tuple, ast.List)) and any(isinstance(e, ast.Name) and e.id == expr.id for e in t.elts):
                            siblings |= {e.id for e in t.elts if isinstance(e, ast.Name)}
            for m in maps:
                if isinstance(m, ast.Constant) and m.value is None:
                    continue
                n74 += 1
                if not isinstance(m, ast.Dict):
                    chk.ob('R07.4', f'{f.qn} :: the bypass map is keyed by the written spelling', False,
                           f'`{norm(m)[:60]}` is not a literal map: its keys cannot be related to the expression', repo.loc(f.mod, m))
                    continue
                bad = [k for k in m.keys if k is None or not {x.id for x in ast.walk(k) if isinstance(x, ast.Name)} <= siblings or
                       not any(isinstance(x, ast.Name) for x in ast.walk(k))]
                chk.ob('R07.4', f'{f.qn} :: the bypass map is keyed by the written spelling', not bad,
                       f'keys {[norm(k) for k in m.keys]} are bound together with the expression `{norm(expr)}`' if not bad else
                       f'key `{norm(bad[0]) if bad[0] is not None else "**"}` does not come from the expression `{norm(expr)}` it is rendered with: the colorizer '
                       'looks the map up with the names written in the source, so a base class imported under an alias, or re-exported under another name, '
                       'misses the map and falls back to the stale import - the base is shown as plain text instead of a link to the moved class',
                       repo.loc(f.mod, m))
    if n74 < 1:
        raise AnalysisError('R07.4: no colorizer call with a refmap found (1 confirmed: templatewriter.pages.format_class_signature)')
    chk.require('R07.4', 1)

    # ------------------------------------------------------------------ R07.5 name expansion reads the CURRENT bindings
    # a move changes what names mean for every scope of the system (the consumers of the old location, not only the two modules involved).  The resolution
    # functions are pure readers of contents / the import map today; a result kept in an attribute of the scope survives the move unless the mover drops
    # the kept results of ALL scopes (a loop over system.allobjects, or one system-wide table, cleared in reparent)
    RES = ('expandName', 'resolveName', '_localNameToFullName', 'isNameDefined', '_resolveName')
    mm_ = repo.mod('pydoctor.model')
    rp_ = repo.func(f'{DOC}.reparent')
    n75 = 0
    for f in sorted(repo.funcs.values(), key=lambda f: f.qn):
        if f.mod is not mm_ or f.name not in RES or f.cls is None:
            continue
        n75 += 1
        kept: List[Tuple[str, ast.AST]] = []
        for n in f.walk():
            tg: List[ast.AST] = []
            if isinstance(n, ast.Assign):
                tg = list(n.targets)
            elif isinstance(n, (ast.AugAssign, ast.AnnAssign)):
                tg = [n.target]
            elif isinstance(n, ast.Call) and isinstance(n.func, ast.Attribute) and n.func.attr in ('setdefault', 'update', 'add', 'append', '__setitem__'):
                tg = [n.func.value]
            for t in tg:
                base = t
                while isinstance(base, ast.Subscript):
                    base = base.value
                if isinstance(base, ast.Attribute) and (dotted(base.value) == 'self' or (dotted(base.value) or '').startswith('self.')):
                    kept.append((base.attr, n))
        if not kept:
            chk.ob('R07.5', f'{f.qn} :: reads the current bindings, keeps no result', True, 'no store into the scope or the system', f.loc)
            continue
        for attr, n in kept:
            # invalidation by the mover: `<x>.<attr>.clear()` / `<x>.<attr> = {}` inside a loop over the objects of the system, or on the system itself
            inval = False
            for c in rp_.walk():
                hit = (isinstance(c, ast.Call) and isinstance(c.func, ast.Attribute) and c.func.attr == 'clear' and isinstance(c.func.value, ast.Attribute) and c.func.value.attr == attr) or \
                    (isinstance(c, ast.Assign) and any(isinstance(t, ast.Attribute) and t.attr == attr for t in c.targets))
                if not hit:
                    continue
                owner = c.func.value.value if isinstance(c, ast.Call) else next(t.value for t in c.targets if isinstance(t, ast.Attribute) and t.attr == attr)  # type: ignore[attr-defined]
                system_wide = 'system' in norm(owner) or any(isinstance(p_, ast.For) and 'allobjects' in norm(p_.iter) for p_ in parents(c))
                inval = inval or system_wide
            chk.ob('R07.5', f'{f.qn} :: a kept result (self.{attr}) is dropped for every scope when an object moves', inval,
                   'reparent() clears it system-wide' if inval else
                   f'`{norm(n)[:60]}` keeps expansions per scope, and reparent() does not drop them for all scopes: a consumer analysed before the re-export still gets the '
                   'old location of the object back after the move - its annotations / bases name a place where nothing is documented any more (and the result depends on the '
                   'order in which the modules were analysed)', repo.loc(f.mod, n))
    if n75 < 6:
        raise AnalysisError(f'R07.5: {n75} name-resolution functions found in model.py (8 confirmed: expandName, resolveName, 3x _localNameToFullName, 3x isNameDefined)')
    chk.require('R07.5', 6)

    # ------------------------------------------------------------------ R07.2 (addition): `__all__: List[str] = [...]` is an `__all__`
    # the module-level metadata (__all__, __docformat__) is collected by findModuleLevelAssign; the statement classes that bind a plain name to a value
    # at module level are ast.Assign and ast.AnnAssign (oracle: the interpreter's ast) - an annotated `__all__` must decide re-exports like a bare one
    fm = repo.func('pydoctor.astbuilder.findModuleLevelAssign')
    classes_ = {x.attr for c in calls_in(fm) if call_name(c) == 'isinstance' and len(c.args) == 2 for x in ast.walk(c.args[1]) if isinstance(x, ast.Attribute) and dotted(x.value) == 'ast'}
    want_ = {k for k in ('Assign', 'AnnAssign') if hasattr(ast, k)}
    chk.ob('R07.2', 'pydoctor.astbuilder.findModuleLevelAssign :: annotated assignments are module-level assignments too', want_ <= classes_,
           f'handles {sorted(classes_)}' if want_ <= classes_ else
           f'only {sorted(classes_)} is collected: `__all__: List[str] = ["C"]` leaves Module.all at None, `C` stays under `pkg._impl` and nothing is reported '
           '(`__docformat__: str = ...` is lost the same way)', fm.loc)
