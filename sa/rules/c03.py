"""
C03 - what is documented in each namespace is what Python defines there.  Claimed narrowly (kind tables and shape facts):
  R03.1 builtin exception table covers the interpreter's BaseException subclasses
  R03.2 decorator -> kind siblings; nested-scope skipping siblings
  R03.3 control-flow block table = statement classes of the interpreter that own a body
  R03.4 Documentable.docstring is only assigned cleaned / live / literal values
  R03.5 the `__main__` guard is recognised by equality only
  R03.6 an existing Function object is re-entered only for overloads
  R03.7 the walk descends into every block executed in addition to the body (loop/try else, finally)
  R03.8 sibling variable handlers: an attribute found without a kind gets one
  R03.9 every name-binding target form of an assignment is taken apart (Tuple, List, Starred, nested)
  R03.10 x = wrapper(x) changes a kind only for the same name and whatever kind the function had (the last wrapper wins); no alias for a documented name
  R03.11 the pending attribute-docstring target is cleared when a property has been handled
  R03.12 class-level assignments: an inherited non-attribute vetoes the variable only when the value wraps it; binding `__doc__` sets the docstring;
         a name re-bound by unpacking forgets the value of its earlier assignment
Does not decide: the differential statement against the interpreter (members, docstrings, kinds for every program).
"""
from __future__ import annotations

import ast
import builtins
import sys
from typing import Dict, List, Optional, Set, Tuple

from ..core import AnalysisError, Func, Repo, dotted, norm, parents
from ..cfg import CFG
from ..owners import writers
from ..report import Check
from ..util import scope_nodes, call_name, calls_in, names_assigned_from, is_name_in, values_of, loop_exits

MV = 'pydoctor.astbuilder.ModuleVistor'


def _static_version_test(t: ast.AST) -> Optional[bool]:
    """Evaluate `sys.version_info >= (3, N)` against the running interpreter (the oracle for the language)."""
    if isinstance(t, ast.Compare) and len(t.ops) == 1 and (dotted(t.left) or '').endswith('version_info') and \
            isinstance(t.comparators[0], ast.Tuple) and all(isinstance(e, ast.Constant) for e in t.comparators[0].elts):
        tup = tuple(e.value for e in t.comparators[0].elts)  # type: ignore[attr-defined]
        cur = tuple(sys.version_info[:len(tup)])
        op = t.ops[0]
        return {ast.GtE: cur >= tup, ast.Gt: cur > tup, ast.Lt: cur < tup, ast.LtE: cur <= tup, ast.Eq: cur == tup}.get(type(op))
    return None


def const_str_(e: Optional[ast.AST]) -> Optional[str]:
    return e.value if isinstance(e, ast.Constant) and isinstance(e.value, str) else None


def run(repo: Repo, chk: Check, thorough: bool = False) -> None:
    chk.explanation = ('table extraction (exception names, control-flow statement classes) compared with the running interpreter\'s builtins/ast '
                       'modules; sibling comparison of the decorator->kind branches; who-may-write census of Documentable.docstring; '
                       'shape of the __main__ guard test and of the function re-entry guard')
    chk.assumptions = ['the oracle for the language is the interpreter running the check (same version as /venv)',
                       'equality of the documented namespace with what CPython binds is NOT decided (needs execution against the interpreter)']
    model = repo.mod('pydoctor.model')

    # ------------------------------------------------------------------ R03.1
    tbl = model.assigns.get('_STD_LIB_EXCEPTIONS')
    if tbl is None or not isinstance(tbl, (ast.Tuple, ast.List, ast.Set)):
        raise AnalysisError('model._STD_LIB_EXCEPTIONS is not a literal table any more')
    names = {e.value for e in tbl.elts if isinstance(e, ast.Constant)}
    want = sorted(n for n in dir(builtins) if isinstance(getattr(builtins, n), type) and issubclass(getattr(builtins, n), BaseException))
    for n in want:
        if n.startswith('_'):
            continue
        chk.ob('R03.1', f'model._STD_LIB_EXCEPTIONS :: {n}', n in names,
               'listed' if n in names else f'`class A({n})` is documented as a plain class: {n} is a builtin exception of this interpreter '
               'but is missing from the table is_exception() consults', 'pydoctor/model.py')
    ie = repo.func('pydoctor.model.is_exception')
    from ..util import scope_nodes
    ok = any(isinstance(n, ast.Compare) and isinstance(n.ops[0], ast.In) and '_STD_LIB_EXCEPTIONS' in norm(n) for n in scope_nodes(repo, ie)) and \
        any(call_name(c) == 'mro' for c in calls_in(ie))
    chk.ob('R03.1', 'model.is_exception :: consults the table along the MRO', ok, 'for base in cls.mro(True, False): base in _STD_LIB_EXCEPTIONS' if ok else
           'is_exception no longer walks the MRO / the table', ie.loc)
    # the names in the table are bare (`ValueError`): a base written with its module - `class E(builtins.Exception)` expands to `builtins.Exception` -
    # names the same class, so the qualifier has to be taken off (or the table has to list the qualified spelling too) before the lookup
    from ..util import scope_nodes
    qualified = any(isinstance(x, ast.Constant) and isinstance(x.value, str) and x.value.startswith('builtins') for x in scope_nodes(repo, ie)) or \
        any(str(n_).startswith('builtins.') for n_ in names)
    chk.ob('R03.1', 'model.is_exception :: a base spelled builtins.<Name> is the builtin exception', qualified,
           'the `builtins.` qualifier is handled' if qualified else
           '`class E(builtins.Exception)` is documented as a plain class: the expanded base name `builtins.Exception` is compared with the bare names of the table',
           ie.loc)
    # "along the MRO" means to its end: the only verdict the loop may give early is `True` under the table test.  Any other exit from the loop (the kind an
    # intermediate project class happens to have at that moment, a `break`) makes the answer depend on the order in which the classes are post-processed
    # and misses an exception base that comes after a mix-in
    loops_ie = [lp for lp in ie.walk() if isinstance(lp, ast.For) and isinstance(lp.iter, ast.Call) and call_name(lp.iter) == 'mro']
    # `return any(<table test> for base in cls.mro(...))` searches the whole linearisation by construction
    quant_ie = [c for c in calls_in(ie) if call_name(c) == 'any' and c.args and isinstance(c.args[0], (ast.GeneratorExp, ast.ListComp)) and
                any(isinstance(g.iter, ast.Call) and call_name(g.iter) == 'mro' for g in c.args[0].generators)]
    if quant_ie and not loops_ie:
        chk.ob('R03.1', 'model.is_exception :: the whole linearisation is searched', True, 'any(... for base in cls.mro(...))', ie.loc)
    elif not loops_ie:
        raise AnalysisError('R03.1: the loop over cls.mro(...) of is_exception was not found')
    cfie = CFG(ie)
    for lp in loops_ie:
        early = [x for x in loop_exits(lp) if not (isinstance(x, ast.Return) and isinstance(x.value, ast.Constant) and x.value.value is True and
                                                   any(pol and isinstance(t, ast.Compare) and isinstance(t.ops[0], ast.In) and '_STD_LIB_EXCEPTIONS' in norm(t)
                                                       for t, pol in cfie.dominating_tests(x)))]
        chk.ob('R03.1', 'model.is_exception :: the whole linearisation is searched', not early,
               'the only exit of the loop is `return True` under the table test' if not early else
               f'`{norm(early[0])[:60]}` ends the search at an intermediate class: `class E(Tagged, ValueError)` (a mix-in first) and a class whose base is post-processed '
               'later are documented as plain classes although Python has exception classes', repo.loc(ie.mod, early[0] if early else lp))
    chk.require('R03.1', 61)

    # ------------------------------------------------------------------ R03.2
    hf = repo.func(f'{MV}._handleFunctionDef')
    flags = {}
    # the flags may be computed in a private helper that returns them as a tuple: `a, b, c = self._helper(...)` with `return x, y, z` renames x->a ...
    rename: Dict[str, str] = {}
    flag_scope: List[ast.AST] = list(hf.walk())
    for a_ in hf.walk():
        if isinstance(a_, ast.Assign) and isinstance(a_.targets[0], ast.Tuple) and isinstance(a_.value, ast.Call):
            for g_ in repo.funcs.values():
                if g_.mod is hf.mod and g_.name == call_name(a_.value) and g_.cls is hf.cls:
                    for r_ in g_.walk():
                        if isinstance(r_, ast.Return) and isinstance(r_.value, ast.Tuple) and len(r_.value.elts) == len(a_.targets[0].elts):
                            for x_, t_ in zip(r_.value.elts, a_.targets[0].elts):
                                if isinstance(x_, ast.Name) and isinstance(t_, ast.Name):
                                    rename[x_.id] = t_.id
                    flag_scope += list(g_.walk())
    for n in flag_scope:
        if isinstance(n, ast.If) and isinstance(n.test, ast.Compare) and isinstance(n.test.comparators[0], ast.List):
            lits = [e.value for e in n.test.comparators[0].elts if isinstance(e, ast.Constant)]
            for st in n.body:
                if isinstance(st, ast.Assign) and isinstance(st.targets[0], ast.Name) and isinstance(st.value, ast.Constant) and st.value.value is True:
                    flags[lits[0] if lits else '?'] = rename.get(st.targets[0].id, st.targets[0].id)
    kinds = {}
    for n in hf.walk():
        if isinstance(n, ast.Assign) and any(isinstance(t, ast.Attribute) and t.attr == 'kind' for t in n.targets) and 'DocumentableKind' in norm(n.value):
            conds = [norm(p.test) for p in parents(n) if isinstance(p, ast.If)]
            kinds[norm(n.value).split('.')[-1]] = conds
    ok = flags.get('classmethod') and flags.get('staticmethod') and \
        any(flags['classmethod'] in c for c in kinds.get('CLASS_METHOD', [])) and any(flags['staticmethod'] in c for c in kinds.get('STATIC_METHOD', []))
    chk.ob('R03.2', f'{MV}._handleFunctionDef :: decorator -> kind', bool(ok),
           f'@classmethod -> CLASS_METHOD, @staticmethod -> STATIC_METHOD (flags {flags})' if ok else
           f'decorator flags {flags} do not lead to the matching kinds {kinds}', hf.loc)
    old = repo.func(f'{MV}._handleOldSchoolMethodDecoration')
    old_scope = scope_nodes(repo, old)
    txt = ' '.join(norm(n) for n in old_scope if isinstance(n, (ast.If, ast.Assign, ast.Dict)))
    ok2 = "'classmethod'" in txt and 'CLASS_METHOD' in txt and "'staticmethod'" in txt and 'STATIC_METHOD' in txt
    pairs_ok = True
    # the mapping written as data: {'staticmethod': STATIC_METHOD, 'classmethod': CLASS_METHOD}
    for d_ in [n for n in old_scope if isinstance(n, ast.Dict)]:
        for k_, v_ in zip(d_.keys, d_.values):
            lit_ = const_str_(k_)
            if lit_ == 'classmethod' and 'CLASS_METHOD' not in norm(v_):
                pairs_ok = False
            if lit_ == 'staticmethod' and 'STATIC_METHOD' not in norm(v_):
                pairs_ok = False
    for n in old.walk():
        if isinstance(n, ast.If) and isinstance(n.test, ast.Compare) and isinstance(n.test.comparators[0], ast.Constant):
            lit = n.test.comparators[0].value
            body = ' '.join(norm(s) for s in n.body)
            if lit == 'classmethod' and 'CLASS_METHOD' not in body:
                pairs_ok = False
            if lit == 'staticmethod' and 'STATIC_METHOD' not in body:
                pairs_ok = False
    chk.ob('R03.2', f'{MV}._handleOldSchoolMethodDecoration :: sibling of the decorator branch', ok2 and pairs_ok,
           'x = classmethod(x) -> CLASS_METHOD, x = staticmethod(x) -> STATIC_METHOD' if ok2 and pairs_ok else
           'old-style wrapping maps to different kinds than the decorator form', old.loc)
    va, vf = repo.func(f'{MV}.visit_AsyncFunctionDef'), repo.func(f'{MV}.visit_FunctionDef')
    ca = [(call_name(c), [norm(k.value) for k in c.keywords]) for c in calls_in(va)]
    cf = [(call_name(c), [norm(k.value) for k in c.keywords]) for c in calls_in(vf)]
    ok = len(ca) == 1 and len(cf) == 1 and ca[0][0] == cf[0][0] == '_handleFunctionDef' and ca[0][1] == ['True'] and cf[0][1] == ['False']
    chk.ob('R03.2', f'{MV}.visit_FunctionDef ~ visit_AsyncFunctionDef :: differ only in is_async', ok,
           '_handleFunctionDef(node, is_async=False/True)' if ok else f'{cf} vs {ca}', vf.loc)
    for q in (f'{MV}._handleFunctionDef', f'{MV}.visit_ClassDef'):
        f = repo.func(q)
        cur = names_assigned_from(f, lambda v: norm(v) == 'self.builder.current')
        skips = [n for n in f.walk() if isinstance(n, ast.Raise) and 'SkipNode' in norm(n) and
                 any(isinstance(p, ast.If) and isinstance(p.test, ast.Call) and call_name(p.test) == 'isinstance' and
                     (is_name_in(p.test.args[0], cur) or norm(p.test.args[0]) == 'self.builder.current') and
                     norm(p.test.args[1]) == 'model.Function' for p in parents(n))]
        chk.ob('R03.2', f'{q} :: definitions nested in functions are skipped', bool(skips),
               'if isinstance(parent, model.Function): raise SkipNode' if skips else 'nested definitions are no longer skipped', f.loc)
    # every decorator of a definition is looked at: the loops over `<node>.decorator_list` in the builder run to exhaustion
    n_loops = 0
    for f in repo.funcs.values():
        if f.mod.name != 'pydoctor.astbuilder':
            continue
        for n in f.walk():
            if isinstance(n, ast.For) and isinstance(n.iter, ast.Attribute) and n.iter.attr == 'decorator_list':
                n_loops += 1
                cut = [x for x in loop_exits(n)]
                chk.ob('R03.2', f'{f.qn} :: every decorator is examined', not cut,
                       'no break / return inside the loop over decorator_list' if not cut else
                       f'`{norm(cut[0])}` (line {cut[0].lineno}) leaves the loop over the decorators early: a @classmethod / @staticmethod / @property / '
                       '@overload / @x.setter written after the decorator that triggers it is ignored, the kind documented is not the one Python gives', repo.loc(f.mod, n))
    if n_loops < 2:
        raise AnalysisError(f'R03.2: {n_loops} loops over decorator_list found in astbuilder (2 confirmed: visit_ClassDef, _handleFunctionDef)')
    chk.require('R03.2', 7)

    # ------------------------------------------------------------------ R03.3
    ab = repo.mod('pydoctor.astbuilder')
    got: Set[str] = set()
    seen_def = False
    for n in ast.walk(ab.tree):
        tgt = None
        if isinstance(n, (ast.Assign, ast.AnnAssign, ast.AugAssign)):
            t = n.targets[0] if isinstance(n, ast.Assign) else n.target
            if isinstance(t, ast.Name) and t.id == '_CONTROL_FLOW_BLOCKS' and n.value is not None:
                tgt = n
        if tgt is None:
            continue
        seen_def = True
        active = True
        for p in parents(tgt):
            if isinstance(p, ast.If):
                v = _static_version_test(p.test)
                if v is False and tgt in [x for s in p.body for x in ast.walk(s)]:
                    active = False
        if active:
            got |= {d[4:] for d in (dotted(x) or '' for x in ast.walk(tgt.value)) if d.startswith('ast.')}
    if not seen_def:
        raise AnalysisError('astbuilder._CONTROL_FLOW_BLOCKS not found')
    want_cf = set()
    for c in ast.stmt.__subclasses__():
        if ('body' in c._fields or 'cases' in c._fields) and c.__name__ not in ('FunctionDef', 'AsyncFunctionDef', 'ClassDef'):
            want_cf.add(c.__name__)
    for k in sorted(want_cf):
        chk.ob('R03.3', f'astbuilder._CONTROL_FLOW_BLOCKS :: ast.{k}', k in got,
               'listed' if k in got else f'an assignment inside an `{k}` block would still be documented as a constant', 'pydoctor/astbuilder.py')
    ic = repo.func('pydoctor.astbuilder.is_constant')
    ok = any('_CONTROL_FLOW_BLOCKS' in norm(n) and 'get_parents' in norm(n) for n in ic.walk() if isinstance(n, ast.Call))
    chk.ob('R03.3', 'astbuilder.is_constant :: consults the table for every ancestor', ok, 'any(isinstance(n, _CONTROL_FLOW_BLOCKS) for n in get_parents(value))' if ok else
           'is_constant no longer checks the ancestors against the table', ic.loc)
    chk.require('R03.3', 9)

    # ------------------------------------------------------------------ R03.4
    ws = writers(repo, 'docstring', ['pydoctor.model.Documentable'], unknown_counts=False, skip_modules=('pydoctor.sphinx_ext',))
    for w in ws:
        v = w.node.value if isinstance(w.node, (ast.Assign, ast.AnnAssign)) else None
        ok = False
        why = f'`{norm(w.node)[:60]}` stores an uncleaned docstring'
        if v is not None:
            if isinstance(v, ast.Constant) and v.value == '':
                ok, why = True, 'empty docstring (property without docstring)'
            elif isinstance(v, ast.Attribute) and v.attr == '__doc__':
                ok, why = True, 'live __doc__ of an introspected object'
            elif isinstance(v, ast.Name):
                srcs = [n for n in w.func.walk() if isinstance(n, (ast.Assign, ast.AnnAssign)) and
                        any(v.id in [x.id for x in ast.walk(t) if isinstance(x, ast.Name)] for t in (n.targets if isinstance(n, ast.Assign) else [n.target]))]
                vals = [norm(s.value) for s in srcs if s.value is not None]
                if any('extract_docstring(' in x for x in vals):
                    ok, why = True, 'value returned by astutils.extract_docstring (inspect.cleandoc)'
            elif isinstance(v, ast.Call) and call_name(v) == 'cleandoc':
                ok, why = True, '__doc__ = <literal>, cleaned with inspect.cleandoc'
        chk.ob('R03.4', f'{w.func.qn} :: docstring <- {norm(v)[:30] if v is not None else "?"}', ok, why, w.loc)
    ed = repo.func('pydoctor.astutils.extract_docstring')
    ok = any(call_name(c) == 'cleandoc' for c in calls_in(ed)) and \
        all(any(isinstance(x, ast.Call) and call_name(x) == 'cleandoc' for x in ast.walk(r.value)) or isinstance(r.value, ast.Tuple) and
            any(isinstance(x, ast.Call) and call_name(x) == 'cleandoc' for x in ast.walk(r.value))
            for r in ed.walk() if isinstance(r, ast.Return) and r.value is not None)
    chk.ob('R03.4', 'astutils.extract_docstring :: returns inspect.cleandoc(text)', ok, 'standard indentation cleaning' if ok else
           'the docstring is returned without inspect.cleandoc', ed.loc)
    chk.require('R03.4', 5)

    # ------------------------------------------------------------------ R03.5
    im = repo.func('pydoctor.astutils.is__name__equals__main__')
    eq = any(isinstance(c, ast.Call) and call_name(c) == 'isinstance' and 'ops' in norm(c.args[0]) and 'ast.Eq' in norm(c.args[1]) for c in calls_in(im))
    one = any(isinstance(n, ast.Compare) and 'len(cmp.ops)' in norm(n) and isinstance(n.comparators[0], ast.Constant) and n.comparators[0].value == 1 for n in im.walk())
    chk.ob('R03.5', 'astutils.is__name__equals__main__ :: single equality comparison', eq and one,
           'exactly one operator, and it is ast.Eq' if eq and one else
           'the guard test no longer requires `==`: `if __name__ != "__main__":` blocks (which do run on import) would be skipped', im.loc)
    # `'__main__' == __name__` is the same guard: its body is not executed on import either, so both operand orders have to be recognised - the
    # function looks for the name `__name__` on BOTH sides of the comparison (directly, or by trying the two orders in a loop)
    cmpp = im.params()[0].arg
    sides: Set[str] = set()
    for n in im.walk():
        if isinstance(n, ast.Compare) and any(isinstance(x, ast.Constant) and x.value == '__name__' for x in ast.walk(n)):
            for x in ast.walk(n):
                if isinstance(x, ast.Attribute) and x.attr == 'id':
                    tgt = norm(x.value)
                    if tgt.startswith(cmpp + '.'):
                        sides.add(tgt)
                    elif isinstance(x.value, ast.Name):
                        # a local bound by (tuple) assignment - `left, right = cmp.left, cmp.comparators[0]`, `left, right = right, left`
                        def _origins(nm: str, depth: int = 0) -> Set[str]:
                            out_: Set[str] = set()
                            if depth > 3:
                                return out_
                            for a_ in im.walk():
                                if not isinstance(a_, ast.Assign):
                                    continue
                                for t_ in a_.targets:
                                    if isinstance(t_, ast.Name) and t_.id == nm:
                                        vals_ = [a_.value]
                                    elif isinstance(t_, (ast.Tuple, ast.List)) and isinstance(a_.value, (ast.Tuple, ast.List)) and len(t_.elts) == len(a_.value.elts):
                                        vals_ = [v_ for e_, v_ in zip(t_.elts, a_.value.elts) if isinstance(e_, ast.Name) and e_.id == nm]
                                    else:
                                        vals_ = []
                                    for v_ in vals_:
                                        if isinstance(v_, ast.Name):
                                            out_ |= _origins(v_.id, depth + 1)
                                        else:
                                            out_.add(norm(v_))
                            return out_
                        sides |= {o_ for o_ in _origins(x.value.id) if o_.startswith(cmpp + '.')}
                        # a loop / unpacking variable: which operand expressions can it be?
                        for lp in im.walk():
                            if isinstance(lp, (ast.For, ast.comprehension)) and any(isinstance(t, ast.Name) and t.id == x.value.id for t in ast.walk(lp.target)):
                                tg_names = [t for t in ast.walk(lp.target) if isinstance(t, ast.Name)]
                                pos_ = [t.id for t in tg_names].index(x.value.id) if isinstance(lp.target, (ast.Tuple, ast.List)) else None
                                for el in (lp.iter.elts if isinstance(lp.iter, (ast.Tuple, ast.List)) else []):
                                    if pos_ is not None and isinstance(el, (ast.Tuple, ast.List)) and pos_ < len(el.elts):
                                        sides.add(norm(el.elts[pos_]))
                                    elif pos_ is None:
                                        sides.add(norm(el))
    both = f'{cmpp}.left' in sides and any(s_.startswith(f'{cmpp}.comparators') for s_ in sides)
    chk.ob('R03.5', 'astutils.is__name__equals__main__ :: both operand orders are the guard', both,
           f'`__name__` is looked for in {sorted(sides)}' if both else
           f'`__name__` is only looked for in {sorted(sides)}: the body of `if \'__main__\' == __name__:` is documented although importing the module never binds it', im.loc)
    vi = repo.func(f'{MV}.visit_If')
    # on the CFG: every `raise SkipNode` of visit_If is dominated by the positive fact `is__name__equals__main__(...)` (named booleans written out)
    cfvi = CFG(vi)
    skips_vi = [n for n in vi.walk() if isinstance(n, ast.Raise) and 'SkipNode' in norm(n)]
    ok = bool(skips_vi) and all(any(pol and isinstance(t, ast.Call) and call_name(t) == 'is__name__equals__main__' for t, pol in cfvi.dominating_tests(n)) for n in skips_vi)
    chk.ob('R03.5', f'{MV}.visit_If :: only the __main__ guard is skipped', ok, 'raise SkipNode under is__name__equals__main__(node.test)' if ok else
           'visit_If prunes blocks under another condition', vi.loc)

    # ------------------------------------------------------------------ R03.6
    cfg = CFG(hf)
    rep = [c for c in calls_in(hf) if call_name(c) == 'push' and 'builder' in norm(c.func)]
    if not rep:
        chk.error('R03.6: the re-push of an existing function was not found in _handleFunctionDef')
    for c in rep:
        tests = cfg.dominating_tests(cfg.stmt_of(c))
        ok = any(pol and 'overloads' in norm(t) and 'isinstance' in norm(t) for t, pol in tests)
        chk.ob('R03.6', f'{MV}._handleFunctionDef :: {norm(c)[:40]} only for overloaded functions', ok,
               'guarded by isinstance(existing, Function) and existing.overloads' if ok else
               'a redefinition re-enters the old Function object: the second definition keeps the first one\'s docstring and kind '
               '(nothing is created for it)', repo.loc(hf.mod, c))
    # the function that may be re-entered is the one bound to that name IN THIS NAMESPACE (parent.contents), not whatever the name resolves
    # to through enclosing scopes and imports
    for c in rep:
        if not (c.args and isinstance(c.args[0], ast.Name)):
            continue
        srcs_ = [n.value for n in hf.walk() if isinstance(n, ast.Assign) and any(isinstance(t, ast.Name) and t.id == c.args[0].id for t in n.targets)]
        more = [n.value for v in srcs_ if isinstance(v, ast.Name) for n in hf.walk() if isinstance(n, ast.Assign) and
                any(isinstance(t, ast.Name) and t.id == v.id for t in n.targets)]
        lookups = [v for v in srcs_ + more if isinstance(v, ast.Call)]
        own_ns = bool(lookups) and all(call_name(v) == 'get' and isinstance(v.func, ast.Attribute) and isinstance(v.func.value, ast.Attribute) and
                                       v.func.value.attr == 'contents' for v in lookups)
        chk.ob('R03.6', f'{MV}._handleFunctionDef :: the function re-entered is the one bound in this namespace', own_ns,
               'looked up with parent.contents.get(name)' if own_ns else
               f'`{norm(lookups[0])[:60] if lookups else "?"}` resolves the name through enclosing scopes and imports: a method `Loader.load` is merged into a module-level '
               'overloaded `load()` - the method is not documented and the function shows the method\'s signature', repo.loc(hf.mod, c))
    chk.require('R03.6', 2)

    # ------------------------------------------------------------------ R03.7
    # statement-list fields of the compound statements (oracle: the ast module of the running interpreter).  The builder's walk must
    # descend into every block that is executed *in addition to* the body when the code is imported: the `else` of a loop / try and
    # the `finally` block.  (`If.orelse` is the branch not taken and `handlers` only run on an exception - both stay out by design.)
    gc = repo.func('pydoctor.astutils.NodeVisitor.get_children')
    fields_read = {c.args[1].value for c in scope_nodes(repo, gc) if isinstance(c, ast.Call) and call_name(c) == 'getattr' and len(c.args) >= 2 and isinstance(c.args[1], ast.Constant)} | \
        {n.attr for n in gc.walk() if isinstance(n, ast.Attribute) and isinstance(n.value, ast.Name) and n.value.id == gc.params()[1].arg} | \
        {e.value for n in scope_nodes(repo, gc) if isinstance(n, (ast.Tuple, ast.List, ast.Set)) for e in n.elts if isinstance(e, ast.Constant) and isinstance(e.value, str)}
    # a field may be read through a private helper that is handed its name: `yield from _iter_block(node, 'body')`
    gc_helpers = [g for g in repo.funcs.values() if g.mod is gc.mod and g is not gc and g.name.startswith('_') and any(call_name(c) == g.name for c in calls_in(gc)) and
                  any(call_name(c) == 'getattr' for c in calls_in(g))]
    for g in gc_helpers:
        fields_read |= {a.value for c in calls_in(gc) if call_name(c) == g.name for a in c.args if isinstance(a, ast.Constant) and isinstance(a.value, str)}
    if 'body' not in fields_read:
        raise AnalysisError('R03.7: NodeVisitor.get_children no longer reads the `body` field')
    additional = {}
    for nm in ('Try', 'TryStar', 'For', 'AsyncFor', 'While'):
        k_ = getattr(ast, nm, None)
        if k_ is None:
            continue
        for fld in k_._fields:
            if fld in ('orelse', 'finalbody'):
                additional.setdefault(fld, []).append(nm)
    for fld, owners in sorted(additional.items()):
        chk.ob('R03.7', f'astutils.NodeVisitor.get_children :: the `{fld}` block is walked', fld in fields_read,
               f'executed on import in addition to the body ({", ".join(owners)})' if fld in fields_read else
               f'definitions in the `{fld}` block of {", ".join(owners)} are never visited: a function / class / variable bound there on import is '
               'missing from the documentation', gc.loc)
    # `body` / `orelse` are statement LISTS on statements but single EXPRESSIONS on ast.IfExp and ast.Lambda (and the walk reaches those
    # through expression statements): a field value may only be iterated once it is known to be a list
    cfg_gc0 = CFG(gc)
    # (an iteration is a `for` loop or a `yield from`; in get_children itself or in the helper that reads the field)
    # (... or a `yield` that hands the whole field value to a caller that iterates it: `yield body` in a helper generating the blocks)
    for gcf, lp in [(g_, n) for g_ in [gc] + gc_helpers for n in g_.walk() if isinstance(n, (ast.For, ast.YieldFrom, ast.Yield))]:
        cfg_gc = cfg_gc0 if gcf is gc else CFG(gcf)
        src = lp.iter if isinstance(lp, ast.For) else lp.value
        if src is None:
            continue
        if isinstance(src, ast.Name):
            vals_ = [n.value for n in gcf.walk() if isinstance(n, (ast.Assign, ast.AnnAssign)) and n.value is not None and
                     any(isinstance(t, ast.Name) and t.id == src.id for t in (n.targets if isinstance(n, ast.Assign) else [n.target]))]
        else:
            vals_ = [src]
        from_field = any(isinstance(x, ast.Call) and call_name(x) == 'getattr' for v in vals_ for x in ast.walk(v)) or \
            any(isinstance(x, ast.Attribute) and x.attr in ('body', 'orelse', 'finalbody') for v in vals_ for x in ast.walk(v))
        if not from_field:
            continue
        guarded = any(pol and isinstance(t, ast.Call) and call_name(t) == 'isinstance' and len(t.args) == 2 and norm(t.args[0]) == norm(src) and
                      'list' in norm(t.args[1]) for t, pol in cfg_gc.dominating_tests(cfg_gc.stmt_of(lp)))
        chk.ob('R03.7', f'astutils.NodeVisitor.get_children :: `{norm(src)[:30]}` is iterated only when it is a list', guarded,
               'isinstance(..., list) dominates the loop' if guarded else
               f'`for ... in {norm(src)[:40]}` iterates a field that is a single expression on ast.IfExp / ast.Lambda: a conditional expression used as a '
               'statement (`print(a) if x else print(b)`) raises TypeError in the walk and the run aborts', repo.loc(gc.mod, lp))
    # when the extra blocks are walked only for listed statement classes, the list must name every class that has such a block
    node_p = gc.params()[1].arg
    extra_loops = [n for n in gc.walk() if isinstance(n, ast.For) and isinstance(n.iter, (ast.Tuple, ast.List)) and
                   any(isinstance(e, ast.Constant) and e.value in ('orelse', 'finalbody') for e in n.iter.elts)]
    for lp in extra_loops:
        for t, pol in cfg_gc0.dominating_tests(lp):
            if pol and isinstance(t, ast.Call) and call_name(t) == 'isinstance' and len(t.args) == 2 and norm(t.args[0]) == node_p:
                listed = {x.attr for x in ast.walk(t.args[1]) if isinstance(x, ast.Attribute) and dotted(x.value) == 'ast'}
                need = {nm for owners in additional.values() for nm in owners}
                missing = sorted(need - listed)
                chk.ob('R03.7', 'astutils.NodeVisitor.get_children :: the list of statements with extra blocks is complete', not missing,
                       f'covers {sorted(need)}' if not missing else
                       f'the extra blocks are only walked for {sorted(listed)}; ast.{", ast.".join(missing)} (of this interpreter) also has an else / finally block: '
                       'what is defined there is missing', repo.loc(gc.mod, lp))
    chk.require('R03.7', 3)

    # ------------------------------------------------------------------ R03.8
    # the three variable handlers are siblings: each may find an attribute that extract_fields() created from a docstring field (@type x,
    # @ivar x) with kind None, and an object without a kind is HIDDEN whatever the rules say.  Each must give the kind on every path that
    # goes on to store the value.
    for hn in ('_handleModuleVar', '_handleClassVar', '_handleInstanceVar'):
        h = repo.func(f'{MV}.{hn}')
        gets = [n for n in h.walk() if isinstance(n, ast.Assign) and isinstance(n.targets[0], ast.Name) and
                any(isinstance(c, ast.Call) and call_name(c) == 'get' and isinstance(c.func, ast.Attribute) and isinstance(c.func.value, ast.Attribute) and
                    c.func.value.attr == 'contents' for c in ast.walk(n.value))]
        if not gets:
            raise AnalysisError(f'R03.8: {hn} no longer looks the attribute up in contents')
        ov = gets[0].targets[0].id
        sets_kind = [n for n in h.walk() if isinstance(n, ast.Assign) and any(isinstance(t, ast.Attribute) and t.attr == 'kind' and dotted(t.value) == ov for t in n.targets)]
        cfh = CFG(h)
        store = [c for c in calls_in(h) if call_name(c) == '_storeAttrValue']
        okk = bool(sets_kind) and bool(store) and all(
            cfh.must_pass(cfh.ENTRY, cfh.stmt_of(store[0]), [k for k in sets_kind] +
                          [n for n in h.walk() if isinstance(n, ast.If) and any((norm(t) == f'{ov}.kind is None') for t in [n.test])], no_exc=True) for _ in [0])
        chk.ob('R03.8', f'{MV}.{hn} :: an attribute found without a kind gets one', okk,
               f'`{norm(sets_kind[0])[:60]}` (or its `is None` guard) is on every path to the stored value' if okk else
               f'{hn} never assigns `{ov}.kind`: a variable that a docstring field declared first (`@type timeout: int` in the module docstring, then '
               '`timeout = 30`) keeps kind None, is HIDDEN - missing from the page, the search and the inventory - and no --privacy rule can bring it back',
               h.loc)
    chk.require('R03.8', 3)

    # ------------------------------------------------------------------ R03.9
    # target forms of an assignment statement that bind names (oracle: the grammar - Name, Tuple, List, Starred, nested): each one must be
    # taken apart down to its names, otherwise the variables it binds are missing
    va = repo.func(f'{MV}.visit_Assign')
    def _ast_classes(t: ast.AST) -> Set[str]:
        return {x.attr for c in ast.walk(t) if isinstance(c, ast.Call) and call_name(c) == 'isinstance' and len(c.args) == 2 for x in ast.walk(c.args[1])
                if isinstance(x, ast.Attribute) and dotted(x.value) == 'ast'}
    # helpers: self-recursive methods of the visitor called from visit_Assign (they take a target apart level by level)
    helpers = [g for g in repo.funcs.values() if g.cls is va.cls and g is not va and
               any(call_name(c) == g.name and isinstance(c.func, ast.Attribute) and dotted(c.func.value) == 'self' for c in calls_in(va)) and
               any(call_name(c) == g.name and isinstance(c.func, ast.Attribute) and dotted(c.func.value) == 'self' for c in calls_in(g))]
    cf_va = CFG(va)
    for tcls in ('Tuple', 'List', 'Starred'):
        if helpers:
            inner = any(tcls in {a for n in h.walk() for a in _ast_classes(n)} for h in helpers)
            # the route into the helper: a dominating isinstance test over ast classes must let this form through (a Starred is only legal nested)
            routed = True
            if tcls != 'Starred':
                routed = False
                for c in calls_in(va):
                    if not any(call_name(c) == h.name for h in helpers):
                        continue
                    gate = [x for x, pol in cf_va.dominating_tests(cf_va.stmt_of(c)) if pol and _ast_classes(x)]
                    if all(tcls in _ast_classes(x) for x in gate):
                        routed = True
            ok9 = inner and routed
        else:
            # no level-by-level helper: visit_Assign itself must name every form (nested forms then stay undecided: the rule demands the helper shape)
            ok9 = tcls in {a for n in va.walk() for a in _ast_classes(n)}
        chk.ob('R03.9', f'{MV}.visit_Assign :: ast.{tcls} targets are taken apart', ok9,
               'unpacked down to the names' if ok9 else
               f'an assignment whose target is an ast.{tcls} (`[c, d] = ...`, `h, *rest = ...`, nested `e, (f, g) = ...`) binds names that are never documented',
               va.loc)
    chk.require('R03.9', 3)

    check_r03_11(repo, chk)
    check_r03_12(repo, chk)
    # ------------------------------------------------------------------ R03.10
    # `x = staticmethod(x)` changes the kind of x only when the wrapped name is the name assigned to: `create = staticmethod(make)` binds a NEW
    # name and leaves `make` a plain function
    osd = repo.func(f'{MV}._handleOldSchoolMethodDecoration')
    cf_o = CFG(osd)

    def _is_name_expr(e: ast.AST) -> bool:
        # what the assigned name is compared with: the wrapped name, read off the call (`arg.id`) or handed back by a matching helper (`arg_name`) - not a literal
        return isinstance(e, (ast.Name, ast.Attribute)) and not isinstance(e, ast.Constant)
    tp = osd.params()[1].arg
    kind_sets = [n for n in osd.walk() if isinstance(n, ast.Assign) and any(isinstance(t, ast.Attribute) and t.attr == 'kind' for t in n.targets)]
    if not kind_sets:
        raise AnalysisError('R03.10: _handleOldSchoolMethodDecoration no longer sets a kind')
    for ks in kind_sets:
        same = any(pol and isinstance(x, ast.Compare) and len(x.ops) == 1 and isinstance(x.ops[0], ast.Eq) and
                   ((norm(x.left) == tp and _is_name_expr(x.comparators[0])) or (norm(x.comparators[0]) == tp and _is_name_expr(x.left)))
                   for x, pol in cf_o.dominating_tests(ks))
        chk.ob('R03.10', f'{MV}._handleOldSchoolMethodDecoration :: `{norm(ks)[:50]}` only for x = wrapper(x)', same,
               f'dominated by `{tp} == <wrapped name>`' if same else
               f'the kind is changed without testing that the wrapped name is the assigned name: `create = staticmethod(make)` turns `make` into a static method '
               'and `create` is never documented', repo.loc(osd.mod, ks))
    # ... and the wrapper applied LAST decides: Python re-wraps whatever the name held, so the new kind is not conditioned on the kind the function had
    # (`f = classmethod(f)` after `@staticmethod def f` is a class method)
    for ks in kind_sets:
        hist = [x for x, pol in cf_o.dominating_tests(ks) if any(isinstance(a, ast.Attribute) and a.attr == 'kind' for a in ast.walk(x))]
        chk.ob('R03.10', f'{MV}._handleOldSchoolMethodDecoration :: `{norm(ks)[:50]}` whatever kind the function had', not hist,
               'no test of the previous kind' if not hist else
               f'only under `{norm(hist[0])[:60]}`: a method that already carries the other wrapper keeps its old kind - `@staticmethod def make(..)` followed by '
               '`make = classmethod(make)` is documented as a static method where Python has a class method', repo.loc(osd.mod, ks))
    # an alias is only recorded for a name that is not (yet) documented in that scope: re-binding a documented variable to another name is a new value
    # of that variable, not an alias
    ha = repo.func('pydoctor.astbuilder._handleAliasing')
    cf_a = CFG(ha)
    ap = [p_.arg for p_ in ha.params()]
    stores = [n for n in ha.walk() if isinstance(n, ast.Assign) and any(isinstance(t, ast.Subscript) and '_localNameToFullName_map' in norm(t.value) for t in n.targets)]
    if not stores:
        raise AnalysisError('R03.10: _handleAliasing no longer records aliases in _localNameToFullName_map')
    for st_ in stores:
        free = any((not pol) and isinstance(x, ast.Compare) and len(x.ops) == 1 and isinstance(x.ops[0], ast.In) and norm(x.left) == ap[1] and
                   norm(x.comparators[0]) == f'{ap[0]}.contents' for x, pol in cf_a.dominating_tests(st_)) or \
            any(pol and isinstance(x, ast.Compare) and len(x.ops) == 1 and isinstance(x.ops[0], ast.NotIn) and norm(x.left) == ap[1] and
                norm(x.comparators[0]) == f'{ap[0]}.contents' for x, pol in cf_a.dominating_tests(st_))
        chk.ob('R03.10', 'astbuilder._handleAliasing :: no alias for a name that is documented in the scope', free,
               f'reached only when `{ap[1]} not in {ap[0]}.contents`' if free else
               'an assignment `name = OTHER_NAME` to an already documented variable is swallowed as an alias: the variable keeps the type and value of its '
               'earlier assignment, the attribute docstring that follows is lost', repo.loc(ha.mod, st_))
    chk.require('R03.10', 3)



def check_r03_11(repo: Repo, chk: Check) -> None:
    # a string literal that follows an assignment documents that attribute: the builder remembers the attribute in `currentAttr`.  A property is created
    # through addAttribute (which sets currentAttr) and its def is then skipped (SkipNode): nothing else clears the pointer, so a later string statement
    # - a banner comment written as a string - would replace (or invent) the property's docstring.  Python keeps fget.__doc__
    hf = repo.func(f'{MV}._handleFunctionDef')
    cfg = CFG(hf)
    props = [c for c in calls_in(hf) if call_name(c) == '_handlePropertyDef']
    if not props:
        raise AnalysisError('R03.11: _handleFunctionDef no longer calls _handlePropertyDef')
    callee = repo.funcs.get(f'{MV}._handlePropertyDef')
    def clears(f: Func) -> List[ast.stmt]:
        return [n for n in f.walk() if isinstance(n, ast.Assign) and any(isinstance(t, ast.Attribute) and t.attr == 'currentAttr' for t in n.targets) and
                isinstance(n.value, ast.Constant) and n.value.value is None]
    for c in props:
        exits = [n for n in hf.walk() if isinstance(n, ast.Raise) and id(n) in cfg.reachable(cfg.stmt_of(c), no_exc=True)]
        cl = clears(hf)
        # either the callee clears it itself (last thing it does), or every path from the call to the SkipNode passes a clearing statement
        ok = bool(callee is not None and clears(callee)) or (bool(exits) and bool(cl) and all(cfg.must_pass(cfg.stmt_of(c), e, cl, no_exc=True) for e in exits))
        chk.ob('R03.11', f'{MV}._handleFunctionDef :: the attribute-docstring target is cleared after a property', ok,
               '`currentAttr = None` on every path from _handlePropertyDef to the SkipNode' if ok else
               'the property created by _handlePropertyDef stays the target of attribute docstrings: a string statement after the property (even inside a later '
               '`if` block) replaces its docstring, or invents one for an undocumented property', repo.loc(hf.mod, c))
    chk.require('R03.11', 1)


def check_r03_12(repo: Repo, chk: Check) -> None:
    # (a) `_maybeAttribute` keeps `meth = wrap(meth)` from replacing the method `meth` by a variable - also when `meth` is inherited (tests pin that).  But
    # `flush = None`, `Options = {}` in a subclass bind NEW class attributes that shadow the inherited method / nested class: the inherited definition may
    # only veto the variable when the assigned value refers to that name
    ma = repo.func('pydoctor.astbuilder._maybeAttribute')
    cfm = CFG(ma)
    finds = [c for c in calls_in(ma) if call_name(c) == 'find']
    vparams = [a.arg for a in ma.params()][2:]
    for c in finds:
        cond = any(any(isinstance(x, ast.Name) and x.id in vparams for x in ast.walk(t)) for t, _pol in cfm.dominating_tests(cfm.stmt_of(c))) or \
            any(isinstance(x, ast.Name) and x.id in vparams for p_ in parents(c) if isinstance(p_, (ast.If, ast.IfExp, ast.BoolOp)) for x in ast.walk(p_))
        chk.ob('R03.12', 'pydoctor.astbuilder._maybeAttribute :: inherited definitions are consulted only for values that wrap them', cond and bool(vparams),
               f'the search along the bases depends on the assigned value (`{vparams[0]}`)' if cond and vparams else
               '`cls.find(name)` is consulted whatever is assigned: `class Fixed(Transport): timeout = 5; flush = None` documents neither name when Transport defines methods '
               '`timeout` and `flush` - Python binds both in Fixed', repo.loc(ma.mod, c))
    if not finds:
        # no search along the bases at all: own namespace only (then the wrapping case of an inherited method is the caller's business)
        chk.ob('R03.12', 'pydoctor.astbuilder._maybeAttribute :: inherited definitions are consulted only for values that wrap them', True, 'own namespace only', ma.loc)
    # (b) `__doc__ = "..."` in the body of a module or class is its docstring (Python reports it as module.__doc__ / Class.__doc__)
    ha = repo.func(f'{MV}._handleAssignment')
    doc_b = any(isinstance(x, ast.Constant) and x.value == '__doc__' for n in ha.walk() if isinstance(n, ast.If) for x in ast.walk(n.test)
                if any(isinstance(c, ast.Call) and call_name(c) == '_handleDocstringUpdate' for st in n.body for c in ast.walk(st)) and
                any(isinstance(y, ast.Name) for y in ast.walk(n.test)))
    # the existing route (attribute target `X.__doc__`) tests `.attr == '__doc__'`; the new one tests the NAME that is bound
    name_route = any(isinstance(n, ast.If) and any(isinstance(x, ast.Constant) and x.value == '__doc__' for x in ast.walk(n.test)) and
                     not any(isinstance(x, ast.Attribute) and x.attr == 'attr' for x in ast.walk(n.test)) and
                     any(isinstance(c, ast.Call) and call_name(c) == '_handleDocstringUpdate' for st in n.body for c in ast.walk(st)) for n in ha.walk())
    chk.ob('R03.12', f'{MV}._handleAssignment :: binding the name __doc__ in a module or class body sets its docstring', name_route,
           'routed to _handleDocstringUpdate' if name_route else
           '`__doc__ = """..."""` after the imports of a module, or in a class body, is documented as a variable named __doc__ and the module / class has no docstring', ha.loc)
    # (c) `debug = 0` ... `debug, hosts = True, [...]`: the unpacking re-binds the name to a value the builder does not know; the literal of the earlier
    # assignment must not survive as "the value" (its type would be inferred: `debug: int`)
    hu = repo.func(f'{MV}._handleUnpackingTarget')
    resets = any(isinstance(n, ast.Assign) and any(isinstance(t, ast.Attribute) and t.attr == 'value' for t in n.targets) and isinstance(n.value, ast.Constant) and
                 n.value.value is None for n in hu.walk())
    chk.ob('R03.12', f'{MV}._handleUnpackingTarget :: a name re-bound by unpacking forgets its earlier value', resets,
           '`<attr>.value = None`' if resets else
           '`_handleAssignment(target, None, None, ...)` leaves Attribute.value alone (storing None is a no-op): after `debug = 0; debug, hosts = True, []` the type of '
           '`debug` is inferred from the stale literal as int', hu.loc)
    chk.require('R03.12', 3)
