"""
C02 - coherent object tree and registry.  Decides ownership and pairing:
  R02.1 who may write allobjects / contents / rootobjects / subclasses / implementedby_directly / name / parent
  R02.2 unlink pairing: a function that removes an object from the registry also removes it from its container
  R02.3 subtree completeness of the re-keying routines; fresh key for a superseded object
  R02.5 every insertion into a contents table handles the entry that is already there
  R02.4 kind by place
  R02.6 replaced package: its modules leave the work queue with it; fallback linearisation names a class once; a docstring field gives a kind to variables only;
        only module-level objects are moved by a re-export
Does not decide: the heap invariants after arbitrary histories (one key per object, reachability, unique page names).
"""
from __future__ import annotations

import ast
from typing import Dict, List, Optional, Set, Tuple

from ..core import AnalysisError, Func, Repo, dotted, norm, parents
from ..cfg import CFG
from ..owners import Write, writers
from ..report import Check
from ..util import not_none_fact, call_name, calls_in

DOC = 'pydoctor.model.Documentable'
SYS = 'pydoctor.model.System'
M = 'pydoctor.model'

# field -> (receiver base classes, allowed writers {function: reason})
OWNERS: Dict[str, Tuple[List[str], Dict[str, str]]] = {
    'allobjects': ([SYS], {
        f'{SYS}.__init__': 'creates the empty registry',
        f'{SYS}.addObject': 'the single registration point (setdefault)',
        f'{SYS}.handleDuplicate': 're-keys the superseded object',
        f'{SYS}.handleDuplicate.readd': 're-registers the subtree of the superseded object',
        f'{SYS}._remove': 'unregisters a subtree',
        f'{DOC}._handle_reparenting_pre': 'drops the old keys of a moved subtree',
        f'{DOC}._handle_reparenting_post': 'inserts the new keys of a moved subtree',
    }),
    'contents': ([DOC], {
        f'{DOC}.setup': 'creates the empty mapping',
        f'{SYS}.addObject': 'links the object into its parent',
        f'{DOC}.reparent': 'moves the entry from the old to the new parent',
    }),
    'rootobjects': ([SYS], {
        f'{SYS}.__init__': 'creates the empty list',
        f'{SYS}.addObject': 'parentless modules become roots',
        f'{SYS}._handleDuplicateModule': 'drops a replaced root module',
    }),
    'subclasses': ([f'{M}.Class'], {
        f'{M}.Class.setup': 'creates the empty list',
        f'{M}.defaultPostProcess': 'inverse of baseobjects, computed once all modules are processed',
    }),
    'name': ([DOC], {
        f'{DOC}.__init__': 'initial name',
        f'{DOC}.reparent': 're-export move (registry keys are rewritten around it)',
        f'{SYS}.handleDuplicate': 'superseded definition gets a numbered name (registry keys are rewritten around it)',
    }),
    'parent': ([DOC], {
        f'{DOC}.__init__': 'initial parent',
        f'{DOC}.reparent': 're-export move',
    }),
    'unprocessed_modules': ([SYS], {
        f'{SYS}.__init__': 'creates the empty list',
        f'{SYS}._addUnprocessedModule': 'schedules a module',
        f'{SYS}._handleDuplicateModule': 'unschedules a replaced module',
        f'{SYS}.processModule': 'takes the module off the schedule',
    }),
}
ZI = 'pydoctor.extensions.zopeinterface'


def run(repo: Repo, chk: Check, thorough: bool = False) -> None:
    chk.explanation = ('receiver-typed who-may-write census for the registry and tree fields, compared with an owner table; CFG pairing of '
                       'registry deletion with container removal; recursion-over-contents check of the re-keying routines; dominance of the '
                       'fresh-key loop; kind-by-place assignments')
    chk.assumptions = ['receivers are typed from annotations; an untyped receiver counts as a writer only for the distinctive field names '
                       '(allobjects, rootobjects, unprocessed_modules, subclasses, implementedby_directly)',
                       'the invariants themselves (one key per object etc.) hold if only the owner functions touch the fields - the '
                       'owners\' own logic is checked by R02.2/R02.3 only in shape']
    # ------------------------------------------------------------------ R02.1
    for fld, (bases, allowed) in OWNERS.items():
        distinctive = fld in ('allobjects', 'rootobjects', 'unprocessed_modules', 'subclasses')
        ws = writers(repo, fld, bases, unknown_counts=distinctive, skip_modules=('pydoctor.sphinx_ext',))
        seen_allowed: Set[str] = set()
        owner_classes = {b for b in bases} | {a.rsplit('.', 1)[0] for a in allowed}
        for w in ws:
            q = w.func.qn
            ok = q in allowed
            why_ok = allowed.get(q, '')
            if not ok:
                # a private helper of an owning class / function (an extracted method, a nested function) is part of the owner's implementation
                top = w.func
                while top.outer is not None:
                    top = top.outer
                inside_owner = (top.qn in allowed) or (top.cls is not None and top.cls.qn in owner_classes and top.name.startswith('_') and not top.name.startswith('__'))
                if inside_owner and w.func.mod.name == M:
                    ok, why_ok = True, f'private helper of the owning class ({top.qn.rsplit(".", 1)[0]})'
            if ok:
                seen_allowed.add(q)
            chk.ob('R02.1', f'{q} :: {fld} ({w.kind})', ok,
                   why_ok if ok else
                   f'`{norm(w.node)[:60]}` writes {fld} outside its owners ({", ".join(sorted(a.split(".")[-1] for a in allowed))}): '
                   'the registry and the tree can diverge', w.loc)
        if not seen_allowed:
            chk.error(f'R02.1: no owner of {fld} writes it any more: re-confirm the owner table')
    chk.require('R02.1', 20)
    # implementedby_directly: appended only under the `not in` test, initialised to [] at the interface-detecting sites
    ws = writers(repo, 'implementedby_directly', [DOC], unknown_counts=True)
    for w in ws:
        q = w.func.qn
        if w.kind == 'append':
            ok = q == f'{ZI}._handle_implemented'
            if ok:
                cfg = CFG(w.func)
                tests = cfg.dominating_tests(cfg.stmt_of(w.node))
                ok = any(pol and isinstance(t, ast.Compare) and isinstance(t.ops[0], ast.NotIn) and 'implementedby_directly' in norm(t) for t, pol in tests)
            chk.ob('R02.1', f'{q} :: implementedby_directly (append)', ok,
                   'appended once per implementer (guarded by `not in`), in post-processing' if ok else
                   'implementedby_directly appended outside _handle_implemented or without the `not in` test: "implemented by" stops being '
                   'the exact inverse of "implements"', w.loc)
        elif w.kind == 'rebind':
            ok = isinstance(w.node, ast.Assign) and isinstance(w.node.value, ast.List) and not w.node.value.elts and q.startswith(ZI)
            chk.ob('R02.1', f'{q} :: implementedby_directly (init)', ok, 'initialised to [] where an interface is detected' if ok else
                   f'`{norm(w.node)[:50]}` rebinds implementedby_directly', w.loc)
        else:
            chk.ob('R02.1', f'{q} :: implementedby_directly ({w.kind})', False, f'unexpected mutation `{norm(w.node)[:50]}`', w.loc)
    # subclasses: inside the loop over cls.baseobjects, under `is not None`, after the MRO (final bases) is computed
    dpp = repo.func(f'{M}.defaultPostProcess')
    cfg = CFG(dpp)
    apps = [c for c in calls_in(dpp) if call_name(c) == 'append' and isinstance(c.func, ast.Attribute) and 'subclasses' in norm(c.func.value)]
    if not apps:
        chk.error('R02.1: b.subclasses.append(cls) not found in defaultPostProcess')
    for a in apps:
        loops = [p for p in parents(a) if isinstance(p, ast.For)]
        inner = loops[0] if loops else None
        recv = a.func.value.value if isinstance(a.func.value, ast.Attribute) else None  # type: ignore[attr-defined]
        ok = inner is not None and isinstance(inner.iter, ast.Attribute) and inner.iter.attr == 'baseobjects' and isinstance(inner.target, ast.Name) and \
            isinstance(recv, ast.Name) and recv.id == inner.target.id and \
            a.args and isinstance(a.args[0], ast.Name) and len(loops) > 1 and isinstance(loops[1].target, ast.Name) and \
            a.args[0].id == loops[1].target.id and dotted(inner.iter.value if isinstance(inner.iter, ast.Attribute) else inner.iter) == loops[1].target.id
        chk.ob('R02.1', f'{M}.defaultPostProcess :: subclasses is the inverse of baseobjects', bool(ok),
               'for b in cls.baseobjects: b.subclasses.append(cls)' if ok else
               f'the loop runs over `{norm(inner.iter) if inner is not None else "?"}`, not over the public `baseobjects` relation (the pre-post-processing `_initialbaseobjects` '
               'lacks the bases that are only resolved in post-processing - import cycles): "subclass of" is not the exact inverse of "base of"', repo.loc(dpp.mod, a))
        tests = cfg.dominating_tests(cfg.stmt_of(a))
        chk.ob('R02.1', f'{M}.defaultPostProcess :: unresolved bases skipped', any(not_none_fact(t, pol) for t, pol in tests),
               'guarded by `b is not None`', repo.loc(dpp.mod, a))
        mro_calls = [c for c in calls_in(dpp) if call_name(c) == '_init_mro']
        ok = bool(mro_calls) and cfg.dominates(cfg.stmt_of(mro_calls[0]), cfg.stmt_of(a), no_exc=True) and \
            cfg.stmt_of(mro_calls[0]) is not cfg.stmt_of(a) and mro_calls[0].lineno < a.lineno
        chk.ob('R02.1', f'{M}.defaultPostProcess :: subclasses computed from the final bases', ok,
               'cls._init_mro() (second base-resolution pass) precedes the subclasses loop' if ok else
               'subclasses are computed before _init_mro() resolved the final bases: with an import cycle a subclass is missing from '
               'its base\'s subclasses', repo.loc(dpp.mod, a))

    # the re-keying routines, by ROLE: functions of model.py that index allobjects by `<x>.fullName()` and call themselves for the members
    def _keys_registry(n: ast.AST) -> bool:
        if isinstance(n, ast.Subscript) and 'allobjects' in norm(n.value) and 'fullName()' in norm(n.slice):
            return True
        return isinstance(n, ast.Call) and call_name(n) == 'pop' and isinstance(n.func, ast.Attribute) and 'allobjects' in norm(n.func.value) and \
            bool(n.args) and 'fullName()' in norm(n.args[0])
    # (recursion is what R02.3 CHECKS, so it is not part of the role: a routine that lost its recursion is still a re-keying routine)
    rekey = [g for g in repo.funcs.values() if g.mod.name == M and any(_keys_registry(n) for n in g.walk())]
    REG = {g.name for g in rekey if any(isinstance(n, ast.Subscript) and isinstance(n.ctx, ast.Store) and _keys_registry(n) for n in g.walk())}
    UNREG = {g.name for g in rekey} - REG
    if len(rekey) < 4 or not REG or not UNREG:
        raise AnalysisError(f'R02.3: {len(rekey)} recursive re-keying routines found in model.py (4 confirmed: _remove, the re-adder of handleDuplicate, _handle_reparenting_pre/_post)')
    # ------------------------------------------------------------------ R02.2 unlink pairing
    for f in repo.funcs.values():
        if f.mod.name != M:
            continue
        removes = [c for c in calls_in(f) if call_name(c) in UNREG and isinstance(c.func, ast.Attribute) and dotted(c.func.value) == 'self' and c.args and f.name not in UNREG | REG]
        for c in removes:
            victim = norm(c.args[0])
            cfgf = CFG(f)
            # re-inserted under a new key in the same function?
            reins = [n for n in f.walk() if isinstance(n, ast.Call) and call_name(n) in REG and n.args and norm(n.args[0]) == victim]
            if reins:
                chk.ob('R02.2', f'{f.qn} :: _remove({victim}) then re-registered', True, 'the subtree is re-registered under its new name in the same function', repo.loc(f.mod, c))
                continue
            # otherwise the object must also leave its container (parent.contents or rootobjects) on every path
            unlink = [cfgf.stmt_of(n) for n in f.walk() if
                      (isinstance(n, ast.Call) and call_name(n) in ('remove', 'pop') and n.args and norm(n.args[0]) == victim and
                       ('rootobjects' in norm(n.func) or 'contents' in norm(n.func))) or
                      (isinstance(n, ast.Delete) and any('contents' in norm(t) for t in n.targets))]
            ok = bool(unlink)
            detail = f'{victim} is also removed from its container'
            if ok:
                # a removal guarded by `if victim in self.rootobjects` is fine: compute must-pass on the guard statement
                guards = []
                for u in unlink:
                    g = u
                    for p in parents(u):
                        if isinstance(p, ast.If) and 'rootobjects' in norm(p.test) and victim in norm(p.test):
                            g = p
                    guards.append(g)
                ok = cfgf.must_pass(cfgf.stmt_of(c), cfgf.EXIT, guards, no_exc=True)
                if not ok:
                    detail = 'a path after the registry removal does not unlink the object from its container'
            else:
                detail = (f'{victim} is removed from allobjects (and its subtree) but stays in rootobjects / its parent\'s contents: '
                          'a root module that is unregistered is still rendered (two roots with one name, same output file)')
            chk.ob('R02.2', f'{f.qn} :: _remove({victim}) pairs with container removal', ok, detail, repo.loc(f.mod, c))
    rp = repo.func(f'{DOC}.reparent')
    dels = [n for n in rp.walk() if isinstance(n, ast.Delete) and any('contents' in norm(t) for t in n.targets)] + \
        [c for c in calls_in(rp) if call_name(c) == 'pop' and 'contents' in norm(c.func)]
    sets = [n for n in rp.walk() if isinstance(n, ast.Assign) and any(isinstance(t, ast.Subscript) and 'contents' in norm(t.value) for t in n.targets)]
    chk.ob('R02.2', f'{DOC}.reparent :: old entry deleted, new entry inserted', bool(dels) and bool(sets),
           'del old_parent.contents[old_name] and new_parent.contents[new_name] = self' if dels and sets else
           'reparent() no longer moves the contents entry (object documented twice / unreachable)', rp.loc)
    chk.require('R02.2', 3)

    # ------------------------------------------------------------------ R02.3 subtree completeness
    for f in sorted(rekey, key=lambda g: g.qn):
        q = f.qn
        rec = False
        for n in f.walk():
            if isinstance(n, ast.For) and any('contents' in norm(v) for v in _iter_exprs(repo, f, n.iter)):
                if any(isinstance(c, ast.Call) and call_name(c) == f.name for st in n.body for c in ast.walk(st)):
                    rec = True
        chk.ob('R02.3', f'{q} :: recurses over the whole subtree', rec,
               'for each member of contents: recursive call' if rec else
               f'{f.name} no longer recurses over contents: members below the first level keep stale registry keys', f.loc)
        # the registry operation itself is keyed by the object's current full name
        keyed = any(_keys_registry(n) for n in f.walk())
        chk.ob('R02.3', f'{q} :: keyed by fullName()', keyed, 'allobjects[<obj>.fullName()]' if keyed else 'registry key is not the current qualified name', f.loc)
    hd = repo.func(f'{SYS}.handleDuplicate')
    cfgh = CFG(hd)
    ren = [n for n in hd.walk() if isinstance(n, ast.Assign) and any(isinstance(t, ast.Attribute) and t.attr == 'name' for t in n.targets)]
    if not ren:
        chk.error('R02.3: the renaming of the superseded object was not found in handleDuplicate')
    for n in ren:
        tests = cfgh.dominating_tests(n)
        fresh = any((not pol) and isinstance(t, ast.Compare) and isinstance(t.ops[0], ast.In) and 'allobjects' in norm(t.comparators[0]) for t, pol in tests)
        loops = [w for w in hd.walk() if isinstance(w, ast.While) and 'allobjects' in norm(w.test)]
        chk.ob('R02.3', f'{SYS}.handleDuplicate :: the superseded object gets a key that is not in use', fresh and bool(loops),
               'a while-loop advances the suffix until the key is free' if fresh and loops else
               'the numbered name is not searched with a loop: with three or more definitions of one name two superseded objects '
               'get the same key and one overwrites the other in the registry', repo.loc(hd.mod, n))
        # order: subtree unregistered before the rename, re-registered after
        rem = [c for c in calls_in(hd) if call_name(c) in UNREG]
        readd = [c for c in calls_in(hd) if call_name(c) in REG]
        ok = bool(rem) and bool(readd) and cfgh.before(rem[0], n) and cfgh.before(n, readd[0])
        chk.ob('R02.3', f'{SYS}.handleDuplicate :: unregister -> rename -> re-register', ok,
               '_remove(prev) precedes the rename, readd(prev) follows it' if ok else
               'the old keys are computed after the rename (or the new ones before it): stale keys survive', repo.loc(hd.mod, n))
    fin = [n for n in hd.walk() if isinstance(n, ast.Assign) and any(isinstance(t, ast.Subscript) and 'allobjects' in norm(t.value) for t in n.targets)
           and repo.enclosing_func(n) is hd]
    chk.ob('R02.3', f'{SYS}.handleDuplicate :: the new definition takes the plain name', bool(fin),
           'self.allobjects[fullName] = obj' if fin else 'the new object is not registered under the contested name', hd.loc)
    # a superseded definition stays registered but is no member of its parent's contents: the re-keying routines (which all walk
    # `contents`) only reach it if its parent keeps it in a collection of its own and every one of them walks that collection too
    prevs = {norm(c.args[0]) for c in calls_in(hd) if call_name(c) in REG and c.args}
    keep = [c for c in calls_in(hd) if call_name(c) in ('append', 'add') and c.args and norm(c.args[0]) in prevs and
            isinstance(c.func, ast.Attribute) and isinstance(c.func.value, ast.Attribute)]
    coll = keep[0].func.value.attr if keep else None   # type: ignore[attr-defined]
    chk.ob('R02.3', f'{SYS}.handleDuplicate :: the superseded object stays attached to its parent', coll is not None,
           f'kept in <parent>.{coll}' if coll else
           'the superseded object is registered under `name N` but recorded nowhere on its parent: when the parent is moved (re-export) or removed, '
           'its registry key is not updated - it stays registered under a qualified name it no longer has', hd.loc)
    if coll:
        for f in sorted(rekey, key=lambda g: g.qn):
            q = f.qn
            # ... by RECURSION: the loop(s) that hold the recursive call iterate that collection too (a superseded class has members of its own)
            walks = False
            for n in f.walk():
                if isinstance(n, ast.For) and any(isinstance(c, ast.Call) and call_name(c) == f.name for st in n.body for c in ast.walk(st)):
                    its = _iter_exprs(repo, f, n.iter)
                    if any(isinstance(x, ast.Attribute) and x.attr == coll for it_ in its for x in ast.walk(it_)):
                        walks = True
            chk.ob('R02.3', f'{q} :: also walks the superseded members ({coll})', walks,
                   f'recurses over contents and {coll}' if walks else
                   f'{f.name} recurses over `contents` only: superseded members (kept in {coll}) - or, when they are treated as leaves, THEIR members - '
                   'keep their old registry key', f.loc)
    chk.require('R02.3', 12)

    # ------------------------------------------------------------------ R02.4 kind by place
    fs = repo.func(f'{M}.Function.setup')
    ok = any(isinstance(n, ast.If) and 'isinstance(self.parent, Class)' in norm(n.test) and
             any('METHOD' in norm(s) and 'kind' in norm(s) for s in n.body) for n in fs.walk())
    chk.ob('R02.4', f'{M}.Function.setup :: functions directly in classes are methods', ok,
           'kind = METHOD iff isinstance(self.parent, Class)' if ok else 'Function.setup no longer sets METHOD for class members', fs.loc)
    ao = repo.func(f'{SYS}.addObject')
    cfga = CFG(ao)
    rootapp = [c for c in calls_in(ao) if call_name(c) == 'append' and 'rootobjects' in norm(c.func)]
    ok = bool(rootapp) and any(pol and isinstance(t, ast.Call) and call_name(t) == 'isinstance' and 'Module' in norm(t)
                               for t, pol in cfga.dominating_tests(cfga.stmt_of(rootapp[0])))
    rs = [n for n in ao.walk() if isinstance(n, ast.Raise)]
    chk.ob('R02.4', f'{SYS}.addObject :: only modules become roots', ok and bool(rs),
           'parentless non-modules are rejected' if ok and rs else 'a parentless non-module can be added to rootobjects', ao.loc)
    reg = [c for c in calls_in(ao) if call_name(c) == 'setdefault' and 'allobjects' in norm(c.func)]
    ok = bool(reg) and 'fullName()' in norm(reg[0].args[0])
    dup = [c for c in calls_in(ao) if call_name(c) == 'handleDuplicate']
    chk.ob('R02.4', f'{SYS}.addObject :: registered under the qualified name, duplicates handled', ok and bool(dup),
           'allobjects.setdefault(obj.fullName(), obj) then handleDuplicate when taken' if ok and dup else
           'addObject no longer registers under fullName() / no longer detects duplicates', ao.loc)
    # modules sit only in packages: the re-export move must not put a Module below a plain module, below itself or below one of its own
    # descendants (the last two make fullName() recurse for ever / fail the processing-state assertion: the run aborts)
    hr = repo.func('pydoctor.astbuilder.ModuleVistor._handleReExport')
    cfgr = CFG(hr)
    rcalls = [c for c in calls_in(hr) if call_name(c) == 'reparent' and isinstance(c.func, ast.Attribute)]
    if not rcalls:
        raise AnalysisError('R02.4: reparent(...) is no longer called from _handleReExport')

    def _package_check(g: Func) -> bool:
        return any(isinstance(c, ast.Call) and call_name(c) == 'isinstance' and len(c.args) == 2 and norm(c.args[1]).endswith('Package') for c in calls_in(g))
    for c in rcalls:
        obv = norm(c.func.value)   # type: ignore[attr-defined]

        def safe(e: ast.AST, pol: bool) -> bool:
            if isinstance(e, ast.Call) and call_name(e) == 'isinstance' and len(e.args) == 2 and norm(e.args[0]) == obv and norm(e.args[1]).endswith('Module'):
                return not pol
            if isinstance(e, ast.Call) and any(norm(a) == obv for a in e.args):
                cal, _how = repo.callees(e, hr)
                if cal and all(_package_check(g) for g in cal):
                    return pol
            if isinstance(e, ast.UnaryOp) and isinstance(e.op, ast.Not):
                return safe(e.operand, not pol)
            if isinstance(e, ast.BoolOp):
                if isinstance(e.op, ast.And):
                    return any(safe(v, True) for v in e.values) if pol else all(safe(v, False) for v in e.values)
                return all(safe(v, True) for v in e.values) if pol else any(safe(v, False) for v in e.values)
            return False
        safe_edges = [(nid, id(t), k) for nid, edges in cfgr.succ.items() for (t, l, k) in edges if l is not None and safe(cfgr.subst_named(l[0]), l[1])]
        reach = cfgr.reachable(cfgr.ENTRY, avoid_edges=safe_edges, no_exc=True)
        okm = bool(safe_edges) and id(cfgr.stmt_of(c)) not in reach
        chk.ob('R02.4', 'astbuilder.ModuleVistor._handleReExport :: a module is only moved into a package that can hold it', okm,
               f'`{norm(c)[:40]}` is reached only for non-modules or after the package / ancestry check' if okm else
               f'`{norm(c)[:40]}` also moves Module objects, unchecked: `from pkg import sub` + `__all__ = ["sub"]` in a plain module puts a module below a '
               'module; re-exporting the current package from one of its submodules makes it its own ancestor - fullName() recurses until the run aborts',
               repo.loc(hr.mod, c))
    chk.require('R02.4', 4)

    # ------------------------------------------------------------------ R02.5 inserting into a namespace handles what is already there
    # `parent.contents[name] = obj` silently replaces an existing entry; the replaced object (and its members) stay registered with a parent
    # that no longer lists them.  Every insertion must either come with the duplicate handling or be reached only when the name is free.
    n_ins = 0
    for w in writers(repo, 'contents', [f'{M}.Documentable'], unknown_counts=True, skip_modules=('pydoctor.test', 'pydoctor.sphinx_ext')):
        if w.kind != 'setitem':
            continue
        n_ins += 1
        f = w.func
        cff = CFG(f)
        dup_calls = [c for c in calls_in(f) if call_name(c) == 'handleDuplicate']
        st_w = cff.stmt_of(w.node) if not isinstance(w.node, ast.stmt) else w.node
        tgt = w.node.targets[0] if isinstance(w.node, ast.Assign) else None
        key = norm(tgt.slice) if isinstance(tgt, ast.Subscript) else '?'

        def name_free(e: ast.AST, pol: bool) -> bool:
            # does `e` evaluating to `pol` establish that nothing is bound to `key` in the target table?
            if isinstance(e, ast.UnaryOp) and isinstance(e.op, ast.Not):
                return name_free(e.operand, not pol)
            if isinstance(e, ast.Compare) and len(e.ops) == 1:
                l, o, r = e.left, e.ops[0], e.comparators[0]
                if isinstance(o, (ast.In, ast.NotIn)) and norm(l) == key and 'contents' in norm(r):
                    return pol == isinstance(o, ast.NotIn)
                if isinstance(o, (ast.Is, ast.IsNot)) and norm(r) == 'None' and isinstance(l, ast.Call) and call_name(l) == 'get' and 'contents' in norm(l.func) and \
                        l.args and norm(l.args[0]) == key:
                    return pol == isinstance(o, ast.Is)
            return False
        free_edges = [(nid, id(t), k) for nid, edges in cff.succ.items() for (t, l, k) in edges if l is not None and name_free(l[0], l[1])]
        # the duplicate handling may also follow the insertion (addObject registers, then calls handleDuplicate when the name was taken)
        after = any(id(cff.stmt_of(c)) in cff.reachable(st_w, no_exc=True) for c in dup_calls)
        r_ = cff.reachable(cff.ENTRY, avoid_nodes=[cff.stmt_of(c) for c in dup_calls], avoid_edges=free_edges, no_exc=True)
        handled = after or (bool(dup_calls or free_edges) and id(st_w) not in r_)
        free = False
        chk.ob('R02.5', f'{f.qn} :: {norm(w.node)[:50]} handles an existing entry', handled or free,
               'on every path the name is free or handleDuplicate runs' if handled or free else
               f'`{norm(w.node)[:60]}` overwrites whatever is already bound to that name: the replaced object keeps its registry entry (and its members theirs) but '
               'is no longer reachable from any root, and nothing hides or renames it', w.loc)
    if n_ins < 2:
        raise AnalysisError(f'R02.5: {n_ins} insertions into a contents table found (2 confirmed: System.addObject, Documentable.reparent)')
    chk.require('R02.5', 2)
    check_r02_6(repo, chk)


def _iter_exprs(repo: Repo, f: Func, it: ast.AST) -> List[ast.AST]:
    """The expressions a loop iterates: the iterable itself, the values of a local it names, the returned expressions of a helper method it calls."""
    out: List[ast.AST] = [it]
    if isinstance(it, ast.Name):
        out += _values(f, it.id)
    for c in [x for e in list(out) for x in ast.walk(e) if isinstance(x, ast.Call)]:
        if isinstance(c.func, ast.Attribute) and isinstance(c.func.value, ast.Name):
            for g in repo.funcs.values():
                if g.mod is f.mod and g.name == c.func.attr and g.cls is not None:
                    out += [r.value for r in g.walk() if isinstance(r, ast.Return) and r.value is not None]
    return out


def _values(f: Func, name: str) -> List[ast.AST]:
    return [n.value for n in f.walk() if isinstance(n, ast.Assign) and any(isinstance(t, ast.Name) and t.id == name for t in n.targets)]


def check_r02_6(repo: Repo, chk: Check) -> None:
    from ..util import values_of
    SYSQ = 'pydoctor.model.System'
    # (a) a module that replaces another of the same name (two source directories holding one package): System._remove unregisters the whole subtree
    # of the replaced one, so the whole subtree must leave the work queue too - a submodule that stays queued is processed later and registers its
    # classes below a parent that is registered nowhere and that no root reaches
    hd = repo.func(f'{SYSQ}._handleDuplicateModule')
    rem = [c for c in calls_in(hd) if call_name(c) == '_remove']
    deq = [c for c in calls_in(hd) if call_name(c) == 'remove' and isinstance(c.func, ast.Attribute) and 'unprocessed_modules' in norm(c.func.value)]
    if not rem or not deq:
        raise AnalysisError('R02.6: _handleDuplicateModule no longer unregisters / dequeues the replaced module')
    whole = any(any(isinstance(p_, (ast.While, ast.For)) for p_ in parents(c)) and
                any(isinstance(x, ast.Attribute) and x.attr == 'contents' for p_ in parents(c) if isinstance(p_, (ast.While, ast.For)) for x in ast.walk(p_))
                for c in deq) or any(call_name(c) not in ('remove',) and 'unprocessed_modules' in norm(c) and isinstance(c, ast.Call) for c in [])
    chk.ob('R02.6', f'{SYSQ}._handleDuplicateModule :: the modules below a replaced package leave the work queue with it', whole,
           'the dequeue walks the contents of the replaced module' if whole else
           f'`{norm(deq[0])}` takes only the replaced module itself out of the queue while `{norm(rem[0])}` unregisters its whole subtree: the submodules are still '
           'processed and re-register their objects under an unregistered parent (orphans in allobjects, links to pages that are never written)', repo.loc(hd.mod, deq[0]))
    # (b) the fallback stored when the linearisation cannot be computed: allbases() yields a shared ancestor once per path - "contains each of its
    # resolved bases once" needs a de-duplication
    im = repo.func('pydoctor.model.Class._init_mro')
    fb = [n for n in im.walk() if isinstance(n, ast.Assign) and any(isinstance(t, ast.Attribute) and t.attr == '_mro' for t in n.targets) and
          any(isinstance(p_, ast.ExceptHandler) for p_ in parents(n))]
    if not fb:
        raise AnalysisError('R02.6: the fallback linearisation of Class._init_mro was not found')
    for n in fb:
        uses_allbases = any(isinstance(c, ast.Call) and call_name(c) == 'allbases' for c in ast.walk(n.value))
        dedup = any(isinstance(c, ast.Call) and (call_name(c) in ('fromkeys', 'unique', 'OrderedDict') or call_name(c) == 'set') for c in ast.walk(n.value)) or \
            isinstance(n.value, ast.Name)
        okb = not uses_allbases or dedup
        chk.ob('R02.6', 'pydoctor.model.Class._init_mro :: the fallback linearisation names every class once', okb,
               norm(n.value)[:70] if okb else
               f'`{norm(n.value)}`: allbases() repeats an ancestor that is reached along two paths - `class Stream(Generic[T], Buffered[T], Source[T])` gets '
               '[Stream, Buffered, Source, Source]', repo.loc(im.mod, n))
    # (c) @ivar/@cvar/@var fields of a class or module docstring: the object found under that name gets the field's kind and text.  In a package the
    # contents already hold the submodules: only an Attribute (found or created) may be given a variable kind
    ef = repo.func('pydoctor.epydoc2stan.extract_fields')
    cfe = CFG(ef)
    ks = [n for n in ef.walk() if isinstance(n, ast.Assign) and any(isinstance(t, ast.Attribute) and t.attr == 'kind' for t in n.targets) and
          not (isinstance(n.value, ast.Constant) and n.value.value is None)]
    if not ks:
        raise AnalysisError('R02.6: extract_fields no longer assigns a kind')
    for n in ks:
        tgt = next(t for t in n.targets if isinstance(t, ast.Attribute) and t.attr == 'kind')
        var = norm(tgt.value)
        typed = any(isinstance(t, ast.Call) and call_name(t) == 'isinstance' and norm(t.args[0]) == var and 'Attribute' in norm(t.args[1]) and pol
                    for t, pol in cfe.dominating_tests(n))
        # or: on every path the object was created as an Attribute, or passed an edge on which isinstance(x, Attribute) holds
        def _is_attr(t: ast.AST, pol: bool) -> bool:
            if isinstance(t, ast.UnaryOp) and isinstance(t.op, ast.Not):
                return _is_attr(t.operand, not pol)
            return pol and isinstance(t, ast.Call) and call_name(t) == 'isinstance' and norm(t.args[0]) == var and 'Attribute' in norm(t.args[1])
        safe_edges = [(nid, id(t_), k) for nid, edges in cfe.succ.items() for (t_, l, k) in edges if l is not None and _is_attr(l[0], l[1])]
        creations = [a for a in ef.walk() if isinstance(a, ast.Assign) and any(norm(t) == var for t in a.targets) and isinstance(a.value, ast.Call) and
                     call_name(a.value) == 'Attribute']
        exits = id(n) not in cfe.reachable(cfe.ENTRY, avoid_nodes=creations, avoid_edges=safe_edges, no_exc=True)
        okc = typed or bool(exits)
        chk.ob('R02.6', 'pydoctor.epydoc2stan.extract_fields :: a docstring field gives a variable kind to variables only', okc,
               f'`{var}` is an Attribute where `{norm(n)[:40]}` is reached' if okc else
               f'`{norm(n)[:50]}` is applied to whatever `contents` holds under that name: `@var helpers:` in the docstring of a package that has a submodule '
               '`helpers` turns the Module object into a "variable" that has children', repo.loc(ef.mod, n))
    # (d) a re-export moves module-level objects.  resolveName follows `name = Class.member` aliases: the object found can be a member of a class,
    # and moving it leaves a method (kind METHOD / CLASS_METHOD) directly in a package and takes it out of its class
    hr = repo.func('pydoctor.astbuilder.ModuleVistor._handleReExport')
    cfh = CFG(hr)
    rp = [c for c in calls_in(hr) if call_name(c) == 'reparent' and isinstance(c.func, ast.Attribute)]
    if not rp:
        raise AnalysisError('R02.6: _handleReExport no longer calls reparent()')
    for c in rp:
        ob = norm(c.func.value)
        facts = cfh.dominating_tests(cfh.stmt_of(c))
        okd = any(isinstance(t, ast.Call) and call_name(t) == 'isinstance' and norm(t.args[0]) == f'{ob}.parent' and
                  (('Class' in norm(t.args[1]) and not pol) or ('Module' in norm(t.args[1]) and pol)) for t, pol in facts)
        chk.ob('R02.6', 'pydoctor.astbuilder.ModuleVistor._handleReExport :: only module-level objects are moved', okd,
               f'`{ob}.parent` is tested before `{norm(c)[:40]}`' if okd else
               f'`{norm(c)[:40]}` is reached for an object whose parent is a class (`create = Factory.create` re-exported through __all__): the class method is torn out of '
               'its class and sits in the package with kind CLASS_METHOD', repo.loc(hr.mod, c))
    # (e) a ROOT module has no parent to be taken out of: reparent() asserts that the old parent is a container.  Two roots documented together, one
    # re-exporting the other (`from mod import x` is fine; `import rootmod` + `__all__ = ['rootmod']`), must leave the root where it is
    ca = repo.funcs.get('pydoctor.astbuilder.ModuleVistor._canAdoptModule')
    if ca is None:
        raise AnalysisError('R02.6: _canAdoptModule not found')
    modp_ = ca.params()[-1].arg
    root_ok = any(isinstance(t, ast.Compare) and isinstance(t.ops[0], (ast.Is, ast.IsNot)) and norm(t.left) == f'{modp_}.parent' and norm(t.comparators[0]) == 'None'
                  for n in ca.walk() if isinstance(n, ast.If) for t in ast.walk(n.test))
    chk.ob('R02.6', 'pydoctor.astbuilder.ModuleVistor._canAdoptModule :: a root module is never moved', root_ok,
           f'`{modp_}.parent is None` is tested' if root_ok else
           'a module without a parent passes the test: re-exporting a root module from a package that is documented in the same run calls reparent(), whose '
           '`assert isinstance(old_parent, CanContainImportsDocumentable)` fails - the run aborts', ca.loc)
    # (f) ... and the ancestry walk of that function starts at the adopting scope ITSELF: a package that re-exports itself (`from pkg import sub; __all__ = ['sub']`
    # inside pkg/sub/__init__.py) is its own "ancestor" in the sense that matters - moved into itself, fullName() recurses until the run aborts
    walks = [w for w in ca.walk() if isinstance(w, ast.While) and any(isinstance(a, ast.Assign) and isinstance(a.value, ast.Attribute) and a.value.attr == 'parent' and
                                                                        any(isinstance(t, ast.Name) and norm(a.value.value) == t.id for t in a.targets) for st in w.body for a in ast.walk(st))]
    if not walks:
        raise AnalysisError('R02.6: the ancestry walk (`anc = anc.parent`) of _canAdoptModule was not found')
    for w in walks:
        step = next(a for st in w.body for a in ast.walk(st) if isinstance(a, ast.Assign) and isinstance(a.value, ast.Attribute) and a.value.attr == 'parent')
        wv = step.targets[0].id  # type: ignore[attr-defined]
        inits = [a for a in ca.walk() if isinstance(a, (ast.Assign, ast.AnnAssign)) and a is not step and a.value is not None and
                 any(isinstance(t, ast.Name) and t.id == wv for t in (a.targets if isinstance(a, ast.Assign) else [a.target]))]
        scopep = ca.params()[0].arg if ca.is_static else ca.params()[1].arg
        ok_w = bool(inits) and all(isinstance(a.value, ast.Name) and a.value.id == scopep for a in inits)
        chk.ob('R02.6', 'pydoctor.astbuilder.ModuleVistor._canAdoptModule :: the ancestry walk starts at the adopting scope itself', ok_w,
               f'`{wv} = {scopep}`' if ok_w else
               f'the walk starts at `{norm(inits[0].value) if inits else "?"}`: the scope itself is never compared with the module, so a package that lists itself in its own '
               '`__all__` is moved into itself and the next fullName() recurses until the run aborts with RecursionError', repo.loc(ca.mod, w))
    chk.require('R02.6', 6)
