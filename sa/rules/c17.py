"""
C17 - inventories: faithful write, survivable read.
  R17.1 nothing from the curated sources escapes SphinxInventory.update (reader totality on untrusted bytes)
  R17.2 line grammar: every index into the split line is protected; only ValueError leaves; the caller skips the line
  R17.3 every decoding stage reports its failure and keeps what is still usable (complete lines of a truncated stream, decodable lines);
        the recovery feed after a damaged stream is one byte wide
  R17.4 writer/reader agreement on the line format; one line per visible object
  R17.5 the inventory lists the subjects that were written
  R17.6 a suffix that is tested for is the suffix that is replaced (the `$` abbreviation of a location)
Does not decide: equality after a real round trip, Sphinx's own loader.
"""
from __future__ import annotations

import ast
from typing import Dict, List, Optional, Set, Tuple

from ..core import AnalysisError, Func, Repo, dotted, norm, parents
from ..cfg import CFG
from ..report import Check
from ..util import call_name, calls_in, enclosing_trys, handler_names, is_catch_all, reraises
from .c01 import build_engine, check_escapes

READER = 'pydoctor.sphinx.SphinxInventory'
WRITER = 'pydoctor.sphinx.SphinxInventoryWriter'
LINE = 'pydoctor.sphinx._parseInventoryLine'


def _handles(t: ast.Try, name: str) -> Optional[ast.ExceptHandler]:
    for h in t.handlers:
        ns = {n.split('.')[-1] for n in handler_names(h)}
        if name in ns or is_catch_all(h) or (name == 'IndexError' and 'LookupError' in ns) or \
                (name == 'UnicodeDecodeError' and ({'UnicodeError', 'ValueError'} & ns)) or (name == 'error' and 'error' in ns):
            return h
    return None


def run(repo: Repo, chk: Check, thorough: bool = False) -> None:
    chk.explanation = ('exception-escape analysis with SphinxInventory.update as the boundary (R17.1); subscript-protection rule on the '
                       'split line with a small interval argument for `V - c` indices (R17.2); handler shape of the decoding stages '
                       '(R17.3); extraction of the f-string line template of the writer and comparison with what the reader requires (R17.4)')
    chk.assumptions = ['network failures are handled by IntersphinxCache.get (catch-all, checked) - requests internals are not analysed',
                       'a real round trip through zlib and Sphinx is not executed']
    cg, esc = build_engine(repo)

    # ------------------------------------------------------------ R17.1
    check_escapes(repo, chk, cg, esc, [f'{READER}.update'], 'R17.1')
    chk.require('R17.1', 5)
    get = repo.func('pydoctor.sphinx.IntersphinxCache.get')
    trs = [n for n in get.walk() if isinstance(n, ast.Try)]
    ok = any(any(is_catch_all(h) and not reraises(h) for h in t.handlers) and
             any(isinstance(c, ast.Call) and call_name(c) == 'get' for st in t.body for c in ast.walk(st)) for t in trs)
    chk.ob('R17.1', 'pydoctor.sphinx.IntersphinxCache.get :: network failure is contained', ok,
           'session.get(...) inside a catch-all that returns None' if ok else 'the HTTP fetch is not inside a catch-all any more', get.loc)

    # ------------------------------------------------------------ R17.2
    f = repo.func(LINE)
    cfg = CFG(f)
    split_vars = {t.id for n in f.walk() if isinstance(n, ast.Assign) and isinstance(n.value, ast.Call) and call_name(n.value) == 'split'
                  for t in n.targets if isinstance(t, ast.Name)}
    if not split_vars:
        raise AnalysisError(f'{LINE}: result of line.split(...) is not bound to a variable any more')
    subs = [n for n in f.walk() if isinstance(n, ast.Subscript) and isinstance(n.value, ast.Name) and n.value.id in split_vars
            and isinstance(n.ctx, ast.Load)]
    n_idx = 0
    for sub in subs:
        if isinstance(sub.slice, ast.Slice):
            continue
        n_idx += 1
        key = f'{LINE} :: {norm(sub)}'
        loc = repo.loc(f.mod, sub)
        prot = None
        for t in enclosing_trys(sub, f.node):
            h = _handles(t, 'IndexError')
            if h is not None:
                prot = h
                break
        if prot is not None:
            conv = any(isinstance(n, ast.Raise) and n.exc is not None and 'ValueError' in norm(n.exc) for st in prot.body for n in ast.walk(st))
            chk.ob('R17.2', key, conv, f'inside try/except {", ".join(handler_names(prot))} that raises ValueError' if conv else
                   'IndexError is caught but not converted to the ValueError the caller expects', loc)
            continue
        # `V - c` below an index already evaluated successfully on every path
        idx = sub.slice
        why = None
        # (a) the index variable of `for V in range(a, len(S))`: a <= V < len(S) inside the loop - and after it, when the loop's else clause leaves
        # the function (the code after the loop is only reached through `break`)
        rng = {}
        for lp_ in f.walk():
            if isinstance(lp_, ast.For) and isinstance(lp_.target, ast.Name) and isinstance(lp_.iter, ast.Call) and call_name(lp_.iter) == 'range' and \
                    len(lp_.iter.args) == 2 and isinstance(lp_.iter.args[0], ast.Constant) and isinstance(lp_.iter.args[0].value, int) and \
                    lp_.iter.args[0].value >= 0 and norm(lp_.iter.args[1]) == f'len({sub.value.id})':  # type: ignore[attr-defined]
                inside = any(x is sub for st in lp_.body for x in ast.walk(st))
                after_ok = bool(lp_.orelse) and isinstance(lp_.orelse[-1], (ast.Raise, ast.Return)) and cfg.dominates(lp_, cfg.stmt_of(sub), no_exc=True)
                rebound = any(isinstance(a_, (ast.Assign, ast.AugAssign)) and any(isinstance(t_, ast.Name) and t_.id == lp_.target.id
                                                                              for t_ in (a_.targets if isinstance(a_, ast.Assign) else [a_.target])) for a_ in f.walk())
                if (inside or after_ok) and not rebound:
                    rng[lp_.target.id] = lp_.iter.args[0].value
        if isinstance(idx, ast.Name) and idx.id in rng:
            why = f'{idx.id} comes from range({rng[idx.id]}, len({sub.value.id})): in bounds'  # type: ignore[attr-defined]
        if isinstance(idx, ast.BinOp) and isinstance(idx.op, ast.Sub) and isinstance(idx.left, ast.Name) and idx.left.id in rng and \
                isinstance(idx.right, ast.Constant) and isinstance(idx.right.value, int) and 0 <= idx.right.value <= rng[idx.left.id]:
            why = f'{rng[idx.left.id]} <= {idx.left.id} < len({sub.value.id}), so 0 <= {norm(idx)} < len'  # type: ignore[attr-defined]
        # (b) `S[E]` under the fact `E < len(S)` (either spelling) with E = V + c, V >= 0
        if isinstance(idx, ast.BinOp) and isinstance(idx.op, ast.Add) and isinstance(idx.left, ast.Name) and idx.left.id in rng and \
                isinstance(idx.right, ast.Constant) and isinstance(idx.right.value, int) and idx.right.value >= 0:
            for t_, pol_ in cfg.dominating_tests(cfg.stmt_of(sub)):
                if pol_ and isinstance(t_, ast.Compare) and len(t_.ops) == 1 and isinstance(t_.ops[0], ast.Lt) and norm(t_.left) == norm(idx) and \
                        norm(t_.comparators[0]) == f'len({sub.value.id})':  # type: ignore[attr-defined]
                    why = f'dominated by `{norm(t_)}`'
        # (b') the same with E given a name first: `location_idx = prio_idx + 1` ... `if location_idx >= len(parts): raise` ... `parts[location_idx]`
        if why is None and isinstance(idx, ast.Name):
            from ..util import single_value as _sv17
            e0 = _sv17(f, idx.id)
            if isinstance(e0, ast.BinOp) and isinstance(e0.op, ast.Add) and isinstance(e0.left, ast.Name) and e0.left.id in rng and \
                    isinstance(e0.right, ast.Constant) and isinstance(e0.right.value, int) and e0.right.value >= 0:
                for t_, pol_ in cfg.dominating_tests(cfg.stmt_of(sub)):
                    if pol_ and isinstance(t_, ast.Compare) and len(t_.ops) == 1 and isinstance(t_.ops[0], ast.Lt) and norm(t_.left) == idx.id and \
                            norm(t_.comparators[0]) == f'len({sub.value.id})':  # type: ignore[attr-defined]
                        why = f'{idx.id} = {norm(e0)} >= 0, dominated by `{norm(t_)}`'
        if why is None and isinstance(idx, ast.BinOp) and isinstance(idx.op, ast.Sub) and isinstance(idx.left, ast.Name) and \
                isinstance(idx.right, ast.Constant) and isinstance(idx.right.value, int) and idx.right.value >= 0:
            v, c = idx.left.id, idx.right.value
            inits = [n for n in f.walk() if isinstance(n, ast.Assign) and any(isinstance(t, ast.Name) and t.id == v for t in n.targets)]
            augs = [n for n in f.walk() if isinstance(n, ast.AugAssign) and isinstance(n.target, ast.Name) and n.target.id == v]
            only_grows = all(isinstance(a.op, ast.Add) and isinstance(a.value, ast.Constant) and isinstance(a.value.value, int) and a.value.value > 0
                             for a in augs)
            lower = min([n.value.value for n in inits if isinstance(n.value, ast.Constant) and isinstance(n.value.value, int)], default=None)
            const_inits = all(isinstance(n.value, ast.Constant) for n in inits)
            earlier = [s2 for s2 in subs if s2 is not sub and isinstance(s2.slice, ast.Name) and s2.slice.id == v and
                       cfg.dominates(cfg.stmt_of(s2), cfg.stmt_of(sub), no_exc=True) and cfg.stmt_of(s2) is not cfg.stmt_of(sub)]
            # the dominating access must have *succeeded*: it sits in a try whose IndexError handler leaves the function
            succeeded = False
            for s2 in earlier:
                for t in enclosing_trys(s2, f.node):
                    h = _handles(t, 'IndexError')
                    if h is not None and h.body and isinstance(h.body[-1], (ast.Raise, ast.Return)):
                        succeeded = True
            if inits and const_inits and only_grows and lower is not None and lower - c >= 0 and succeeded:
                why = f'0 <= {v} - {c} < {v}, and {norm(earlier[0])} was evaluated successfully on every path here ({v} starts at {lower} and only grows)'
        chk.ob('R17.2', key, why is not None, why or
               'index into the split line is neither inside a try that converts IndexError nor provably below a valid index: '
               'a line with too few columns raises IndexError, which the caller does not handle', loc)
    if n_idx < 3:
        chk.error(f'R17.2: only {n_idx} index expressions on the split line found (3 confirmed by hand)')
    raises = [n for n in f.walk() if isinstance(n, ast.Raise) and n.exc is not None]
    bad = [n for n in raises if 'ValueError' not in norm(n.exc)]
    chk.ob('R17.2', f'{LINE} :: raises only ValueError', not bad and bool(raises),
           f'{len(raises)} raise statements, all ValueError' if not bad else f'raises {norm(bad[0].exc)[:40]}', f.loc)
    pi = repo.func(f'{READER}._parseInventory')
    calls = [c for c in calls_in(pi) if call_name(c) == '_parseInventoryLine']
    ok = bool(calls)
    detail = 'per-line try/except ValueError: report and continue'
    for c in calls:
        hs = [h for t in enclosing_trys(c, pi.node) for h in [_handles(t, 'ValueError')] if h is not None]
        in_loop = any(isinstance(p, (ast.For, ast.While)) for p in parents(c))
        if not hs or not in_loop:
            ok = False
            detail = 'the line parser is not called inside a per-line try handling ValueError'
            continue
        h = hs[0]
        # "skipped": from the handler the next thing that happens is the next iteration - nothing of the line is stored on the way and the handler does
        # not raise (`except: report; continue`, or `try/except/else` with the store in the else clause)
        cfpi = CFG(pi)
        lp_ = next((p for p in parents(c) if isinstance(p, (ast.For, ast.While))), None)
        onward = cfpi.reachable(h, avoid_nodes=[lp_] if lp_ is not None else [], no_exc=True)
        stores_l = [n for n in pi.walk() if isinstance(n, ast.Assign) and any(isinstance(t, ast.Subscript) for t in n.targets) and id(n) in onward]
        goes_on = lp_ is not None and id(lp_) in cfpi.reachable(h, no_exc=True)
        if stores_l or reraises(h) or not goes_on:
            ok = False
            detail = 'the ValueError handler does not continue with the next line'
        if not any(isinstance(n, ast.Call) and call_name(n) == 'error' for st in h.body for n in ast.walk(st)):
            ok = False
            detail = 'the malformed line is not reported'
    chk.ob('R17.2', f'{READER}._parseInventory :: malformed line is reported and skipped', ok, detail, pi.loc)
    chk.require('R17.2', 5)

    # ------------------------------------------------------------ R17.3
    gp = repo.func(f'{READER}._getPayload')
    cfgp = CFG(gp)
    # stage 1, inflate: failures are reported; a truncated stream keeps the lines that were recovered (incremental decompressor) - the
    # one-shot zlib.decompress() is all-or-nothing
    # the inflate stage may live in _getPayload itself or in a private helper of the module it calls (`_decompressPayload(payload)`)
    zf = gp
    if not any(call_name(c) in ('decompress', 'decompressobj') for c in calls_in(gp)):
        called_gp = {call_name(c) for c in calls_in(gp)}
        cands_z = [g for g in repo.funcs.values() if g.mod is gp.mod and g.name in called_gp and g.name.startswith('_') and
                   any(call_name(c) in ('decompress', 'decompressobj') for c in calls_in(g))]
        if cands_z:
            zf = cands_z[0]
    oneshot = [c for c in calls_in(zf) if call_name(c) == 'decompress' and norm(c.func).startswith('zlib.')]
    incr = [c for c in calls_in(zf) if call_name(c) == 'decompressobj']
    inflate = oneshot + [c for c in calls_in(zf) if call_name(c) == 'decompress' and not norm(c.func).startswith('zlib.')]
    if not inflate:
        raise AnalysisError('R17.3: no decompress() call in _getPayload')
    for c in inflate:
        h = None
        for t in enclosing_trys(c, zf.node):
            h = _handles(t, 'error')
            if h is not None:
                break
        reported = any(call_name(x) == 'error' and isinstance(x.func, ast.Attribute) and dotted(x.func.value) == 'self' for x in calls_in(gp) + calls_in(zf))
        ok = h is not None and not reraises(h) and reported
        chk.ob('R17.3', f'{READER}._getPayload :: inflate failure is caught and reported', ok,
               f'except {", ".join(handler_names(h))} + self.error(...)' if ok and h is not None else 'a failing decompress() is not caught / not reported',
               repo.loc(zf.mod, c))
    chk.ob('R17.3', f'{READER}._getPayload :: a truncated stream keeps its complete lines', bool(incr) and not oneshot,
           'zlib.decompressobj(): what was inflated before the damage is kept' if incr and not oneshot else
           'zlib.decompress() is all-or-nothing: an objects.inv cut short by a few bytes (interrupted download) yields no entry at all, although almost '
           'every line is recoverable - "usable lines in the same file still resolve" does not hold', repo.loc(zf.mod, inflate[0]))
    # the recovery feed: a decompressor raises for the WHOLE chunk it was given, the bytes that chunk had already inflated are lost with the exception.
    # "What precedes the damage is kept" therefore needs the feed inside the recovery loop to be one byte wide (zlib API fact; a wider stride loses up
    # to a chunk of good lines, and everything of an inventory smaller than the chunk)
    for c in inflate:
        lp = next((p_ for p_ in parents(c) if isinstance(p_, (ast.For, ast.While))), None)
        if lp is None or c in oneshot or not c.args:
            continue
        a = c.args[0]
        width: Optional[str] = None
        if isinstance(lp, ast.For) and isinstance(lp.target, ast.Name) and isinstance(lp.iter, ast.Call) and call_name(lp.iter) == 'range':
            iv = lp.target.id
            step = lp.iter.args[2] if len(lp.iter.args) == 3 else None
            step_one = step is None or (isinstance(step, ast.Constant) and step.value == 1)
            if isinstance(a, ast.Subscript) and isinstance(a.slice, ast.Slice) and isinstance(a.slice.lower, ast.Name) and a.slice.lower.id == iv and \
                    isinstance(a.slice.upper, ast.BinOp) and isinstance(a.slice.upper.op, ast.Add) and a.slice.step is None:
                ops = [a.slice.upper.left, a.slice.upper.right]
                other = [o for o in ops if not (isinstance(o, ast.Name) and o.id == iv)]
                if len(other) == 1:
                    one = isinstance(other[0], ast.Constant) and other[0].value == 1
                    width = '1' if (one and step_one) else f'{norm(other[0])} (range step {norm(step) if step is not None else 1})'
        elif isinstance(lp, ast.For) and isinstance(lp.target, ast.Name) and isinstance(a, ast.Call) and call_name(a) == 'bytes' and len(a.args) == 1 and \
                isinstance(a.args[0], (ast.List, ast.Tuple)) and len(a.args[0].elts) == 1 and norm(a.args[0].elts[0]) == lp.target.id:
            width = '1'
        if width is None:
            raise AnalysisError(f'R17.3: the recovery feed `{norm(c)[:60]}` in _getPayload is not of a recognised form (x[i:i + 1] over range(len(x)), or bytes([b]))')
        chk.ob('R17.3', f'{READER}._getPayload :: the recovery feed is one byte wide', width == '1',
               'decompress(x[i:i + 1]) for every i: an exception loses at most the damaged byte' if width == '1' else
               f'the recovery loop feeds chunks of width {width}: decompress() raises for the whole chunk that contains the damage, so what that chunk had already inflated is '
               'lost - an inventory whose compressed part is smaller than the chunk (any small project) yields no entry at all after one damaged byte, larger ones lose dozens of '
               'usable lines in front of the damage', repo.loc(zf.mod, c))
    # stage 2, decode: a line that is not UTF-8 must not take the other lines with it
    # (_getPayload together with the private helpers of its module / class it hands the data to: `return _decodeUsableLines(decompressed)`)
    units = [gp] + [g for g in repo.funcs.values() if g.mod is gp.mod and g is not gp and g.name.startswith('_') and not g.name.startswith('__') and g.outer is None and
                    (g.cls is None or g.cls is gp.cls) and any(call_name(c) == g.name for c in calls_in(gp))]
    unit_of = {id(n): g for g in units for n in g.walk()}
    all_nodes = [n for g in units for n in g.walk()]

    def _trys(c: ast.AST) -> list:
        return enclosing_trys(c, unit_of[id(c)].node)
    dec = [c for g in units for c in calls_in(g) if call_name(c) == 'decode']
    if not dec:
        raise AnalysisError('R17.3: no decode() call in _getPayload')
    hs = []
    for c in dec:
        for t in _trys(c):
            h = _handles(t, 'UnicodeDecodeError')
            if h is not None and h not in hs:
                hs.append(h)
    # (the per-line handlers nested in a reporting handler may drop their line silently: the problem has been reported once)
    okh = bool(hs) and all(not reraises(h) for h in hs) and \
        any(any(isinstance(n, ast.Call) and call_name(n) == 'error' for st in h.body for n in ast.walk(st)) for h in hs) and \
        all(any(_handles(t, 'UnicodeDecodeError') is not None for t in _trys(c)) for c in dec)
    chk.ob('R17.3', f'{READER}._getPayload :: decode failure is caught and reported', okh,
           'except UnicodeError: self.error(...)' if okh else 'a failing decode() is not caught / not reported', repo.loc(gp.mod, dec[0]))
    linewise = any(isinstance(n, (ast.For, ast.ListComp, ast.GeneratorExp)) and any(isinstance(x, ast.Call) and call_name(x) == 'decode' for x in ast.walk(n)) for n in all_nodes) or \
        any(isinstance(k.value, ast.Constant) and k.value.value in ('replace', 'ignore', 'backslashreplace', 'surrogateescape') for c in dec for k in c.keywords) or \
        any(isinstance(a, ast.Constant) and a.value in ('replace', 'ignore', 'backslashreplace', 'surrogateescape') for c in dec for a in c.args[1:])
    chk.ob('R17.3', f'{READER}._getPayload :: an undecodable line does not discard the others', linewise,
           'decoded line by line (or with a lossy error handler)' if linewise else
           'the payload is decoded in one piece and \'\' is returned on UnicodeError: one Latin-1 display name in a remote inventory makes every other entry of '
           'that inventory unresolvable', repo.loc(gp.mod, dec[0]))
    # the line-by-line fallback must work on the INFLATED bytes (the variable the decompress result was stored in)
    infl_vars = {t.id for n in gp.walk() if isinstance(n, ast.Assign) and isinstance(n.value, ast.Call) and call_name(n.value) == 'decompress'
                 for t in n.targets if isinstance(t, ast.Name)}
    if zf is not gp:
        # the inflated data comes back from the helper that holds the inflate stage: `data, complete = _helper(payload)`
        infl_vars |= {x.id for n in gp.walk() if isinstance(n, ast.Assign) and isinstance(n.value, ast.Call) and call_name(n.value) == zf.name
                      for t in n.targets for x in (t.elts if isinstance(t, ast.Tuple) else [t]) if isinstance(x, ast.Name)}
    for n in all_nodes:
        if isinstance(n, (ast.For, ast.comprehension)) and any(isinstance(x, ast.Call) and call_name(x) == 'decode' for x in ast.walk(n if isinstance(n, ast.For) else getattr(n, '_parent', n))):
            srcn = [x.id for x in ast.walk(n.iter) if isinstance(x, ast.Name)]
            if not srcn:
                continue
            g_n = unit_of[id(n)]
            if g_n is not gp:
                # the loop lives in a helper and runs over its parameter: what counts is what _getPayload passes for it
                gpar = [p_.arg for p_ in g_n.params() if p_.arg not in ('self', 'cls')]
                passed = []
                for v in srcn:
                    if v in gpar:
                        for cc in calls_in(gp):
                            if call_name(cc) == g_n.name and gpar.index(v) < len(cc.args):
                                passed += [x.id for x in ast.walk(cc.args[gpar.index(v)]) if isinstance(x, ast.Name)]
                    else:
                        passed.append(v)
                srcn = passed
            okv = bool(infl_vars) and all(v in infl_vars for v in srcn if v not in ('bytes', 'str'))
            chk.ob('R17.3', f'{READER}._getPayload :: the per-line fallback splits the inflated data', okv,
                   f'iterates {norm(n.iter)[:40]}' if okv else
                   f'`{norm(n.iter)[:50]}` is not the result of decompress(): the fallback decodes lines of the still-compressed payload, so one undecodable line again '
                   'loses every usable line of the inventory', repo.loc(gp.mod, n.iter))
    # header skipping: `parts = data.split(b"\\n", 1)` has ONE element when there is no newline (a download cut inside the header)
    cfgs_u = {g.qn: (cfgp if g is gp else CFG(g)) for g in units}
    for n in all_nodes:
        if isinstance(n, ast.Subscript) and isinstance(n.value, ast.Name) and isinstance(n.slice, ast.Constant) and isinstance(n.slice.value, int) and n.slice.value >= 1 and \
                isinstance(n.ctx, ast.Load):
            g_n = unit_of[id(n)]
            cfgn = cfgs_u[g_n.qn]
            origin = [a.value for a in g_n.walk() if isinstance(a, ast.Assign) and any(isinstance(t, ast.Name) and t.id == n.value.id for t in a.targets)]
            if not any(isinstance(v, ast.Call) and call_name(v) in ('split', 'rsplit') for v in origin):
                continue
            st_n = cfgn.stmt_of(n)
            facts = cfgn.dominating_tests(st_n)
            lenok = any(isinstance(t, ast.Compare) and len(t.ops) == 1 and isinstance(t.left, ast.Call) and call_name(t.left) == 'len' and t.left.args and
                        norm(t.left.args[0]) == n.value.id and isinstance(t.comparators[0], ast.Constant) and
                        ((isinstance(t.ops[0], ast.NotEq) and not pol and t.comparators[0].value > n.slice.value) or
                         (isinstance(t.ops[0], ast.Eq) and pol and t.comparators[0].value > n.slice.value) or
                         (isinstance(t.ops[0], (ast.Gt, ast.GtE)) and pol)) for t, pol in facts)
            intry = any(_handles(t, 'IndexError') is not None for t in _trys(n))
            chk.ob('R17.3', f'{READER}._getPayload :: {norm(n)} is only read when the split produced it', lenok or intry,
                   'dominated by a length test' if lenok else 'inside try/except IndexError' if intry else
                   f'`{norm(n)}` is read without knowing that the split found a separator: data that ends inside the `#` header lines (a truncated download such as '
                   "b'# Sphinx inventory version 2') raises IndexError and the run aborts", repo.loc(gp.mod, n))
    up = repo.func(f'{READER}.update')
    cfg_up = CFG(up)
    pl = [c for c in calls_in(up) if call_name(c) == '_getPayload']
    ok = bool(pl)
    for c in pl:
        tests = cfg_up.dominating_tests(cfg_up.stmt_of(c))
        datav = {norm(a) for a in c.args}
        if not any(pol and isinstance(t, ast.Name) and t.id in datav for t, pol in tests):
            ok = False
    chk.ob('R17.3', f'{READER}.update :: missing data reported before decoding', ok,
           '_getPayload is only reached when the cache returned data' if ok else '_getPayload may be called with no data', up.loc)
    chk.require('R17.3', 7)

    # ------------------------------------------------------------ R17.4
    gl = repo.func(f'{WRITER}._generateLine')
    rets = [n for n in gl.walk() if isinstance(n, ast.Return) and isinstance(n.value, ast.JoinedStr)]
    if len(rets) != 1:
        chk.error(f'R17.4: expected one f-string return in _generateLine, found {len(rets)}')
    else:
        js = rets[0].value
        tmpl = ''
        holes: List[ast.AST] = []
        for v in js.values:
            if isinstance(v, ast.Constant):
                tmpl += str(v.value)
            elif isinstance(v, ast.FormattedValue):
                # a hole filled with a class constant (`{self._PRIORITY}`) is constant text
                cv = None
                if isinstance(v.value, ast.Attribute) and dotted(v.value.value) in ('self', 'cls') and gl.cls is not None and v.value.attr in gl.cls.aliases:
                    try:
                        cv = ast.literal_eval(gl.cls.aliases[v.value.attr])
                    except Exception:
                        cv = None
                if cv is not None and v.conversion == -1 and v.format_spec is None:
                    tmpl += str(cv)
                else:
                    tmpl += '\x00'
                    holes.append(v.value)
        fields = tmpl.rstrip('\n').split(' ')
        ok5 = len(fields) == 5 and tmpl.endswith('\n')
        chk.ob('R17.4', f'{WRITER}._generateLine :: five space separated columns, newline terminated', ok5,
               f'template {tmpl!r}'.replace('\x00', '{}'), gl.loc)
        if ok5:
            chk.ob('R17.4', f'{WRITER}._generateLine :: type column starts with py:', fields[1].startswith('py:'),
                   f'second column is {fields[1]!r}'.replace('\x00', '{}'), gl.loc)
            try:
                int(fields[2])
                okp = True
            except ValueError:
                okp = False
            chk.ob('R17.4', f'{WRITER}._generateLine :: priority column is an int literal', okp, f'third column {fields[2]!r}', gl.loc)

            def values_of(e: ast.AST) -> List[ast.AST]:
                if isinstance(e, ast.Name):
                    vals = [n.value for n in gl.walk() if isinstance(n, ast.Assign) and any(isinstance(t, ast.Name) and t.id == e.id for t in n.targets)]
                    out_v: List[ast.AST] = []
                    for v in vals:
                        hs_ = [g for g in repo.funcs.values() if isinstance(v, ast.Call) and g.cls is gl.cls and g is not gl and g.name == call_name(v) and g.name.startswith('_')]
                        if hs_:
                            # the value chosen by a private helper of the writer (`domainname = self._getDomainName(obj)`): what it returns - its None
                            # ("unknown type") is replaced before use when the caller tests for it
                            none_tested = any(isinstance(c_, ast.Compare) and norm(c_.left) == e.id and norm(c_.comparators[0]) == 'None' for c_ in gl.walk())
                            for r_ in hs_[0].walk():
                                if isinstance(r_, ast.Return) and r_.value is not None and not (none_tested and isinstance(r_.value, ast.Constant) and r_.value.value is None):
                                    out_v.append(r_.value)
                        else:
                            out_v.append(v)
                    return out_v
                return [e]
            hole_of = {}
            hi = 0
            for i, fld in enumerate(fields):
                if '\x00' in fld:
                    hole_of[i] = holes[hi]
                    hi += fld.count('\x00')
            objp = gl.params()[1].arg if len(gl.params()) > 1 else 'obj'
            nv = values_of(hole_of.get(0)) if 0 in hole_of else []
            okn = bool(nv) and all(isinstance(v, ast.Call) and call_name(v) == 'fullName' and dotted(v.func.value) == objp for v in nv)  # type: ignore[attr-defined]
            chk.ob('R17.4', f'{WRITER}._generateLine :: name column is the qualified name', okn,
                   f'{objp}.fullName()' if okn else 'first column is not obj.fullName()', gl.loc)
            uv = values_of(hole_of.get(3)) if 3 in hole_of else []
            oku = bool(uv) and all(isinstance(v, ast.Attribute) and v.attr == 'url' and dotted(v.value) == objp for v in uv)
            chk.ob('R17.4', f'{WRITER}._generateLine :: location column is the documented url', oku,
                   f'{objp}.url' if oku else 'fourth column is not obj.url', gl.loc)
            dv = values_of(hole_of.get(4)) if 4 in hole_of else [ast.Constant(fields[4])]
            okd = bool(dv) and all(isinstance(v, ast.Constant) and isinstance(v.value, str) and v.value.strip() for v in dv)
            chk.ob('R17.4', f'{WRITER}._generateLine :: display column is never empty', okd,
                   'constant non-empty display name' if okd else 'display column may be empty: the reader rejects such a line', gl.loc)
            dm = values_of(hole_of.get(1)) if 1 in hole_of else []
            okm = bool(dm) and all(isinstance(v, ast.Constant) and isinstance(v.value, str) and v.value and ' ' not in v.value for v in dm)
            chk.ob('R17.4', f'{WRITER}._generateLine :: domain names are space-free constants', okm,
                   ', '.join(sorted({v.value for v in dm if isinstance(v, ast.Constant)})) if okm else 'type column may contain a space / be empty', gl.loc)
    gc = repo.func(f'{WRITER}._generateContent')
    loops = [n for n in gc.walk() if isinstance(n, ast.For)]
    ok = False
    detail = 'no loop over the subjects'
    for lp in loops:
        if not isinstance(lp.target, ast.Name):
            continue
        v = lp.target.id
        lines = [c for st in lp.body for c in ast.walk(st) if isinstance(c, ast.Call) and call_name(c) == '_generateLine' and
                 c.args and isinstance(c.args[0], ast.Name) and c.args[0].id == v]
        rec = [c for st in lp.body for c in ast.walk(st) if isinstance(c, ast.Call) and call_name(c) == '_generateContent' and
               c.args and f'{v}.contents' in norm(c.args[0])]
        if len(lines) == 1 and len(rec) == 1:
            ok = True
            detail = 'one line per subject, recursion over its contents'
        else:
            detail = f'{len(lines)} _generateLine call(s) and {len(rec)} recursive call(s) per subject (expected 1 and 1)'
    chk.ob('R17.4', f'{WRITER}._generateContent :: one line per object, whole subtree', ok, detail, gc.loc)
    from ..util import loop_exits
    for lp in loops:
        cut = loop_exits(lp)
        chk.ob('R17.4', f'{WRITER}._generateContent :: an invisible object is skipped, its siblings are not', not cut,
               'no break / return inside the loop over the subjects' if not cut else
               f'`{norm(cut[0])}` (line {cut[0].lineno}) ends the loop: every visible object listed after the first hidden sibling, with its whole '
               'subtree, is missing from objects.inv', repo.loc(gc.mod, lp))
    gen = repo.func(f'{WRITER}.generate')
    comp = [c for c in calls_in(gen) if call_name(c) == 'compress']
    hdr = [c for c in calls_in(gen) if call_name(c) == '_generateHeader']
    chk.ob('R17.4', f'{WRITER}.generate :: header then compressed content', bool(comp) and bool(hdr) and
           CFG(gen).before(hdr[0], comp[0]) if comp and hdr else False,
           'header written before the zlib-compressed content (what _getPayload strips and inflates)', gen.loc)
    chk.require('R17.4', 9)

    # ------------------------------------------------------------ R17.5 the inventory lists what was written
    mk = repo.func('pydoctor.driver.make')
    cfgk = CFG(mk)
    wr = [c for c in calls_in(mk) if call_name(c) == 'writeIndividualFiles']
    gn = [c for c in calls_in(mk) if call_name(c) == 'generate']
    if not wr or not gn:
        chk.error('R17.5: writeIndividualFiles(...) / generate(...) calls not found in driver.make')
    else:
        wa = wr[0].args[0] if wr[0].args else None
        ga = next((kw.value for kw in gn[0].keywords if kw.arg == 'subjects'), gn[0].args[0] if gn[0].args else None)
        same = isinstance(wa, ast.Name) and isinstance(ga, ast.Name) and wa.id == ga.id
        chk.ob('R17.5', 'pydoctor.driver.make :: inventory subjects are the written subjects', same,
               f'both use `{wa.id}`' if same and isinstance(wa, ast.Name) else 'generate() and writeIndividualFiles() receive different variables', mk.loc)
        if same and isinstance(wa, ast.Name):
            after = cfgk.reachable(cfgk.stmt_of(wr[0]), no_exc=True)
            rebinds = [n for n in mk.walk() if isinstance(n, ast.Assign) and id(n) in after and
                       any(isinstance(t, ast.Name) and t.id == wa.id for t in n.targets)]
            bad = []
            for rb in rebinds:
                tests = cfgk.dominating_tests(rb)
                if not any((isinstance(t, ast.UnaryOp) and isinstance(t.op, ast.Not) and 'makehtml' in norm(t.operand) and pol) or
                           ('makehtml' in norm(t) and not isinstance(t, ast.UnaryOp) and not pol) for t, pol in tests):
                    bad.append(rb)
            chk.ob('R17.5', 'pydoctor.driver.make :: subjects only replaced when no HTML was written', not bad,
                   'the subjects are re-bound only under `not options.makehtml`' if not bad else
                   f'`{norm(bad[0])}` (line {bad[0].lineno}) replaces the subjects after the pages were written: the inventory maps names to pages '
                   'that were not generated (--html-subject / --html-summary-pages)', mk.loc)

    # ------------------------------------------------------------------ R17.6
    # getLink expands the abbreviation of the inventory format: a location ending in `$` stands for the location with the name in its place.
    # Whatever the tested suffix is, the characters replaced by the name are exactly the characters tested for: `endswith(S)` + `[:-k] + name` with
    # k != len(S) either leaves a part of the marker in the link or only recognises the marker behind a fixed prefix (`#$` but not `#module-$`)
    gl = repo.func('pydoctor.sphinx.SphinxInventory.getLink')
    n6 = 0
    for n in gl.walk():
        if not isinstance(n, ast.If):
            continue
        ew = [c for c in ast.walk(n.test) if isinstance(c, ast.Call) and isinstance(c.func, ast.Attribute) and c.func.attr == 'endswith' and c.args and
              isinstance(c.args[0], ast.Constant) and isinstance(c.args[0].value, str) and isinstance(c.func.value, ast.Name)]
        for c in ew:
            v = c.func.value.id
            cuts = [x for st in n.body for x in ast.walk(st) if isinstance(x, ast.Subscript) and isinstance(x.value, ast.Name) and x.value.id == v and
                    isinstance(x.slice, ast.Slice) and x.slice.lower is None and isinstance(x.slice.upper, ast.UnaryOp) and isinstance(x.slice.upper.op, ast.USub) and
                    (isinstance(x.slice.upper.operand, ast.Constant) or
                     (isinstance(x.slice.upper.operand, ast.Call) and call_name(x.slice.upper.operand) == 'len' and x.slice.upper.operand.args and
                      isinstance(x.slice.upper.operand.args[0], ast.Constant)))]
            for x in cuts:
                n6 += 1
                opd = x.slice.upper.operand
                k = opd.value if isinstance(opd, ast.Constant) else len(opd.args[0].value)
                ok6 = k == len(c.args[0].value)
                chk.ob('R17.6', 'pydoctor.sphinx.SphinxInventory.getLink :: the tested suffix is the replaced suffix', ok6,
                       f'`{norm(c)}` and `{norm(x)}`' if ok6 else
                       f'`{norm(c)}` tests for {len(c.args[0].value)} character(s) but `{norm(x)}` replaces {k}: the `$` that stands for the name is only expanded '
                       'behind that prefix - `library/os.path.html#module-$` (every module entry Sphinx writes) keeps its `$` and resolves to an anchor that '
                       'does not exist', repo.loc(gl.mod, c))
    # the abbreviation is a SUFFIX of the location (`...#module-$`): recognising it by equality with a whole component (`anchor == '$'`) is the same defect
    # in another spelling
    for cmp_ in [x for x in gl.walk() if isinstance(x, ast.Compare) and len(x.ops) == 1 and isinstance(x.ops[0], (ast.Eq, ast.NotEq)) and
                 any(isinstance(o, ast.Constant) and isinstance(o.value, str) and o.value.endswith('$') for o in [x.left] + x.comparators)]:
        n6 += 1
        chk.ob('R17.6', 'pydoctor.sphinx.SphinxInventory.getLink :: the `$` abbreviation is recognised as a suffix', False,
               f'`{norm(cmp_)}` only recognises the marker when it is the whole anchor: `library/os.path.html#module-$` (every module entry Sphinx writes) keeps its `$` '
               'and resolves to an anchor that does not exist', repo.loc(gl.mod, cmp_))
    if n6 < 1:
        raise AnalysisError('R17.6: the `$` expansion of getLink (endswith + slice) was not found')
    chk.require('R17.6', 1)

    # ------------------------------------------------------------------ R17.3 (addition): a damaged stream keeps what precedes the damage
    # "usable lines in the same file still resolve": truncation is handled by reading `eof`; a flipped byte in the MIDDLE of the stream makes
    # decompress() raise after it has inflated everything before it.  The handler of zlib.error must not throw that away (`decompressed = b\'\'`)
    gp = zf
    hs = [h for t in gp.walk() if isinstance(t, ast.Try) for h in t.handlers if h.type is not None and 'zlib.error' in norm(h.type) and
          any(isinstance(c, ast.Call) and call_name(c) == 'decompress' for st in t.body for c in ast.walk(st))]
    if not hs:
        raise AnalysisError('R17.3: the zlib.error handler around decompress() was not found in _getPayload')
    for h in hs:
        empties = [a for st in h.body for a in ast.walk(st) if isinstance(a, ast.Assign) and isinstance(a.value, ast.Constant) and a.value.value == b'']
        # what the handler leaves in the variable(s) the try body assigned: the LAST top-level assignment of the handler decides
        tvars = {t.id for t_ in gp.walk() if isinstance(t_, ast.Try) and h in t_.handlers for st in t_.body for a in ast.walk(st) if isinstance(a, ast.Assign)
                 for t in a.targets if isinstance(t, ast.Name)}
        last = {}
        for st in h.body:
            if isinstance(st, ast.Assign):
                for t in st.targets:
                    if isinstance(t, ast.Name) and t.id in tvars:
                        last[t.id] = st
        empties = [a for a in last.values() if isinstance(a.value, ast.Constant) and a.value.value == b'']
        okh = not empties
        chk.ob('R17.3', 'pydoctor.sphinx.SphinxInventory._getPayload :: a damaged stream keeps the lines before the damage', okh,
               'the handler recovers the prefix' if okh else
               f'`{norm(empties[0])}` in the zlib.error handler: one inverted byte at 3/4 of a 400-line inventory makes every entry unresolvable, although 398 lines inflate fine '
               'when the stream is fed step by step', repo.loc(gp.mod, h))
