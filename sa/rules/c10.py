"""
C10 - well-formed pages; source text never becomes markup.  Decides the raw-markup sink discipline:
  R10.1 sink census (who may parse strings as markup, tag names / attribute names constant)
  R10.2 HTMLTranslator.body only receives literals or escaping producers
  R10.3 signature path: values handed to inspect.Signature are the escaping formatters
  R10.4 control characters neutralised before re-parsing
  R10.5 reST interpolation in the deprecation extension is validated
  R10.6 templates parse as XML; their renderers and slots exist
  R10.7 a module's own __docformat__ wins over its package's (which parser sees the text)
  R10.8 a catch-all handler hands helpers only arguments whose every Union member the helper accepts
  R10.9 docutils' own text-to-markup paths (math2html, URL schemes, the <object> alternate text - encoded on every path) are closed in the translator
  R10.10 docutils' escaping primitives (encode, attval, starttag) are not replaced by a translator subclass, only extended through super()
Trusted base: twisted.web.template flattening escapes text/attribute values; docutils' encode/attval/starttag escape.
"""
from __future__ import annotations

import ast
from pathlib import Path
from typing import Dict, List, Optional, Set, Tuple

from ..core import AnalysisError, Func, Repo, dotted, norm, parents
from ..cfg import CFG
from ..report import Check
from ..templates import load_templates
from ..util import call_name, calls_in, const_str, enclosing_trys, is_catch_all
from .c15 import check_control_escape

TRANSLATOR = 'pydoctor.node2stan.HTMLTranslator'
ESCAPING_PRODUCERS = {'flatten', 'starttag', 'encode', 'attval', 'emptytag'}
XML_PARSERS = {'XMLString', 'XMLFile'}
ALLOWED_XML_PARSER_SITES = {
    'pydoctor.stanutils.html2stan': 're-parses HTML produced by the translators (R10.2/R10.3 feed it)',
    'pydoctor.templatewriter.HtmlTemplate.__init__': 'loads a theme template (trusted input: shipped or --template-dir)',
}
ALLOWED_HTML2STAN_CALLERS = {
    'pydoctor.node2stan.node2stan': 'joins HTMLTranslator.body (R10.2)',
    'pydoctor.templatewriter.pages.format_signature': 'str(Signature) whose values are the escaping formatters (R10.3)',
}


def run(repo: Repo, chk: Check, thorough: bool = False) -> None:
    chk.explanation = ('who-may-call census of the places where a string is parsed as markup; provenance classification of every value '
                       'appended to the HTML translator body and of every value handed to inspect.Parameter/Signature; must-pass-through of '
                       'the control-character filter; guard structure of the reST interpolation in the deprecation extension; XML parse and '
                       'renderer/slot census of the theme templates')
    chk.assumptions = ['twisted.web.template escapes text nodes and attribute values when flattening',
                       'docutils HTMLTranslator.encode/attval/starttag escape; the reST `raw` and `include` directives are explicit opt-ins',
                       'identifiers taken from the Python AST (names, argument names) contain no markup characters (guaranteed by the grammar)']

    # ------------------------------------------------------------------ R10.1
    n_sinks = 0
    for f in repo.funcs.values():
        if f.mod.name.startswith('pydoctor.sphinx_ext'):
            continue
        for c in calls_in(f):
            nm = call_name(c)
            if nm in XML_PARSERS:
                n_sinks += 1
                ok = f.qn in ALLOWED_XML_PARSER_SITES
                chk.ob('R10.1', f'{f.qn} :: {nm}(...)', ok,
                       ALLOWED_XML_PARSER_SITES.get(f.qn, '') if ok else
                       f'{nm}() parses a string as markup outside html2stan / template loading: text reaching it is not escaped', repo.loc(f.mod, c))
            elif nm == 'html2stan' and f.qn != 'pydoctor.stanutils.html2stan':
                n_sinks += 1
                ok = f.qn in ALLOWED_HTML2STAN_CALLERS
                chk.ob('R10.1', f'{f.qn} :: html2stan(...)', ok,
                       ALLOWED_HTML2STAN_CALLERS.get(f.qn, '') if ok else
                       'html2stan() re-parses its argument as HTML: a new caller must feed it escaped text only', repo.loc(f.mod, c))
            elif nm == 'Tag' and isinstance(c.func, ast.Name) and c.args:
                n_sinks += 1
                ok = isinstance(c.args[0], ast.Constant)
                chk.ob('R10.1', f'{f.qn} :: Tag({norm(c.args[0])[:30]})', ok,
                       'constant tag name' if ok else 'tag name computed at run time', repo.loc(f.mod, c))
            # attribute names: no event handlers, ** expansions only with constant keys
            if isinstance(c.func, (ast.Attribute, ast.Name, ast.Call)) and _is_tag_call(repo, f, c):
                for kw in c.keywords:
                    if kw.arg is not None and kw.arg.lower().startswith('on'):
                        chk.ob('R10.1', f'{f.qn} :: attribute {kw.arg}', False, 'event-handler attribute built in Python code', repo.loc(f.mod, c))
                    if kw.arg is None:
                        keys_ok, why = _const_dict_keys(f, kw.value)
                        n_sinks += 1
                        chk.ob('R10.1', f'{f.qn} :: **{norm(kw.value)[:30]} into a tag', keys_ok, why, repo.loc(f.mod, c))
            d = dotted(c.func) or ''
            if d in ('tags.script', 'tags.style', 'tags.iframe', 'tags.object', 'tags.embed'):
                chk.ob('R10.1', f'{f.qn} :: {d}', False, f'{d} element built in Python code', repo.loc(f.mod, c))
    chk.stats['markup_sinks'] = n_sinks
    chk.require('R10.1', 8)

    # ------------------------------------------------------------------ R10.2
    tr = repo.cls(TRANSLATOR)
    n_app = 0
    for m in tr.methods.values():
        for n in m.walk():
            vals: List[ast.AST] = []
            if isinstance(n, ast.Call) and call_name(n) in ('append', 'extend', 'insert') and isinstance(n.func, ast.Attribute) and \
                    dotted(n.func.value) == 'self.body':
                vals = list(n.args[-1:])
            elif isinstance(n, ast.AugAssign) and dotted(n.target) == 'self.body':
                vals = [n.value]
            for v in vals:
                n_app += 1
                ok, why = _escaped_value(m, v)
                chk.ob('R10.2', f'{m.qn} :: self.body <- {norm(v)[:50]}', ok, why, repo.loc(m.mod, n))
    if n_app < 5:
        chk.error(f'R10.2: only {n_app} writes to HTMLTranslator.body found (7 confirmed by hand)')
    chk.require('R10.2', 5)

    # ------------------------------------------------------------------ R10.3
    fmts = {'_ValueFormatter', '_AnnotationValueFormatter'}
    n_sig = 0
    for f in repo.funcs.values():
        if f.mod.name != 'pydoctor.astbuilder':
            continue
        for c in calls_in(f, lambda c: call_name(c) in ('Parameter', 'Signature')):
            for kw in c.keywords:
                if kw.arg not in ('default', 'annotation', 'return_annotation'):
                    continue
                n_sig += 1
                ok, why = _formatter_value(f, kw.value, fmts)
                chk.ob('R10.3', f'{f.qn} :: {call_name(c)}({kw.arg}={norm(kw.value)[:30]})', ok, why, repo.loc(f.mod, c))
    if n_sig < 3:
        chk.error(f'R10.3: only {n_sig} default/annotation values handed to inspect.Parameter/Signature found (3 confirmed by hand)')
    for cname in sorted(fmts):
        c = repo.cls(f'pydoctor.astbuilder.{cname}')
        r = c.methods.get('__repr__')
        if r is None:
            chk.error(f'R10.3: {cname}.__repr__ not found')
            continue
        rets = [n for n in r.walk() if isinstance(n, ast.Return)]
        ok = bool(rets)
        why = ''
        for rt in rets:
            v = rt.value
            if isinstance(v, ast.BinOp) and isinstance(v.op, ast.Mod) and isinstance(v.left, ast.Constant) and isinstance(v.left.value, str):
                operand = v.right
                if not (isinstance(operand, ast.Call) and call_name(operand) == '__repr__' and 'super()' in norm(operand)):
                    ok = False
                    why = f'the %-template is filled with {norm(operand)[:40]}, not with the escaped repr of the parent class'
                continue
            if isinstance(v, ast.Call) and call_name(v) == 'join' and v.args and isinstance(v.args[0], ast.Call) and \
                    call_name(v.args[0]) == 'node2html':
                continue
            if isinstance(v, ast.Call) and call_name(v) == 'flatten':
                continue
            # the same template as an f-string: constant text around `super().__repr__()`
            if isinstance(v, ast.JoinedStr) and all(isinstance(x, ast.Constant) or (isinstance(x, ast.FormattedValue) and isinstance(x.value, ast.Call) and
                                                                                     call_name(x.value) == '__repr__' and 'super()' in norm(x.value)) for x in v.values):
                continue
            ok = False
            why = f'returns {norm(v)[:50]}: not produced by the escaping HTML translator'
        chk.ob('R10.3', f'pydoctor.astbuilder.{cname}.__repr__ :: only translator output', ok,
               "''.join(node2html(...)) / constant template around super().__repr__()" if ok else why, r.loc)
    fs = repo.func('pydoctor.templatewriter.pages.format_signature')
    strs = [c for c in calls_in(fs) if call_name(c) == 'str' and c.args and 'signature' in norm(c.args[0])]
    ok = bool(strs) and all(any(is_catch_all(h) for t in enclosing_trys(c, fs.node) for h in t.handlers) for c in strs)
    chk.ob('R10.3', 'pydoctor.templatewriter.pages.format_signature :: str(signature) parsed inside the catch-all', ok,
           'ill-formed HTML degrades to "(...)"' if ok else 'str(func.signature) is re-parsed outside the catch-all', fs.loc)
    # nobody else stringifies a signature into markup
    for f in repo.funcs.values():
        if f is fs or f.mod.name.startswith('pydoctor.sphinx_ext'):
            continue
        for c in calls_in(f, lambda c: call_name(c) in ('str', 'repr', 'format')):
            if c.args and isinstance(c.args[0], ast.Attribute) and c.args[0].attr == 'signature':
                chk.ob('R10.3', f'{f.qn} :: {norm(c)[:40]}', False,
                       'a Signature (whose parts are raw HTML strings) is stringified outside format_signature', repo.loc(f.mod, c))
    # who may write Function.signature: format_signature parses str(signature) as HTML, so whatever is stored there must spell its values as escaped text.
    # astbuilder's constructions are covered above; a Signature taken from a live object (inspect.signature of an introspected C function: defaults are the
    # real objects, their plain repr() would become markup) has to go through a function that replaces every default / annotation by an escaping wrapper
    def _sanitising(g: Func) -> bool:
        reps = [c for c in calls_in(g) if call_name(c) == 'replace' and isinstance(c.func, ast.Attribute)]
        kws = {k.arg for c in reps for k in c.keywords}
        called_g = {call_name(c) for c in calls_in(g)}
        scope = [g] + [h for h in repo.funcs.values() if h.outer is g or (h.mod is g.mod and h.cls is None and h.outer is None and h.name.startswith('_') and h.name in called_g)]
        helpers = {nm for h in scope for c in calls_in(h) if call_name(c) == 'escape' for nm in [h.name]} | \
            {k.name for k in repo.classes.values() if k.mod is g.mod and any(call_name(c) == 'escape' for m in k.methods.values() for c in calls_in(m))}
        from ..util import single_value

        def _val(e: ast.AST) -> ast.AST:
            v_ = single_value(g, e.id) if isinstance(e, ast.Name) else None      # a named intermediate: `ra = escaped(...)` ; `replace(return_annotation=ra)`
            return v_ if v_ is not None else e
        wrapped = all(any(isinstance(x, ast.Call) and (call_name(x) in helpers or any(call_name(y) in helpers for h in scope if h.name == call_name(x) for y in calls_in(h)))
                          for x in ast.walk(_val(k.value))) for c in reps for k in c.keywords if k.arg in ('default', 'annotation', 'return_annotation'))
        return {'default', 'annotation', 'return_annotation', 'parameters'} <= kws and bool(helpers) and wrapped
    # ... or the one consumer does it: format_signature stringifies the result of such a function, which keeps the escaping formatters and wraps the rest
    def _keeps_formatters(g: Func) -> bool:
        return any(isinstance(c, ast.Call) and call_name(c) == 'isinstance' and len(c.args) == 2 and any(nm_ in norm(c.args[1]) for nm_ in fmts)
                   for h in [g] + [h for h in repo.funcs.values() if h.outer is g or (h.mod is g.mod and h.cls is None and h.outer is None and h.name.startswith('_') and
                                                                                         h.name in {call_name(c) for c in calls_in(g)})] for c in calls_in(h))
    consumer_ok = bool(strs) and all(isinstance(c.args[0], ast.Call) and (lambda cal: bool(cal) and all(_sanitising(g) and _keeps_formatters(g) for g in cal))(repo.callees(c.args[0], fs)[0])
                                     for c in strs)
    n_w = 0
    for f in repo.funcs.values():
        if f.mod.name.startswith('pydoctor.sphinx_ext') or '.test' in f.mod.name:
            continue
        for a in f.walk():
            if not (isinstance(a, ast.Assign) and any(isinstance(t, ast.Attribute) and t.attr == 'signature' for t in a.targets)):
                continue
            n_w += 1
            v = a.value
            okw, whyw = False, f'`{norm(v)[:50]}` is stored as it is: the plain repr() of its default values and annotations is parsed as HTML by format_signature'
            if isinstance(v, ast.Constant) and v.value is None:
                okw, whyw = True, 'None'
            elif isinstance(v, ast.Call) and call_name(v) == 'Signature' and f.mod.name == 'pydoctor.astbuilder':
                okw, whyw = True, 'built from the escaping value formatters (checked above)'
            elif isinstance(v, ast.Name) and any(isinstance(n, ast.Assign) and isinstance(n.value, ast.Call) and call_name(n.value) == 'Signature' and
                                                 any(isinstance(t, ast.Name) and t.id == v.id for t in n.targets) for n in f.walk()) and f.mod.name == 'pydoctor.astbuilder':
                okw, whyw = True, 'built from the escaping value formatters (checked above)'
            elif isinstance(v, ast.Call):
                cal, _h = repo.callees(v, f)
                if cal and all(_sanitising(g) for g in cal):
                    okw, whyw = True, f'{cal[0].name}() replaces every default and annotation by escaped text'
            if not okw and consumer_ok:
                okw, whyw = True, 'stored as it is; format_signature escapes every value that is not one of the escaping formatters before it parses the text'
            chk.ob('R10.3', f'{f.qn} :: .signature = {norm(v)[:40]}', okw,
                   whyw if okw else whyw + ": a C function whose __text_signature__ is `($module, a='<b onclick=\"x()\">t</b>', b=b'<script>x()</script>')` puts a real "
                   '<b onclick> and a <script> element into the page of its module (--introspect-c-modules)', repo.loc(f.mod, a))
    if n_w < 3:
        raise AnalysisError(f'R10.3: {n_w} assignments to .signature found (astbuilder x2, model._introspectThing x3 confirmed)')
    chk.require('R10.3', 9)

    # ------------------------------------------------------------------ R10.4
    h2s = repo.func('pydoctor.stanutils.html2stan')
    cfg = CFG(h2s)
    subs = [cfg.stmt_of(c) for c in calls_in(h2s) if call_name(c) == 'sub' and '_RE_CONTROL' in norm(c.func)]
    xml = [c for c in calls_in(h2s) if call_name(c) in XML_PARSERS]
    if not xml:
        chk.error('R10.4: no XMLString call in html2stan')
    for c in xml:
        ok = bool(subs) and cfg.must_pass(cfg.ENTRY, cfg.stmt_of(c), subs, no_exc=True)
        chk.ob('R10.4', f'pydoctor.stanutils.html2stan :: {norm(c)[:40]} after the control-character filter', ok,
               'every path to the XML parser passes _RE_CONTROL.sub' if ok else
               'a path reaches the XML parser without neutralising control characters (ill-formed page / SAX error)', repo.loc(h2s.mod, c))
        # the filtered value is what gets parsed
        if subs:
            st = subs[0]
            tgt = st.targets[0].id if isinstance(st, ast.Assign) and isinstance(st.targets[0], ast.Name) else None
            used = tgt is not None and any(isinstance(n, ast.Name) and n.id == tgt for n in ast.walk(c))
            chk.ob('R10.4', f'pydoctor.stanutils.html2stan :: {norm(c)[:40]} parses the filtered value', used,
                   f'`{tgt}` (result of the filter) is what is parsed' if used else 'the parser receives the unfiltered value', repo.loc(h2s.mod, c))
    rc = repo.mod('pydoctor.stanutils').assigns.get('_RE_CONTROL')
    excl = [c.value for c in ast.walk(rc) if isinstance(c, ast.Constant) and isinstance(c.value, str) and c.value and
            all(ord(ch) < 32 for ch in c.value)] if rc is not None else []
    # oracle: XML 1.0 `Char ::= #x9 | #xA | #xD | [#x20-#xD7FF] | [#xE000-#xFFFD] | [#x10000-#x10FFFF]` - of the C0 range only TAB, LF and CR are
    # legal (a FORM FEED is not: this rule used to accept it because the code did), and U+FFFE / U+FFFF are not characters either
    ok = rc is not None and 'range(0, 32)' in norm(rc) and len(excl) == 1 and set(excl[0]) <= set('\r\n\t')
    chk.ob('R10.4', 'pydoctor.stanutils._RE_CONTROL :: covers the C0 range', ok,
           'characters 0..31 except \\r \\n \\t' if ok else
           ('_RE_CONTROL no longer built from range(0, 32)' if rc is None or 'range(0, 32)' not in norm(rc) else
            f'the filter leaves {sorted(set(excl[0]) - set(chr(9) + chr(10) + chr(13)))!r} alone, which XML 1.0 does not allow: a form feed in a docstring (or a default value) makes '
            'the XML parser reject the generated markup - the docstring falls back to plain text, a signature to `(...)`'), 'pydoctor/stanutils.py')
    sm = repo.mod('pydoctor.stanutils')
    nonchars = {ch for v in sm.assigns.values() for c in ast.walk(v) if isinstance(c, ast.Constant) and isinstance(c.value, (str, bytes))
                for ch in ('\ufffe', '\uffff') if (ch in c.value if isinstance(c.value, str) else ch.encode('utf8') in c.value)}
    chk.ob('R10.4', 'pydoctor.stanutils :: the non-characters U+FFFE and U+FFFF are neutralised too', len(nonchars) == 2,
           'both appear in a filter of stanutils' if len(nonchars) == 2 else
           "`end='\\uffff'` as a default value (the usual upper bound of a key range) blanks the whole signature to `(...)`; in a docstring it turns the whole docstring into "
           'plain text', 'pydoctor/stanutils.py')
    check_control_escape(repo, chk, 'R10.4')
    chk.require('R10.4', 5)

    # ------------------------------------------------------------------ R10.5
    dep = repo.func('pydoctor.extensions.deprecate.deprecatedToUsefulText')
    cfgd = CFG(dep)
    fcalls = [c for c in calls_in(dep) if call_name(c) == 'format' and 'template' in norm(c.func)]
    if len(fcalls) < 2:
        chk.error(f'R10.5: {len(fcalls)} template.format(...) calls in deprecatedToUsefulText (2 confirmed by hand)')
    # the validators, by role: helpers defined inside deprecatedToUsefulText (at any depth of its blocks) or at module level next to it, that it calls
    # and that test isidentifier()
    called_d = {call_name(c) for c in calls_in(dep)}
    vfuncs = {g.name: g for g in repo.funcs.values() if g.name in called_d and ((g.qn.startswith(dep.qn + '.') and g.outer is dep) or
                                                                                  (g.mod is dep.mod and g.cls is None and g.outer is None and
                                                                                   any(call_name(c) == 'isidentifier' for c in calls_in(g))))}
    validators = set(vfuncs)
    _REPO10[:] = [repo]
    for c in fcalls:
        for kw in c.keywords:
            v = kw.value
            key = f'deprecatedToUsefulText :: {{{kw.arg}}}'      # the template field (a keyword of format()), not the local that feeds it
            if not isinstance(v, ast.Name):
                chk.ob('R10.5', key, False, 'interpolated value is not a simple variable', repo.loc(dep.mod, c))
                continue
            ok, why = _interp_guard(dep, cfgd, c, v.id, validators)
            chk.ob('R10.5', key, ok, why, repo.loc(dep.mod, c))
    # the validator quantifies over *every* dotted part
    for vn in sorted(validators):
        vf = vfuncs.get(vn)
        if vf is None:
            continue
        idc = [c for c in calls_in(vf) if call_name(c) == 'isidentifier']
        if not idc:
            chk.ob('R10.5', f'deprecatedToUsefulText.{vn} :: identifier test', False, 'the validator no longer tests isidentifier()', vf.loc)
        for c in idc:
            quant = None
            for p in parents(c):
                if isinstance(p, ast.Call) and call_name(p) in ('all', 'any'):
                    quant = call_name(p)
                    break
                if isinstance(p, ast.For):
                    neg = any(isinstance(t, ast.UnaryOp) and isinstance(t.op, ast.Not) for q in parents(c) if isinstance(q, ast.If) for t in [q.test])
                    quant = 'all' if neg else 'any'
                    break
            ok = quant == 'all'
            chk.ob('R10.5', f'deprecatedToUsefulText.{vn} :: every dotted part must be an identifier', ok,
                   'all(part.isidentifier() ...)' if ok else
                   f'the validator accepts a text when {"some" if quant == "any" else "not every"} dotted part is an identifier: '
                   'the other parts are interpolated into reST unchecked (markup injection through a decorator string)', repo.loc(vf.mod, c))
        # ... of the WHOLE text: the parts come from a complete decomposition of the parameter (`param.split(sep)`), the parameter is not cut first
        vparams = [a.arg for a in vf.params()]
        cuts = [n for n in vf.walk() if (isinstance(n, ast.Assign) and any(isinstance(t, ast.Name) and t.id in vparams for t in n.targets)) or
                (isinstance(n, ast.Call) and call_name(n) in ('partition', 'rpartition', 'strip', 'lstrip', 'rstrip', 'removeprefix', 'removesuffix', 'replace') and
                 isinstance(n.func, ast.Attribute) and isinstance(n.func.value, ast.Name) and n.func.value.id in vparams) or
                (isinstance(n, ast.Subscript) and isinstance(n.value, ast.Name) and n.value.id in vparams)]
        whole = not cuts and any(isinstance(g_, (ast.GeneratorExp, ast.ListComp)) and isinstance(g_.generators[0].iter, ast.Call) and
                                 call_name(g_.generators[0].iter) == 'split' and isinstance(g_.generators[0].iter.func, ast.Attribute) and
                                 isinstance(g_.generators[0].iter.func.value, ast.Name) and g_.generators[0].iter.func.value.id in vparams and
                                 len(g_.generators[0].iter.args) == 1 for g_ in vf.walk()) if idc else False
        # the same decomposition as a loop: `for part in <param>.split(sep): if not part.isidentifier(): return False`
        if idc and not cuts and not whole:
            whole = any(isinstance(lp_, ast.For) and isinstance(lp_.iter, ast.Call) and call_name(lp_.iter) == 'split' and isinstance(lp_.iter.func, ast.Attribute) and
                        isinstance(lp_.iter.func.value, ast.Name) and lp_.iter.func.value.id in vparams and len(lp_.iter.args) == 1 and
                        any(c in idc for st in lp_.body for c in ast.walk(st)) for lp_ in vf.walk())
        if idc:
            chk.ob('R10.5', f'deprecatedToUsefulText.{vn} :: the whole text is decomposed and tested', whole,
                   'all parts of <param>.split(sep), the parameter is used as it comes' if whole else
                   f'`{norm(cuts[0])[:60]}` cuts the text before it is tested' if cuts else 'the tested parts are not a complete split of the parameter' +
                   ': what follows the tested prefix is interpolated into the generated reST unchecked - `replacement="better(now)\\n\\n.. raw:: html\\n\\n   <script>"` '
                   'puts a script element on the page', vf.loc)
    vt = repo.func('pydoctor.extensions.deprecate.versionToUsefulObject')
    raises = [n for n in vt.walk() if isinstance(n, ast.Raise) and 'ValueError' in norm(n)]
    ints = [c for c in calls_in(vt) if call_name(c) == 'get_int_value']
    chk.ob('R10.5', 'versionToUsefulObject :: version parts are type checked', len(raises) >= 2 and len(ints) >= 3,
           f'{len(ints)} get_int_value() extractions, {len(raises)} ValueError guards' if len(raises) >= 2 and len(ints) >= 3 else
           'version parts are no longer restricted to ints / "NEXT"', vt.loc)
    chk.require('R10.5', 8)

    # ------------------------------------------------------------------ R10.6
    themes = load_templates(Path(repo.root))
    renderers: Set[str] = set()
    for f in repo.funcs.values():
        if f.cls is not None and any(d.split('.')[-1] == 'renderer' for d in f.decorators):
            renderers.add(f.name)
    slots: Set[str] = set()
    for f in repo.funcs.values():
        for c in calls_in(f):
            if call_name(c) == 'fillSlots':
                slots.update(kw.arg for kw in c.keywords if kw.arg)
                for kw in c.keywords:
                    if kw.arg is None:
                        slots.update(_dict_keys_anywhere(repo, f, kw.value))
            if f.name == 'slot_map' and call_name(c) in ('dict', 'update'):
                slots.update(kw.arg for kw in c.keywords if kw.arg)
    n_t = 0
    for theme, tmpls in themes.items():
        for name, t in tmpls.items():
            n_t += 1
            chk.ob('R10.6', f'themes/{theme}/{name} :: parses as XML', t.error is None, t.error or 'well-formed', f'pydoctor/themes/{theme}/{name}')
            if t.error is not None:
                continue
            miss_r = sorted(set(t.renders()) - renderers)
            chk.ob('R10.6', f'themes/{theme}/{name} :: renderers exist', not miss_r,
                   f'{len(set(t.renders()))} renderer name(s), all defined by an Element class' if not miss_r else
                   f't:render="{miss_r[0]}" names no @renderer method: every page using this template fails to flatten', f'pydoctor/themes/{theme}/{name}')
            miss_s = sorted(set(t.slots()) - slots)
            chk.ob('R10.6', f'themes/{theme}/{name} :: slots are filled', not miss_s,
                   f'{len(set(t.slots()))} slot name(s), all filled somewhere' if not miss_s else
                   f'<t:slot name="{miss_s[0]}"> is filled by no fillSlots()/slot_map: flattening raises UnfilledSlot', f'pydoctor/themes/{theme}/{name}')
    chk.stats['templates'] = n_t
    chk.stats['renderer_names'] = len(renderers)
    chk.stats['slot_names'] = len(slots)
    if n_t < 20:
        chk.error(f'R10.6: only {n_t} templates found')
    chk.require('R10.6', 60)

    # ------------------------------------------------------------------ R10.7
    # which parser sees a docstring decides whether its characters are text or markup: a module that declares its own format
    # (e.g. plaintext) must not be handed to the parser its package declares (e.g. restructuredtext, with raw / include directives)
    getter = None
    for f in repo.funcs.values():
        if f.cls is not None and f.cls.qn == 'pydoctor.model.Module' and f.name == 'docformat' and \
                any(isinstance(d, ast.Name) and d.id == 'property' for d in f.node.decorator_list):
            getter = f
    if getter is None:
        raise AnalysisError('R10.7: the Module.docformat property getter was not found')
    cfd = CFG(getter)
    own_attr = None
    # the slot the setter writes (what the AST builder stores for the module's own __docformat__)
    for st in getter.cls.node.body:  # type: ignore[union-attr]
        if isinstance(st, ast.FunctionDef) and st.name == 'docformat' and any(norm(d) == 'docformat.setter' for d in st.decorator_list):
            for n in ast.walk(st):
                if isinstance(n, ast.Assign) and isinstance(n.targets[0], ast.Attribute) and dotted(n.targets[0].value) == 'self':
                    own_attr = n.targets[0].attr
    if own_attr is not None and not any(isinstance(x, ast.Attribute) and x.attr == own_attr and dotted(x.value) == 'self'
                                        for n in getter.walk() if isinstance(n, ast.Return) and n.value is not None for x in ast.walk(n.value)):
        own_attr = None
    inherited = [n for n in getter.walk() if isinstance(n, ast.Return) and n.value is not None and
                 any(isinstance(x, ast.Attribute) and x.attr == 'parent' for x in ast.walk(n.value))]
    if own_attr is None or not inherited:
        raise AnalysisError('R10.7: Module.docformat no longer returns its own value / the value of its package')
    for r in inherited:
        facts = cfd.dominating_tests(r)
        own_unset = any((norm(t) == f'self.{own_attr}' and not pol) or
                        (isinstance(t, ast.Compare) and norm(t.left) == f'self.{own_attr}' and norm(t.comparators[0]) == 'None' and
                         ((isinstance(t.ops[0], ast.Is) and pol) or (isinstance(t.ops[0], ast.IsNot) and not pol))) for t, pol in facts)
        chk.ob('R10.7', 'pydoctor.model.Module.docformat :: the package format is only a default', own_unset,
               f'`{norm(r)}` is reached only when self.{own_attr} is unset' if own_unset else
               f'`{norm(r)}` can be returned although the module declares its own __docformat__: a plaintext / epytext module inside a reStructuredText '
               'package is parsed as reST, its words become elements (raw html included)', repo.loc(getter.mod, r))
    # ... and the package's format must be KNOWN when the docstrings of a module are parsed (module, class and property docstrings are parsed
    # while the module is built, the result is kept): System.processModule handles an unprocessed package before it builds one of its modules.
    # The order of the queue alone does not give that: a module imported by an earlier one is processed on demand, before its package.
    pm = repo.func('pydoctor.model.System.processModule')
    cfp = CFG(pm)
    modp = pm.params()[1].arg
    BUILD_CALLS = ('processModuleAST', 'parseFile', 'parseString', '_introspectThing')
    builds = [c for c in calls_in(pm) if call_name(c) in BUILD_CALLS]
    # (... or hands the module to a private method of the System that does: `self._processSourceModule(mod, name)`)
    from ..util import impl_funcs as _impl10
    for c in calls_in(pm):
        for h in [g for g in _impl10(repo, pm, depth=1) if g is not pm and g.name == call_name(c)]:
            if any(call_name(x) in BUILD_CALLS for g2 in _impl10(repo, h, depth=1) for x in calls_in(g2)):
                builds.append(c)
    if not builds:
        raise AnalysisError('R10.7: System.processModule no longer calls the AST builder')
    from ..util import values_of as _values_of
    def _is_parent(e: ast.AST) -> bool:
        if isinstance(e, ast.Attribute) and e.attr == 'parent' and isinstance(e.value, ast.Name) and e.value.id == modp:
            return True
        return isinstance(e, ast.Name) and any(_is_parent(v) for v in _values_of(pm, e.id))
    first = [c for c in calls_in(pm) if call_name(c) in ('processModule', 'getProcessedModule') and c.args and _is_parent(c.args[0])]
    okp = False
    for c in first:
        outer = cfp.stmt_of(c)
        q = getattr(outer, '_parent', None)
        while q is not None and q is not pm.node:
            if isinstance(q, ast.If):
                outer = q
            q = getattr(q, '_parent', None)
        if all(cfp.dominates(outer, cfp.stmt_of(b)) and outer is not cfp.stmt_of(b) for b in builds):
            okp = True
    chk.ob('R10.7', 'pydoctor.model.System.processModule :: the package is processed before its modules', okp,
           f'`{norm(first[0])}` precedes the builder call' if okp else
           'nothing makes sure the package was processed: `a.py: from pkg.sub import K` listed before `pkg` processes pkg.sub on demand before '
           'pkg/__init__.py, so `__docformat__ = "plaintext"` of the package is not known yet and the module and class docstrings of pkg.sub are parsed '
           'with the default format - a `.. raw:: html` line of a plain-text docstring becomes a <script> element', pm.loc)
    # ... and the format is a fact about where the docstring is WRITTEN: it must not be read through a field that Documentable.reparent rewrites
    # when the object is re-exported (a function written in a plaintext module and published by a reStructuredText package keeps its format)
    gd = repo.func('pydoctor.epydoc2stan._get_docformat')
    objp = gd.params()[0].arg
    rp_ = repo.func('pydoctor.model.Documentable.reparent')
    cfr = CFG(rp_)
    moved_stores = [(t.attr, n) for n in rp_.walk() if isinstance(n, ast.Assign) for t in n.targets if isinstance(t, ast.Attribute) and dotted(t.value) == 'self']
    moved = {a_ for a_, _n in moved_stores}

    def _fields_behind(attr: str) -> Set[str]:
        """The instance fields a read of <obj>.<attr> consults (a Documentable property is followed one level)."""
        out_ = {attr}
        for g in repo.funcs.values():
            if g.cls is not None and g.name == attr and g.cls.qn == 'pydoctor.model.Documentable' and \
                    any(isinstance(d, ast.Name) and d.id == 'property' for d in g.node.decorator_list):
                out_ |= {x.attr for x in g.walk() if isinstance(x, ast.Attribute) and dotted(x.value) == 'self'}
        return out_

    def _saved_before_move(attr: str) -> bool:
        """reparent() assigns self.<attr> only from the pre-move module: the value reads a field the move rewrites, and is taken before that rewrite."""
        sts = [n for a_, n in moved_stores if a_ == attr]
        if not sts:
            return False
        for n in sts:
            src_fields = {x.attr for x in ast.walk(n.value) if isinstance(x, ast.Attribute) and dotted(x.value) == 'self'}
            src_fields = set().union(*[_fields_behind(a_) for a_ in src_fields]) if src_fields else set()
            rew = [m for a_, m in moved_stores if a_ in src_fields and a_ != attr]
            # the save cannot come after the rewrite: it is not reachable from it
            if not rew or any(id(cfr.stmt_of(n)) in cfr.reachable(cfr.stmt_of(m), no_exc=True) for m in rew):
                return False
            # and only once: a second move must not overwrite it with the intermediate module
            if not any((isinstance(t, ast.Compare) and isinstance(t.ops[0], ast.Is) and pol and norm(t.left) == f'self.{attr}' and norm(t.comparators[0]) == 'None') or
                       (norm(t) == f'self.{attr}' and not pol) for t, pol in cfr.dominating_tests(n)):
                return False
        return True

    # the expression whose .docformat is the module's own format
    from ..util import values_of as _vo
    mods = [x.value for x in gd.walk() if isinstance(x, ast.Attribute) and x.attr == 'docformat' and not (isinstance(x.value, ast.Attribute) and x.value.attr == 'options')]
    if not mods:
        raise AnalysisError('R10.7: _get_docformat no longer reads <module>.docformat')
    alts: List[ast.AST] = []
    for m_ in mods:
        for v_ in (_vo(gd, m_.id) if isinstance(m_, ast.Name) else [m_]):
            alts.append(v_)
    bad7 = None
    for v_ in alts:
        first = v_.values[0] if isinstance(v_, ast.BoolOp) and isinstance(v_.op, ast.Or) else v_
        if not (isinstance(first, ast.Attribute) and isinstance(first.value, ast.Name) and first.value.id == objp):
            bad7 = f'`{norm(v_)}` is not a field of the object'
            continue
        fields = _fields_behind(first.attr)
        clash = sorted(fields & moved)
        if clash and not all(_saved_before_move(a_) for a_ in clash):
            bad7 = f'the format is read through `{norm(first)}`, i.e. {clash}, which Documentable.reparent() points at the re-exporting module'
    chk.ob('R10.7', 'pydoctor.epydoc2stan._get_docformat :: the format of a docstring does not follow a re-exported object', bad7 is None,
           f'read through {[norm(v_) for v_ in alts]}: a field reparent() leaves alone, or sets once to the module the object is moved out of' if bad7 is None else
           bad7 + ': the docstring of a function written in a `__docformat__ = "plaintext"` module and listed in the `__all__` of its package is parsed with '
           'the package\'s format - `.. raw:: html` in it becomes a <script> element, *words* become <em>', gd.loc)
    chk.require('R10.7', 3)

    # ------------------------------------------------------------------ R10.8
    # a catch-all handler that contains a rendering failure must not fail itself: when it hands a parameter of the enclosing function
    # to a helper, every class the parameter may be (its Union members) must be accepted by the helper (declared parameter type)
    n_h = 0
    for f in sorted(repo.funcs.values(), key=lambda f: f.qn):
        if '.test' in f.mod.name or not f.mod.name.startswith('pydoctor.'):
            continue
        ptypes = {}
        for p_ in f.params():
            t_ = repo.ann_type(p_.annotation, f.mod, f.cls or f.outer)
            insts = sorted(a[1] for a in t_ if a[0] == 'inst')
            if len(insts) >= 2:
                ptypes[p_.arg] = insts
        if not ptypes:
            continue
        for n in f.walk():
            if not isinstance(n, ast.ExceptHandler) or not is_catch_all(n):
                continue
            for c in [x for st in n.body for x in ast.walk(st) if isinstance(x, ast.Call)]:
                callees, how = repo.callees(c, f)
                if len(callees) != 1 or how not in ('direct', 'method', 'ctor'):
                    continue
                g = callees[0]
                gps = g.params()
                off = 1 if (gps and gps[0].arg in ('self', 'cls') and how in ('method', 'ctor')) else 0
                for i, a in enumerate(c.args):
                    if not (isinstance(a, ast.Name) and a.id in ptypes) or i + off >= len(gps):
                        continue
                    want = repo.ann_type(gps[i + off].annotation, g.mod, g.cls or g.outer)
                    want_insts = [w[1] for w in want if w[0] == 'inst']
                    if not want_insts:
                        continue
                    n_h += 1
                    bad = [m for m in ptypes[a.id] if m in repo.classes and
                           not any(repo.is_subclass(repo.classes[m], w) for w in want_insts)]
                    # narrowed inside the handler?
                    narrowed = any(isinstance(p, (ast.If, ast.IfExp)) and 'isinstance' in norm(p.test) and a.id in norm(p.test) for p in parents(c))
                    okh = not bad or narrowed
                    chk.ob('R10.8', f'{f.qn} :: handler passes `{a.id}` to {g.name}()', okh,
                           f'every member of {[m.split(".")[-1] for m in ptypes[a.id]]} is a {"/".join(w.split(".")[-1] for w in want_insts)}' if okh else
                           f'`{a.id}` may be a {bad[0].split(".")[-1]}, which is not a {"/".join(w.split(".")[-1] for w in want_insts)} ({g.name}() declares '
                           f'`{gps[i + off].arg}: {norm(gps[i + off].annotation) if gps[i + off].annotation is not None else "?"}`): the handler that should contain the '
                           'failure raises itself (AttributeError), the page is not written', repo.loc(f.mod, c))
    chk.stats['handler_arguments_checked'] = n_h

    check_r10_10(repo, chk)
    check_r10_9_image(repo, chk)
    # ------------------------------------------------------------------ R10.9
    # two places where docutils itself turns docstring text into markup or script, and pydoctor's translator is the only place to stop it:
    #  (a) math: the html4css1 default `math_output = HTML` runs math2html, which copies the arguments of \text{} / \mbox{} / \href{} unescaped;
    #  (b) URLs: every reference (explicit, U{...}, and docutils' standalone-link recognition of plain words) becomes <a href=...> whatever its scheme
    tr_cls = repo.cls(TRANSLATOR)
    tinit = tr_cls.methods.get('__init__')
    if tinit is None:
        raise AnalysisError('R10.9: HTMLTranslator.__init__ not found')
    math_set = [n for f_ in tr_cls.methods.values() for n in f_.walk() if isinstance(n, ast.Assign) and
                any(isinstance(t, ast.Attribute) and t.attr == 'math_output' for t in n.targets)] + \
               [st for st in tr_cls.node.body if isinstance(st, ast.Assign) and any(isinstance(t, ast.Name) and t.id == 'math_output' for t in st.targets)] + \
               [n for n in tinit.walk() if isinstance(n, ast.Assign) and any(isinstance(t, ast.Attribute) and t.attr == 'math_output' for t in n.targets)]
    okm = bool(math_set) and all(isinstance(n.value, ast.Constant) and str(n.value.value).lower().split()[0] in ('latex', 'literal', 'mathml', 'mathjax') for n in math_set)
    chk.ob('R10.9', f'{TRANSLATOR} :: math is not converted by docutils\' unescaped HTML converter', okm,
           f'math_output = {norm(math_set[0].value)}' if okm else
           'math_output is left at the html4css1 default (HTML): `:math:`, `.. math::` and epytext M{...} go through math2html, which does not escape the '
           'arguments of \\text{}, \\mbox{}, \\href{}{}: `:math:`\\text{<script>x()</script>}`` puts a real <script> element into the page', tinit.loc)
    st_ = tr_cls.methods.get('starttag')
    if st_ is None:
        raise AnalysisError('R10.9: HTMLTranslator.starttag not found')
    # the check may sit in starttag or in visit_reference (both see every link of a docstring), directly or through a module-level helper they call
    def _checks_scheme(g: Func, depth: int = 0) -> bool:
        if any(isinstance(c, ast.Constant) and isinstance(c.value, str) and 'javascript' in c.value.lower() for c in ast.walk(g.node)) or \
                any(isinstance(c, ast.Call) and call_name(c) in ('urlparse', 'urlsplit') for c in calls_in(g)):
            return True
        if depth >= 1:
            return False
        return any(_checks_scheme(h, depth + 1) for c in calls_in(g) if isinstance(c.func, ast.Name) for h in [repo.funcs.get(f'{g.mod.name}.{c.func.id}')] if h is not None)
    vr_ = tr_cls.methods.get('visit_reference')
    scheme = _checks_scheme(st_) or (vr_ is not None and _checks_scheme(vr_))
    chk.ob('R10.9', f'{TRANSLATOR}.starttag :: the scheme of an href taken from a docstring is checked', scheme,
           'script schemes are rejected' if scheme else
           'starttag() rewrites `#` anchors and adds target=_top but never looks at the scheme: the plain words `javascript:x()//y` in a reST docstring '
           '(standalone-link recognition), `` `text <javascript:...>`_ `` and epytext U{javascript:...} become live <a href="javascript:...">', st_.loc)
    chk.require('R10.9', 2)


# ----------------------------------------------------------------------------------------------------------
def _is_tag_call(repo: Repo, f: Func, c: ast.Call) -> bool:
    d = dotted(c.func) or ''
    if d.startswith('tags.') or d == 'Tag':
        return True
    t = repo.type_of(c.func, f)
    return any(a[0] in ('inst', 'extname') and a[1].split('.')[-1] == 'Tag' for a in t)


def _const_dict_keys(f: Func, e: ast.AST) -> Tuple[bool, str]:
    if isinstance(e, ast.Dict):
        ok = all(isinstance(k, ast.Constant) for k in e.keys)
        return ok, 'dict literal with constant keys' if ok else 'computed attribute name'
    if isinstance(e, ast.Name):
        keys: List[ast.AST] = []
        known = False
        for n in f.walk():
            if isinstance(n, ast.Assign) and any(isinstance(t, ast.Name) and t.id == e.id for t in n.targets):
                if isinstance(n.value, ast.Dict):
                    keys.extend(k for k in n.value.keys if k is not None)
                    known = True
                elif isinstance(n.value, ast.Call) and call_name(n.value) == 'dict':
                    known = True
                else:
                    return False, f'`{e.id}` is not built from a dict literal'
            if isinstance(n, ast.Assign) and any(isinstance(t, ast.Subscript) and isinstance(t.value, ast.Name) and t.value.id == e.id for t in n.targets):
                for t in n.targets:
                    if isinstance(t, ast.Subscript):
                        keys.append(t.slice)
        if e.id in [p.arg for p in f.params()]:
            return True, f'`{e.id}` is a parameter (mapping built by the caller)'
        ok = known and all(isinstance(k, ast.Constant) for k in keys)
        return ok, f'attribute names {[k.value for k in keys if isinstance(k, ast.Constant)]} are constants' if ok else \
            f'`**{e.id}`: attribute names are computed at run time'
    return True, 'not a local mapping (slot / keyword forwarding)'


def _dict_keys_anywhere(repo: Repo, f: Func, e: ast.AST) -> Set[str]:
    """Keys of the dicts that may flow into `**e` (search documents)."""
    out: Set[str] = set()
    for g in repo.funcs.values():
        if g.mod is not f.mod:
            continue
        for n in g.walk():
            if isinstance(n, ast.Dict):
                ks = [k.value for k in n.keys if isinstance(k, ast.Constant) and isinstance(k.value, str)]
                if len(ks) >= 3:
                    out.update(ks)
    return out


def _escaped_value(m: Func, v: ast.AST) -> Tuple[bool, str]:
    if isinstance(v, ast.Constant) and isinstance(v.value, str):
        return True, 'string literal'
    if isinstance(v, ast.Call):
        nm = call_name(v)
        if nm in ESCAPING_PRODUCERS:
            return True, f'{nm}(...) escapes / serialises a stan tree'
        return False, f'{norm(v)[:50]} is appended to the HTML body without passing encode()/attval()/starttag()/flatten()'
    if isinstance(v, ast.JoinedStr):
        if all(isinstance(x, ast.Constant) for x in v.values):
            return True, 'string literal'
        return False, 'f-string with interpolated values appended to the HTML body (not escaped)'
    if isinstance(v, ast.BinOp):
        return False, f'string built with {type(v.op).__name__} appended to the HTML body (not escaped)'
    if isinstance(v, ast.Name):
        vals = [n.value for n in m.walk() if isinstance(n, ast.Assign) and any(isinstance(t, ast.Name) and t.id == v.id for t in n.targets)]
        if vals and all(_escaped_value(m, x)[0] for x in vals):
            return True, f'`{v.id}` only holds escaped values'
    return False, f'{norm(v)[:50]}: provenance unknown, not an escaping producer'


def _formatter_value(f: Func, v: ast.AST, fmts: Set[str]) -> Tuple[bool, str]:
    def one(e: ast.AST) -> bool:
        if isinstance(e, ast.Attribute) and e.attr == 'empty':
            return True
        if isinstance(e, ast.Call) and call_name(e) in fmts:
            return True
        if isinstance(e, ast.IfExp):
            return one(e.body) and one(e.orelse)
        return False
    if one(v):
        return True, 'Parameter.empty or an escaping value formatter'
    if isinstance(v, ast.Name):
        g: Optional[Func] = f
        while g is not None:
            vals = [n.value for n in g.walk() if isinstance(n, ast.Assign) and any(isinstance(t, ast.Name) and t.id == v.id for t in n.targets)]
            if vals:
                ok = all(one(x) for x in vals)
                return ok, f'`{v.id}` is Parameter.empty or a value formatter on every assignment' if ok else \
                    f'`{v.id}` may hold {norm([x for x in vals if not one(x)][0])[:40]}: its str() is re-parsed as HTML by format_signature'
            g = g.outer
    return False, f'{norm(v)[:40]} is handed to inspect.Signature raw: its repr() is re-parsed as HTML by format_signature'


_REPO10: List[Repo] = []


def _interp_guard(f: Func, cfg: CFG, call: ast.Call, var: str, validators: Set[str]) -> Tuple[bool, str]:
    """How is `var` made safe before it is interpolated into the reST template?"""
    st = cfg.stmt_of(call)

    # (a)+(b) every path to the interpolation either establishes validate(var) (or var is None: then it is not interpolated), or passes
    # through the neutralising rewrite (newlines removed, wrapped in back-ticks as literal text).  Stated on edges, so that
    # `if not ok: raise` / `if ok: ... else: raise` / `if not ok: raise else: ...` are the same thing.
    def safe(e: ast.AST, pol: bool) -> bool:
        if isinstance(e, ast.Call) and call_name(e) in validators and any(isinstance(a, ast.Name) and a.id == var for a in e.args):
            return pol
        if isinstance(e, ast.Compare) and len(e.ops) == 1 and isinstance(e.left, ast.Name) and e.left.id == var and norm(e.comparators[0]) == 'None':
            return pol if isinstance(e.ops[0], ast.Is) else (not pol) if isinstance(e.ops[0], ast.IsNot) else False
        if isinstance(e, ast.UnaryOp) and isinstance(e.op, ast.Not):
            return safe(e.operand, not pol)
        if isinstance(e, ast.BoolOp):
            if isinstance(e.op, ast.And):
                return any(safe(v, True) for v in e.values) if pol else all(safe(v, False) for v in e.values)
            return all(safe(v, True) for v in e.values) if pol else any(safe(v, False) for v in e.values)
        return False
    wraps = [n for n in f.walk() if isinstance(n, ast.Assign) and any(isinstance(t, ast.Name) and t.id == var for t in n.targets) and
             isinstance(n.value, ast.JoinedStr) and any(isinstance(v, ast.Constant) and '`' in str(v.value) for v in n.value.values)]
    strips = [n for n in f.walk() if isinstance(n, ast.Assign) and any(isinstance(t, ast.Name) and t.id == var for t in n.targets) and
              isinstance(n.value, ast.Call) and call_name(n.value) == 'replace' and n.value.args and const_str(n.value.args[0]) == '\n']
    # an inline literal has no escape mechanism: the text must not be able to close it, so back-ticks have to be escaped (interpreted-text role +
    # backslash) or removed before the wrap - otherwise what follows a "``" in the text is parsed as reST again
    ticks = [n for n in f.walk() if isinstance(n, ast.Assign) and any(isinstance(t, ast.Name) and t.id == var for t in n.targets) and
             any(isinstance(c, ast.Call) and call_name(c) == 'replace' and c.args and const_str(c.args[0]) == '`' for c in ast.walk(n.value))]
    neutralisers = [w for w in wraps if any(cfg.dominates(s_, w, no_exc=True) for s_ in strips) and
                    (any(cfg.dominates(t_, w, no_exc=True) or t_ is w for t_ in ticks))]
    # second idiom: character-wise escaping - `var = ''.join(c if <c is alphanumeric or the blank> else '\\' + c for c in <var, white space normalised>)`:
    # reST takes a backslash-escaped character literally, whatever it is; every run of white space (all line boundaries included) must have become ' '
    def _charwise(n: ast.AST) -> bool:
        if not (isinstance(n, ast.Assign) and any(isinstance(t, ast.Name) and t.id == var for t in n.targets) and isinstance(n.value, ast.Call)):
            return False
        # the escaping may be extracted into a private helper of the module: `var = _escape(var)` with `def _escape(p): return ''.join(... for c in p...)`
        if isinstance(n.value.func, ast.Name) and len(n.value.args) == 1 and isinstance(n.value.args[0], ast.Name) and n.value.args[0].id == var:
            for h_ in _REPO10[0].funcs.values():
                if h_.mod is f.mod and h_.name == n.value.func.id and h_.cls is None and len(h_.params()) == 1:
                    rets_h = [r for r in h_.walk() if isinstance(r, ast.Return) and r.value is not None]
                    if len(rets_h) == 1 and isinstance(rets_h[0].value, ast.Call):
                        return _charwise_value(rets_h[0].value, h_.params()[0].arg)
            return False
        return _charwise_value(n.value, var)

    def _charwise_value(value: ast.Call, var: str) -> bool:
        if not (call_name(value) == 'join' and value.args and isinstance(value.args[0], (ast.GeneratorExp, ast.ListComp))):
            return False
        g_ = value.args[0]
        if len(g_.generators) != 1 or not isinstance(g_.generators[0].target, ast.Name) or not isinstance(g_.elt, ast.IfExp):
            return False
        cv = g_.generators[0].target.id
        e = g_.elt
        # unescaped only when alphanumeric or exactly ' '
        def accepted(t: ast.AST) -> bool:
            if isinstance(t, ast.BoolOp) and isinstance(t.op, ast.Or):
                return all(accepted(x) for x in t.values)
            if isinstance(t, ast.Call) and call_name(t) in ('isalnum', 'isalpha', 'isdigit', 'isdecimal') and isinstance(t.func, ast.Attribute) and norm(t.func.value) == cv:
                return True
            return isinstance(t, ast.Compare) and len(t.ops) == 1 and isinstance(t.ops[0], ast.Eq) and norm(t.left) == cv and const_str(t.comparators[0]) == ' '
        keeps = isinstance(e.body, ast.Name) and e.body.id == cv and accepted(e.test)
        escapes = any(isinstance(x, ast.Constant) and isinstance(x.value, str) and x.value.startswith('\\') for x in ast.walk(e.orelse)) and \
            any(isinstance(x, ast.Name) and x.id == cv for x in ast.walk(e.orelse))
        it = g_.generators[0].iter
        normalised = isinstance(it, ast.Call) and call_name(it) == 'join' and isinstance(it.func, ast.Attribute) and const_str(it.func.value) == ' ' and it.args and \
            isinstance(it.args[0], ast.Call) and call_name(it.args[0]) == 'split' and not it.args[0].args and norm(it.args[0].func.value) == var  # type: ignore[attr-defined]
        blank_ok = normalised or not any(isinstance(x, ast.Compare) for x in ast.walk(e.test))
        return keeps and escapes and blank_ok and (normalised or norm(it) == var)
    charwise = [n for n in f.walk() if _charwise(n)]
    neutralisers = neutralisers + charwise
    safe_edges = [(nid, id(t), k) for nid, edges in cfg.succ.items() for (t, l, k) in edges if l is not None and safe(l[0], l[1])]
    if safe_edges or neutralisers:
        r = cfg.reachable(cfg.ENTRY, avoid_nodes=neutralisers, avoid_edges=safe_edges, no_exc=True)
        if id(st) not in r:
            return True, ('validated on every path to the interpolation' if not neutralisers else
                          'identifier, or neutralised (every non-alphanumeric character backslash-escaped, white space normalised), on every path' if charwise else
                          'identifier, or neutralised (newlines removed, wrapped in back-ticks as literal text), on every path')
    # (c) derived from the type-checked Version object
    vals = [n.value for n in f.walk() if isinstance(n, ast.Assign) and any(isinstance(t, ast.Name) and t.id == var for t in n.targets)]
    if vals and all(isinstance(v, ast.Call) and call_name(v) == 'public' for v in vals):
        return True, 'Version.public() of a Version built from type-checked ints (versionToUsefulObject)'
    # (d) the name of the documented object (an identifier from the AST)
    if var in [p.arg for p in f.params()]:
        sites = []
        for g in f.mod.funcs.values():
            sites.extend(c for c in calls_in(g) if call_name(c) == f.name)
        for k in f.mod.classes.values():
            for g in k.methods.values():
                sites.extend(c for c in calls_in(g) if call_name(c) == f.name)
        idx = [p.arg for p in f.params()].index(var)
        if sites and all(len(c.args) > idx and isinstance(c.args[idx], ast.Attribute) and c.args[idx].attr == 'name' for c in sites):
            return True, 'name of the documented object (an identifier taken from the AST)'
    if wraps and not neutralisers:
        return False, (f'`{var}` is only wrapped in back-ticks when it is not an identifier: a text containing "``" closes the inline literal and the rest is parsed as '
                       'reST (links with javascript: targets, emphasis, roles) - a decorator string argument becomes markup')
    return False, f'`{var}` is interpolated into reST without validation: source text can inject markup (e.g. a raw directive)'


ESCAPING_PRIMITIVES = ('encode', 'attval', 'starttag', 'emptytag')


def _replaced_primitives(repo: Repo) -> List[Tuple[Func, bool]]:
    """(method, delegates) for every method of a docutils-translator subclass that overrides an escaping primitive."""
    out: List[Tuple[Func, bool]] = []
    for c in repo.classes.values():
        if not any('HTMLTranslator' in norm(b) or 'Translator' in norm(b) and 'html' in norm(b).lower() for b in c.node.bases):
            continue
        for nm in ESCAPING_PRIMITIVES:
            m = c.methods.get(nm)
            if m is None:
                continue
            rets = [r for r in m.walk() if isinstance(r, ast.Return)]
            deleg = bool(rets) and all(r.value is not None and any(isinstance(x, ast.Call) and call_name(x) == nm and isinstance(x.func, ast.Attribute) and
                                                                  isinstance(x.func.value, ast.Call) and call_name(x.func.value) == 'super'
                                                                  for x in ast.walk(r.value)) or
                                       (isinstance(r.value, ast.Name) and any(isinstance(n, ast.Assign) and any(isinstance(t, ast.Name) and t.id == r.value.id for t in n.targets) and
                                                                               any(isinstance(x, ast.Call) and call_name(x) == nm and isinstance(x.func, ast.Attribute) and
                                                                                   isinstance(x.func.value, ast.Call) and call_name(x.func.value) == 'super'
                                                                                   for x in ast.walk(n.value)) for n in m.walk()))
                                       for r in rets)
            out.append((m, deleg))
    return out


def check_r10_10(repo: Repo, chk: Check) -> None:
    # the trusted base of this property is docutils' own escaping (encode: & < > " @ and no-break space; attval; starttag/emptytag quote attribute
    # values through them).  A translator subclass may extend them (call super() and post-process), it may not replace them: a hand-written table is
    # a second escaper that has to be complete on its own (a forgotten `"` lets docstring text close an attribute value and open an event handler)
    import os
    fx = Repo(os.path.join(os.path.dirname(os.path.dirname(os.path.abspath(__file__))), 'fixtures', 'c10'))
    got = {(m.cls.name, m.name): d for m, d in _replaced_primitives(fx)}     # type: ignore[union-attr]
    if got.get(('BadTranslator', 'encode')) is not False or got.get(('GoodTranslator', 'encode')) is not True or got.get(('GoodTranslator', 'starttag')) is not True:
        chk.error(f'R10.10 self check: the fixture translators were judged {got}')
    n = 0
    for m, deleg in _replaced_primitives(repo):
        n += 1
        chk.ob('R10.10', f'{m.qn} :: docutils\' {m.name}() is extended, not replaced', deleg,
               f'every return goes through super().{m.name}(...)' if deleg else
               f'{m.qn} returns text that did not pass docutils\' own {m.name}(): every piece of docstring text and every attribute value written from it is '
               'escaped by this table alone - a character it forgets (the double quote) lets docstring text end an attribute and add `onerror=...`', m.loc)
    chk.stats['translator_primitive_overrides'] = n
    if n < 1:
        raise AnalysisError('R10.10: no override of an escaping primitive found (1 confirmed: HTMLTranslator.starttag)')
    chk.require('R10.10', 1)


def check_r10_9_image(repo: Repo, chk: Check) -> None:
    # third docutils path that writes docstring text unescaped (after math2html and link schemes): html4css1.visit_image presents svg / swf / mp4 ...
    # images with an <object> element and copies `node.get('alt', uri)` between its tags verbatim; pydoctor re-parses the writer's output, so the text
    # becomes real elements.  The translator has to take that path over and escape the text (encode) - or avoid <object> altogether
    tr = repo.classes.get(TRANSLATOR)
    vi = tr.methods.get('visit_image') if tr is not None else None
    ok = vi is not None and any(call_name(c) == 'encode' for c in calls_in(vi))
    chk.ob('R10.9', f'{TRANSLATOR} :: the alternate text of an <object> image is escaped', ok,
           'visit_image is overridden and escapes the text' if ok else
           '`.. image:: states.svg` with `:alt: <script>alert("alt")</script>` (or, without :alt:, the address itself) puts a real <script> element inside the <object> tag '
           'of the page: the inherited html4css1.visit_image writes the text without encode()', tr.loc if tr is not None else 'pydoctor/node2stan.py')
    if vi is None:
        return
    # path form: the inherited method is reached either on the branch for images that are NOT presented with <object> (there the text goes into an attribute,
    # escaped by starttag), or after node['alt'] has been given an encoded text on EVERY path - with or without an :alt: option
    cfi = CFG(vi)
    sup = [c for c in calls_in(vi) if call_name(c) == 'visit_image' and isinstance(c.func, ast.Attribute) and isinstance(c.func.value, ast.Call) and call_name(c.func.value) == 'super']
    if not sup:
        raise AnalysisError('R10.9: HTMLTranslator.visit_image no longer delegates to the inherited visit_image')
    stores = [n for n in vi.walk() if isinstance(n, ast.Assign) and any(isinstance(t, ast.Subscript) and const_str(t.slice) == 'alt' for t in n.targets) and
              any(isinstance(c, ast.Call) and call_name(c) == 'encode' for c in ast.walk(n.value))]
    for c in sup:
        st = cfi.stmt_of(c)
        facts = cfi.dominating_tests(st)
        plain = any(isinstance(t, ast.Compare) and len(t.ops) == 1 and 'object_image_types' in norm(t) and
                    ((isinstance(t.ops[0], ast.NotIn) and pol) or (isinstance(t.ops[0], ast.In) and not pol)) for t, pol in facts)
        enc = bool(stores) and cfi.must_pass(cfi.ENTRY, st, stores, no_exc=True)
        chk.ob('R10.9', f'{TRANSLATOR}.visit_image :: the inherited method only sees an escaped alternate text', plain or enc,
               'the branch of the images that are not presented with <object>' if plain else "node['alt'] = self.encode(...) on every path" if enc else
               "a path reaches the inherited visit_image for an <object> image without node['alt'] having been encoded (e.g. only when an :alt: option exists): "
               '`.. image:: diagrams/<i>X</i><script>alert(1)</script>.svg` without :alt: is copied verbatim between <object> and </object>', repo.loc(vi.mod, c))
