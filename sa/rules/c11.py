"""
C11 - every internal link leads to a page and anchor that exist.  Decides one URL scheme, anchors, fixed pages:
  R11.1 file name = link target: pages are opened at the url the links use
  R11.2 anchor agreement: the fragment of Documentable.url is emitted as <a name> by both child templates
  R11.3 pages exist for link targets (writer recursion + links only to visible objects)
  R11.4 fixed targets (literal *.html links, assets) exist unconditionally
  R11.5 same-page shortening strips exactly the page url
Does not decide: fragments for unusual names (duplicates `name 0`, percent-encoding), --html-subject runs, links in user docstrings.
"""
from __future__ import annotations

import ast
import re
from pathlib import Path
from typing import Dict, List, Optional, Set, Tuple

from ..core import AnalysisError, Func, Repo, dotted, norm, parents
from ..cfg import CFG
from ..guards import UseGuard
from ..report import Check
from ..templates import load_templates, theme_files
from ..util import call_name, calls_in, const_str

DOC = 'pydoctor.model.Documentable'
WR = 'pydoctor.templatewriter.writer.TemplateWriter'


def run(repo: Repo, chk: Check, thorough: bool = False) -> None:
    chk.explanation = ('agreement of expressions: where pages are opened vs how urls are built (R11.1); the attribute used as fragment vs '
                       'the attributes rendered into <a name> by the child templates (R11.2); recursion and guards of the page writer (R11.3); '
                       'census of literal link targets in Python code and templates against the unconditionally written pages and the '
                       'shipped assets (R11.4); slice arithmetic of the same-page shortening (R11.5)')
    chk.assumptions = ['links are only built through linker.taglink (decided by C12/R12.1) and only to visible objects',
                       'the default configuration (all subjects) is assumed; --html-subject runs are out of scope',
                       'anchors for names needing percent-encoding or containing spaces (superseded duplicates) are not decided']
    # ------------------------------------------------------------------ R11.1
    url = repo.func(f'{DOC}.url')
    po = [n for n in url.walk() if isinstance(n, ast.Assign) and norm(n.value) == 'self.page_object']
    pvar = po[0].targets[0].id if po and isinstance(po[0].targets[0], ast.Name) else None
    # the page-name logic may be delegated to a private helper method (`page_url = self._page_filename(page_obj)`): the implementation of url is url plus
    # such helpers, and the page object goes under the name of the parameter that receives it
    from ..util import scope_nodes as _scope_nodes
    UW = _scope_nodes(repo, url)
    url_helpers = [g for g in repo.funcs.values() if g.cls is url.cls and g is not url and g.name.startswith('_') and any(call_name(c) == g.name for c in calls_in(url))]
    pvars = {pvar} if pvar else set()
    for g in url_helpers:
        for c in calls_in(url):
            if call_name(c) == g.name:
                gp = [x.arg for x in g.params() if x.arg not in ('self', 'cls')]
                for i_, a_ in enumerate(c.args):
                    if isinstance(a_, ast.Name) and a_.id == pvar and i_ < len(gp):
                        pvars.add(gp[i_])
    fstr = [n for n in UW if isinstance(n, ast.JoinedStr)]

    def leaves(e: ast.AST) -> List[ast.AST]:
        """Leaves of a string-building expression (f-string parts, + operands)."""
        if isinstance(e, ast.JoinedStr):
            out: List[ast.AST] = []
            for v in e.values:
                out.extend(leaves(v.value) if isinstance(v, ast.FormattedValue) else [v])
            return out
        if isinstance(e, ast.BinOp) and isinstance(e.op, ast.Add):
            return leaves(e.left) + leaves(e.right)
        return [e]
    # every value assigned to the page-url variable (other than the index.html constant) is built from constants and
    # quote(page_object.fullName()) only, and ends with .html
    # the page-url variable: the local that receives the 'index.html' constant
    puvar = next((t.id for n in UW if isinstance(n, ast.Assign) and isinstance(n.value, ast.Constant) and n.value.value == 'index.html'
                  for t in n.targets if isinstance(t, ast.Name)), None)
    pu_assigns = [n for n in UW if isinstance(n, ast.Assign) and isinstance(n.targets[0], ast.Name) and n.targets[0].id == puvar]
    built = [n.value for n in pu_assigns if not (isinstance(n.value, ast.Constant) and n.value.value == 'index.html')]
    built += [r.value for g in url_helpers for r in g.walk() if isinstance(r, ast.Return) and r.value is not None and
              not (isinstance(r.value, ast.Constant) and r.value.value == 'index.html') and any(call_name(c) == g.name and isinstance(getattr(c, '_parent', None), ast.Assign) and
                                                                                                   any(isinstance(t, ast.Name) for t in c._parent.targets) for c in calls_in(url))]  # type: ignore[attr-defined]
    def is_quoted_page_name(x: ast.AST) -> bool:
        """quote(E) where E is page_object.fullName(), possibly through a local that only ever holds that name plus constant suffixes."""
        if not (isinstance(x, ast.Call) and call_name(x) == 'quote' and len(x.args) == 1):
            return False
        e = x.args[0]
        if any(norm(e) == f'{pv_}.fullName()' for pv_ in pvars):
            return True
        if isinstance(e, ast.Name):
            sets = [n for n in UW if isinstance(n, (ast.Assign, ast.AugAssign)) and
                    any(isinstance(t, ast.Name) and t.id == e.id for t in (n.targets if isinstance(n, ast.Assign) else [n.target]))]
            return bool(sets) and all((isinstance(n, ast.Assign) and any(norm(n.value) == f'{pv_}.fullName()' for pv_ in pvars)) or
                                      (isinstance(n, ast.AugAssign) and isinstance(n.op, ast.Add) and isinstance(n.value, ast.Constant)) for n in sets) and \
                any(isinstance(n, ast.Assign) for n in sets)
        return False
    ok = pvar is not None and bool(built)
    for b in built:
        ls = leaves(b)
        if not all(isinstance(x, ast.Constant) or is_quoted_page_name(x) for x in ls):
            ok = False
        if not (ls and isinstance(ls[-1], ast.Constant) and str(ls[-1].value).endswith('.html')):
            ok = False
        if not any(is_quoted_page_name(x) for x in ls):
            ok = False
    chk.ob('R11.1', f'{DOC}.url :: page part derives from page_object only', ok,
           f"quote({pvar}.fullName()) + '.html'" if ok else 'the page file name is no longer quote(page_object.fullName()) + ".html"', url.loc)
    # the single-root special case compares the qualified name
    cmp_ = [n for n in UW if isinstance(n, ast.Compare) and 'root_names' in norm(n)]
    def holds_full_name(e: ast.AST) -> bool:
        if any(norm(e) == f'{pv_}.fullName()' for pv_ in pvars):
            return True
        if isinstance(e, ast.Name):
            vals = [n.value for n in UW if isinstance(n, ast.Assign) and any(isinstance(t, ast.Name) and t.id == e.id for t in n.targets)]
            return bool(vals) and all(any(norm(v) == f'{pv_}.fullName()' for pv_ in pvars) for v in vals)
        return False
    ok = bool(cmp_) and all(isinstance(c.comparators[0], ast.List) and len(c.comparators[0].elts) == 1 and
                            holds_full_name(c.comparators[0].elts[0]) for c in cmp_)
    chk.ob('R11.1', f'{DOC}.url :: index.html only for the single root itself', ok,
           'list(root_names) == [page_object.fullName()]' if ok else
           f'`{norm(cmp_[0]) if cmp_ else "?"}`: a sub-module/class whose short name equals the single root\'s name also gets index.html and '
           'overwrites the root page; its own page is never written', url.loc)
    idx = [c for c in UW if isinstance(c, ast.Constant) and c.value == 'index.html']
    chk.ob('R11.1', f'{DOC}.url :: single root is written to index.html', bool(idx), "page_url = 'index.html'", url.loc)
    frag = [j for j in fstr if any(isinstance(v, ast.Constant) and '#' in str(v.value) for v in j.values)]
    frag_attr = None
    for j in frag:
        for v in j.values:
            if isinstance(v, ast.FormattedValue) and 'quote(' in norm(v.value) and 'self.' in norm(v.value):
                m = re.search(r'quote\(self\.(\w+)(\(\))?\)', norm(v.value))
                if m:
                    frag_attr = m.group(1) + (m.group(2) or '')
    chk.ob('R11.1', f'{DOC}.url :: fragment names the object on its parent page', frag_attr is not None,
           f'#quote(self.{frag_attr})' if frag_attr else 'fragment expression not recognised', url.loc)
    opens = []
    for f in repo.funcs.values():
        if f.cls is None or f.cls.qn != WR:
            continue
        for c in calls_in(f, lambda c: call_name(c) == 'open'):
            opens.append((f, c))
    from ..util import single_value, expanded_text
    for f, c in opens:
        recv = c.func.value if isinstance(c.func, ast.Attribute) else None
        if isinstance(recv, ast.Name) and single_value(f, recv.id) is not None:
            recv = single_value(f, recv.id)      # `page_path = build_directory.joinpath(...)` ; `page_path.open(...)`
        if isinstance(recv, ast.Call) and isinstance(recv.func, ast.Attribute) and norm(recv.func.value) == 'self' and recv.func.attr.startswith('_'):
            # the path computed by a private method of the writer: `self._pagePath(ob).open(...)` - what it returns is the path
            for g_ in [g for g in repo.funcs.values() if g.cls is f.cls and g.name == recv.func.attr]:
                rv = [r.value for r in g_.walk() if isinstance(r, ast.Return) and r.value is not None]
                if len(rv) == 1:
                    recv = rv[0]
        tgt = norm(recv) if recv is not None else ''
        jp = recv if isinstance(recv, ast.Call) and call_name(recv) == 'joinpath' else None
        arg = jp.args[0] if jp is not None and len(jp.args) == 1 else None
        # links carry the percent-encoded url (Documentable.url applies quote()); whoever follows a link decodes it, so the file on disk
        # must bear the DECODED name: build_directory / unquote(ob.url).  Fixed page names are plain constants.
        url_quotes = any(isinstance(x, ast.Call) and call_name(x) == 'quote' for x in url.walk())
        decoded = isinstance(arg, ast.Call) and call_name(arg) == 'unquote' and len(arg.args) == 1
        inner = arg.args[0] if decoded else arg
        is_url = isinstance(inner, ast.Attribute) and isinstance(inner.value, ast.Name) and inner.attr == 'url'
        is_fixed = isinstance(inner, ast.Attribute) and isinstance(inner.value, ast.Name) and inner.attr == 'filename' and not decoded
        ok = 'build_directory' in tgt and (is_fixed or (is_url and (decoded or not url_quotes)))
        chk.ob('R11.1', f'{f.qn} :: opens {tgt[:50]}', ok,
               ('page file = build_directory / the decoded form of the url links are built from' if is_url else 'fixed page name') if ok else
               ('the page is written under the percent-encoded url itself: for a name with a non-ASCII character (class Café) links say `Caf%C3%A9.html`, '
                'which resolves to `Café.html`, but the file is literally called `Caf%C3%A9.html` - every link to it is dead' if is_url else
                'a page is written under a name that is not the url links are built from'), repo.loc(f.mod, c))
    chk.require('R11.1', 6)

    # ------------------------------------------------------------------ R11.2
    themes = load_templates(Path(repo.root))
    child_classes = {'function-child.html': 'pydoctor.templatewriter.pages.functionchild.FunctionChild',
                     'attribute-child.html': 'pydoctor.templatewriter.pages.attributechild.AttributeChild'}
    for tname, cq in child_classes.items():
        c = repo.cls(cq)
        fn = c.aliases.get('filename')
        if const_str(fn) != tname:
            chk.error(f'R11.2: {cq}.filename is {norm(fn)} (expected {tname!r})')
        for theme, tmpls in themes.items():
            t = tmpls.get(tname)
            if t is None:
                continue
            anchors = []
            for e in t.elements():
                if e.tagName == 'a':
                    for ch in e.childNodes:
                        if ch.nodeType == ch.ELEMENT_NODE and ch.tagName == 't:attr' and ch.getAttribute('name') in ('name', 'id'):
                            anchors.append(ch.getAttribute('t:render'))
            rendered = set()
            for r in anchors:
                m = repo.find_method(c, r)
                if m is None:
                    continue
                for ret in [n for n in m.walk() if isinstance(n, ast.Return)]:
                    mm = re.fullmatch(r'self\.ob\.(\w+)(\(\))?', norm(ret.value))
                    if mm:
                        rendered.add(mm.group(1) + (mm.group(2) or ''))
            ok = frag_attr is not None and frag_attr in rendered
            chk.ob('R11.2', f'themes/{theme}/{tname} :: anchor for the url fragment', ok,
                   f'<a name> renderers {anchors} emit self.ob.{{{", ".join(sorted(rendered))}}}; url fragment is self.{frag_attr}' if ok else
                   f'the fragment of Documentable.url is self.{frag_attr} but the template only emits anchors for {sorted(rendered)}: every '
                   'link to a function/attribute has no target', f'pydoctor/themes/{theme}/{tname}')
        # the self-link of the header uses the same attribute
        ah = repo.find_method(c, 'anchorHref')
        if ah is not None:
            ok = any('shortFunctionAnchor' in norm(n) or 'self.ob.name' in norm(n) for n in ah.walk() if isinstance(n, (ast.Assign, ast.Return)))
            chk.ob('R11.2', f'{cq}.anchorHref :: ¶ link targets the emitted anchor', ok, "f'#{name}' from shortFunctionAnchor" if ok else
                   'the header self-link uses another name than the anchor', ah.loc)
    chk.require('R11.2', 4)

    # a member is addressed as <page>#<name> and anchored with <a name="name">; an element id wins over <a name> when a fragment is resolved,
    # so a layout element whose id is a possible member name (an identifier) steals the fragment of every member called like it
    ids: Dict[str, Set[str]] = {}
    for theme, tpls in themes.items():
        for tname, t in tpls.items():
            for e in t.elements():
                if e.hasAttribute('id'):
                    v_ = e.getAttribute('id')
                    if v_.isidentifier():
                        ids.setdefault(v_, set()).add(f'{theme}/{tname}')
    chk.ob('R11.2', 'themes :: no layout element id is a possible member name', not ids,
           'every static id contains a character an identifier cannot have' if not ids else
           f'ids {sorted(ids)} (e.g. in {sorted(next(iter(ids.values())))[0]}) are valid Python names: for `def main()` the link mod.html#main - in pages, '
           'indexes and objects.inv - lands on the layout <div id="main">, not on the documentation of the function', 'pydoctor/themes')

    # pydoctor's translator prefixes every id and every `#` href that goes through starttag() with `rst-`.  docutils' html4css1 also builds
    # hrefs as raw strings, outside starttag(): those hooks must be overridden to use the same names (table from reading html4css1)
    DOCUTILS_RAW_HREF_HOOKS = {'footnote_backrefs': 'the links from a footnote / citation back to its references'}
    trc = repo.cls('pydoctor.node2stan.HTMLTranslator')
    st_ = trc.methods.get('starttag')
    from ..util import scope_nodes
    st_scope = scope_nodes(repo, st_) if st_ is not None else []
    if st_ is None or not any(isinstance(c_, ast.Constant) and isinstance(c_.value, str) and 'rst-' in c_.value for c_ in st_scope):
        raise AnalysisError('R11.2: HTMLTranslator.starttag no longer prefixes ids with rst-')
    # ids and hrefs must be prefixed by the SAME rule, or a reference and its target drift apart (`rst-rst-primer` vs `#rst-primer`): every place
    # that adds the prefix does so under the "not already prefixed" test
    # (a module-level private helper that adds the prefix - `_rst_prefixed(name)` - is one more such place)
    pref_helpers = [x for g_ in repo.funcs.values() if g_.mod is trc.mod and g_.cls is None and g_.outer is None and g_.name.startswith('_') for x in g_.walk()]
    adds = [n for n in {id(x): x for x in st_scope + pref_helpers + ([x for x in ast.walk(trc.methods['footnote_backrefs'].node)] if 'footnote_backrefs' in trc.methods else [])}.values()
            if isinstance(n, ast.JoinedStr) and any(isinstance(v, ast.Constant) and isinstance(v.value, str) and v.value.endswith('rst-') for v in n.values)]
    if len(adds) < 3:
        raise AnalysisError(f'R11.2: only {len(adds)} places add the rst- prefix in HTMLTranslator (4 confirmed)')
    for a_ in adds:
        guarded = False
        for p_ in parents(a_):
            if isinstance(p_, ast.IfExp) and any(isinstance(c_, ast.Call) and call_name(c_) == 'startswith' and c_.args and const_str(c_.args[0]) == 'rst-' for c_ in ast.walk(p_.test)):
                guarded = True
            if isinstance(p_, ast.If) and any(isinstance(c_, ast.Call) and call_name(c_) == 'startswith' and c_.args and const_str(c_.args[0]) == 'rst-' for c_ in ast.walk(p_.test)):
                guarded = True
            if isinstance(p_, (ast.ListComp, ast.GeneratorExp)) and any(isinstance(c_, ast.Call) and call_name(c_) == 'startswith' and c_.args and const_str(c_.args[0]) == 'rst-'
                                                                         for g_ in p_.generators for i_ in g_.ifs for c_ in ast.walk(i_)):
                guarded = True
        chk.ob('R11.2', f'node2stan.HTMLTranslator :: `{norm(a_)[:30]}` is added only when it is not there yet', guarded,
               'under `not ....startswith("rst-")`' if guarded else
               'this place prefixes unconditionally while the others test `startswith("rst-")`: a section titled "RST primer" gets id="rst-rst-primer" but the '
               'references to it say `#rst-primer`', f'pydoctor/node2stan.py:{a_.lineno}')
    for hook, what in sorted(DOCUTILS_RAW_HREF_HOOKS.items()):
        ov = trc.methods.get(hook)
        okh = ov is not None and any(isinstance(c_, ast.Constant) and isinstance(c_.value, str) and 'rst-' in c_.value for c_ in _scope_nodes(repo, ov))
        chk.ob('R11.2', f'node2stan.HTMLTranslator.{hook} :: raw hrefs use the prefixed ids', okh,
               'overridden, same rst- rule as starttag()' if okh else
               f'{what} are built by docutils as raw `href="#<id>"` strings while the ids themselves are emitted as `rst-<id>` by starttag(): a reference '
               '`[1]_` gets id="rst-footnote-reference-1" and its footnote links back to `#footnote-reference-1`, which does not exist', (ov.loc if ov else trc.loc))

    # a summary is shown on OTHER pages (tables of the parent, indexes): nodes that refer to a target inside the same docstring (footnote and
    # citation references, internal hyperlink references) must not be copied into it as they are
    se_ = repo.cls('pydoctor.epydoc.markup.SummaryExtractor')
    vp_ = se_.methods.get('visit_paragraph')
    if vp_ is None:
        raise AnalysisError('R11.5: SummaryExtractor.visit_paragraph not found')
    copies = [c for c in calls_in(vp_) if call_name(c) == 'deepcopy']
    if not copies:
        raise AnalysisError('R11.5: SummaryExtractor.visit_paragraph no longer copies inline nodes into the summary')
    mentioned = {x.attr for g in [vp_] + [h for h in se_.methods.values() if any(call_name(c) == h.name for c in calls_in(vp_))]
                 for x in ast.walk(g.node) if isinstance(x, ast.Attribute) and x.attr in ('footnote_reference', 'citation_reference', 'reference')}
    oks = {'footnote_reference', 'citation_reference', 'reference'} <= mentioned
    chk.ob('R11.5', 'epydoc.markup.SummaryExtractor.visit_paragraph :: references into the same docstring are not copied into the summary', oks,
           'footnote / citation / internal references are dropped or replaced by their text' if oks else
           'inline nodes are copied verbatim (`child.deepcopy()`): a first paragraph containing `[1]_`, `[CLRS]_` or `` `the caveats`_ `` puts '
           '`href="#rst-footnote-1"` on the parent\'s table, moduleIndex.html, classIndex.html, index.html - pages that do not have that anchor', vp_.loc)

    # ------------------------------------------------------------------ R11.3
    wd = repo.func(f'{WR}._writeDocsFor')
    cfg = CFG(wd)
    rec = [c for c in calls_in(wd) if call_name(c) == '_writeDocsFor']
    loops = [n for n in wd.walk() if isinstance(n, ast.For) and 'contents' in norm(n.iter)]
    ok = bool(rec) and bool(loops) and all(not any(isinstance(p, ast.If) and 'OWN_PAGE' in expanded_text(wd, p.test) for p in parents(l)) for l in loops)
    chk.ob('R11.3', f'{WR}._writeDocsFor :: recursion over all contents', ok,
           'for o in ob.contents.values(): self._writeDocsFor(o) - not nested under the OWN_PAGE test' if ok else
           'members of objects without own page (or some contents) are not visited: pages of nested classes are missing', wd.loc)
    op = [c for c in calls_in(wd) if call_name(c) == 'open']
    ok = bool(op) and any(isinstance(p, ast.If) and 'OWN_PAGE' in expanded_text(wd, p.test) for p in parents(op[0])) and \
        not any(isinstance(p, ast.If) and any(k in expanded_text(wd, p.test) for k in ('isPrivate', 'kind', 'docstring')) for p in parents(op[0]))
    chk.ob('R11.3', f'{WR}._writeDocsFor :: a page for every visible OWN_PAGE object', ok,
           'opened under documentation_location is OWN_PAGE (and not dry_run) only' if ok else
           'pages are written under an additional condition: links to the skipped objects are dead', wd.loc)
    wi = repo.func(f'{WR}.writeIndividualFiles')
    passes = [c for c in calls_in(wi) if call_name(c) == '_writeDocsFor']
    flags = [n for n in wi.walk() if isinstance(n, ast.Assign) and 'dry_run' in norm(n.targets[0])]
    ok = len(passes) == 2 and len(flags) == 2 and isinstance(flags[-1].value, ast.Constant) and flags[-1].value.value is False and \
        CFG(wi).before(flags[-1], passes[-1])
    chk.ob('R11.3', f'{WR}.writeIndividualFiles :: the second pass really writes', ok,
           'dry_run = False before the writing pass' if ok else 'the writing pass runs with dry_run still set / is missing', wi.loc)
    own = repo.cls('pydoctor.model.Inheritable').aliases.get('documentation_location')
    ok = own is not None and 'PARENT_PAGE' in norm(own) and 'OWN_PAGE' in norm(repo.cls(DOC).aliases.get('documentation_location'))
    chk.ob('R11.3', 'model :: functions/attributes live on the parent page, everything else on its own', ok,
           'Documentable: OWN_PAGE, Inheritable: PARENT_PAGE' if ok else 'documentation_location defaults changed', 'pydoctor/model.py')
    # registry <= page tree: whatever is registered in System.allobjects (the domain of the indexes and of link resolution) must be reachable
    # from a root through `contents` (the domain of the page writer) - or be forced HIDDEN, so that nothing lists it or links to it
    from ..owners import writers

    # collections whose members System.privacyClass answers HIDDEN for (`if ob in <parent>.<coll>: return PrivacyClass.HIDDEN`)
    spc = repo.func('pydoctor.model.System.privacyClass')
    cfs = CFG(spc)
    hidden_colls: Set[str] = set()
    for r_ in spc.walk():
        if isinstance(r_, ast.Return) and r_.value is not None and norm(r_.value).endswith('PrivacyClass.HIDDEN'):
            for t_, pol_ in cfs.dominating_tests(r_):
                if pol_ and isinstance(t_, ast.Compare) and len(t_.ops) == 1 and isinstance(t_.ops[0], ast.In) and isinstance(t_.comparators[0], ast.Attribute):
                    hidden_colls.add(t_.comparators[0].attr)

    def _components(it: ast.AST, depth: int = 0) -> List[ast.AST]:
        if isinstance(it, ast.Call) and call_name(it) == 'chain':
            return list(it.args)
        # `for o in self._members():` where the helper method returns the chain
        if isinstance(it, ast.Call) and isinstance(it.func, ast.Attribute) and not it.args and depth < 2:
            hs = [g for g in repo.funcs.values() if g.mod.name == 'pydoctor.model' and g.name == it.func.attr and g.cls is not None]
            rets = [r.value for g in hs for r in g.walk() if isinstance(r, ast.Return) and r.value is not None]
            if len(hs) == 1 and len(rets) == 1:
                return _components(rets[0], depth + 1)
        return [it]

    def reachable_or_hidden(f: Func, name: str, depth: int = 0) -> Optional[str]:
        if depth > 3:
            return None
        for n in f.walk():
            if isinstance(n, ast.Call) and call_name(n) in ('append', 'add') and n.args and norm(n.args[0]) == name and \
                    isinstance(n.func, ast.Attribute) and isinstance(n.func.value, ast.Attribute) and n.func.value.attr in hidden_colls:
                return f'kept in {norm(n.func.value)[:40]}, whose members System.privacyClass answers HIDDEN for'
            if isinstance(n, ast.For) and isinstance(n.target, ast.Name) and n.target.id == name and \
                    all(norm(c_).endswith('.contents.values()') or (isinstance(c_, ast.Attribute) and c_.attr in hidden_colls) for c_ in _components(n.iter)):
                return f'a member (contents, or a hidden collection) of an object that is itself registered ({norm(n.iter)[:60]})'
            if isinstance(n, ast.Assign) and isinstance(n.value, ast.Name) and n.value.id == name and \
                    any(isinstance(t, ast.Subscript) and isinstance(t.value, ast.Attribute) and t.value.attr == 'contents' for t in n.targets):
                return f'{norm(n)[:60]} in {f.name}()'
            if isinstance(n, ast.Call) and call_name(n) == 'append' and 'rootobjects' in norm(n.func) and n.args and norm(n.args[0]) == name:
                return f'{norm(n)[:60]} in {f.name}()'
            if isinstance(n, ast.Assign) and norm(n.value).endswith('PrivacyClass.HIDDEN') and \
                    any(name in {x.id for x in ast.walk(t) if isinstance(x, ast.Name)} for t in n.targets):
                return f'forced hidden: {norm(n)[:70]} in {f.name}()'
            if isinstance(n, ast.For) and isinstance(n.target, ast.Name) and n.target.id == name and norm(n.iter).endswith('.contents.values()'):
                return f'a member of an object that is itself registered ({norm(n.iter)})'
        ps = [p_.arg for p_ in f.params()]
        if name not in ps:
            return None
        idx = ps.index(name)
        sites = []
        for g in repo.funcs.values():
            if g.mod is not f.mod:
                continue
            for c in calls_in(g, lambda c: call_name(c) == f.name):
                if g is f and f.cls is None:   # the recursive call of a nested helper: argument judged inside f itself
                    pass
                sites.append((g, c))
        if not sites:
            return None
        whys = []
        for g, c in sites:
            off = 1 if (ps and ps[0] == 'self' and isinstance(c.func, ast.Attribute)) else 0
            if name == 'self':
                arg = c.func.value if isinstance(c.func, ast.Attribute) else None
            else:
                arg = c.args[idx - off] if len(c.args) > idx - off >= 0 else next((k.value for k in c.keywords if k.arg == name), None)
            if not isinstance(arg, ast.Name):
                return None
            why = reachable_or_hidden(g, arg.id, depth + 1)
            if why is None:
                return None
            whys.append(why)
        return ' / '.join(sorted(set(whys)))[:200]

    n_reg = 0
    for w in writers(repo, 'allobjects', ['pydoctor.model.System'], unknown_counts=True, skip_modules=('pydoctor.test',)):
        if w.kind not in ('setitem', 'setdefault'):
            continue
        val = w.node.value if isinstance(w.node, ast.Assign) else (w.node.args[1] if isinstance(w.node, ast.Call) and len(w.node.args) > 1 else None)
        if not isinstance(val, ast.Name):
            chk.error(f'R11.3: value registered in allobjects at {w.loc} is not a plain name: {norm(w.node)[:60]}')
            continue
        n_reg += 1
        why = reachable_or_hidden(w.func, val.id)
        chk.ob('R11.3', f'{w.func.qn} :: {norm(w.node)[:50]} - the registered object gets a page or is hidden', why is not None,
               why or f'`{val.id}` is (re)registered under a linkable name but is neither inserted in a `contents` table (the page writer only walks those) '
               'nor forced HIDDEN: the indexes and every reference to it link to a page that is never written', w.loc)
    if n_reg < 4:
        raise AnalysisError(f'R11.3: {n_reg} registrations in System.allobjects found (4 confirmed: addObject, handleDuplicate x2, _handle_reparenting_post)')
    # every class page links to classIndex.html#<its qualified name> ("View In Hierarchy"); the anchor is emitted for the classes findRootClasses returns
    # and for what subclassesFrom reaches from them through VISIBLE classes.  A visible class whose base is a hidden object is reached through
    # nothing: the branch that handles a hidden base has to file the class itself
    frc = repo.func('pydoctor.templatewriter.summary.findRootClasses')
    zl = [n for n in frc.walk() if isinstance(n, ast.For) and isinstance(n.iter, ast.Call) and call_name(n.iter) == 'zip' and isinstance(n.target, ast.Tuple) and
          len(n.target.elts) == 2 and all(isinstance(e, ast.Name) for e in n.target.elts)]
    if not zl:
        raise AnalysisError('R11.3: the loop over (base name, base object) pairs was not found in findRootClasses')
    obv = zl[0].target.elts[1].id       # type: ignore[attr-defined]
    # the table the function hands back (role, not name): the local whose items are returned
    tbls = {x.id for r_ in frc.walk() if isinstance(r_, ast.Return) and r_.value is not None for c_ in ast.walk(r_.value)
            if isinstance(c_, ast.Call) and call_name(c_) == 'items' and isinstance(c_.func, ast.Attribute) for x in [c_.func.value] if isinstance(x, ast.Name)}
    if not tbls:
        raise AnalysisError('R11.3: findRootClasses no longer returns the items of a local table')

    def _hidden_when(t: ast.AST, pol: bool) -> bool:
        """The test being `pol` is possible for (or implied by) a hidden base object."""
        if isinstance(t, ast.UnaryOp) and isinstance(t.op, ast.Not):
            return _hidden_when(t.operand, not pol)
        if isinstance(t, ast.Attribute) and t.attr == 'isVisible' and norm(t.value) == obv:
            return not pol
        if isinstance(t, ast.BoolOp) and isinstance(t.op, ast.Or):
            return any(_hidden_when(v, True) for v in t.values) if pol else False
        return False
    files_hidden = False
    for n in ast.walk(zl[0]):
        if isinstance(n, ast.If) and _hidden_when(n.test, True):
            stores = [x for st in n.body for x in ast.walk(st) if (isinstance(x, ast.Subscript) and isinstance(x.ctx, ast.Store) and isinstance(x.value, ast.Name) and x.value.id in tbls) or
                      (isinstance(x, ast.Call) and call_name(x) in ('setdefault', 'append') and any(isinstance(y, ast.Name) and y.id in tbls for y in ast.walk(x)))]
            # ... or through a local helper that stores its argument in the table
            helpers_ = {g.name for g in repo.funcs.values() if g.outer is frc and any(isinstance(x, ast.Subscript) and isinstance(x.ctx, ast.Store) and isinstance(x.value, ast.Name) and
                                                                                      x.value.id in tbls for x in g.walk())}
            via = [x for st in n.body for x in ast.walk(st) if isinstance(x, ast.Call) and isinstance(x.func, ast.Name) and x.func.id in helpers_]
            if stores or via:
                files_hidden = True
    chk.ob('R11.3', 'templatewriter.summary.findRootClasses :: a visible class with a hidden base is filed in the class index', files_hidden,
           'the branch for a hidden base stores the class in the returned table' if files_hidden else
           'no branch files a class whose base is a hidden object: it is neither a root nor reachable through its base, classIndex.html has no anchor for it and the '
           '"View In Hierarchy" link of its page (and of its subclasses) leads nowhere', frc.loc)
    chk.require('R11.3', 9)

    # ------------------------------------------------------------------ R11.4
    sp = repo.func('pydoctor.templatewriter.summary.summaryPages')
    always: Set[str] = set()
    cond: Set[str] = set()
    for n in sp.walk():
        if isinstance(n, ast.List):
            for e in n.elts:
                if isinstance(e, ast.Name):
                    always.add(e.id)
        if isinstance(n, ast.Call) and call_name(n) == 'append' and n.args and isinstance(n.args[0], ast.Name):
            cond.add(n.args[0].id)
    sv = repo.mod('pydoctor.templatewriter.search').assigns.get('searchpages')
    if isinstance(sv, ast.List):
        always |= {e.id for e in sv.elts if isinstance(e, ast.Name)}
    files_always: Dict[str, str] = {}
    for f in repo.classes.values():
        if f.name in always | cond:
            fn = const_str(f.aliases.get('filename'))
            if fn:
                files_always[fn] = f.name
    written = {fn for fn, cn in files_always.items() if cn in always}
    chk.stats['unconditional_pages'] = sorted(written)
    # index.html: IndexPage when several roots, else the root's own page: both keyed on len(root_names)
    idx_cond = [n for n in sp.walk() if isinstance(n, ast.If) and 'root_names' in norm(n.test)]
    okidx = bool(idx_cond) and 'IndexPage' in cond and norm(idx_cond[0].test).replace(' ', '') == 'len(system.root_names)>1' and bool(cmp_)
    chk.ob('R11.4', 'index.html :: written in both root configurations', okidx,
           'several roots: IndexPage (len(root_names) > 1); one root: the root\'s own page (url special case)' if okidx else
           'index.html may not be written for some number of roots', sp.loc)
    lits: List[Tuple[str, str, str]] = []
    for f in repo.funcs.values():
        if not f.mod.name.startswith('pydoctor.templatewriter'):
            continue
        for c in ast.walk(f.node):
            if isinstance(c, ast.Constant) and isinstance(c.value, str) and re.fullmatch(r'[\w.-]+\.html(#.*)?', c.value):
                par = getattr(c, '_parent', None)
                if isinstance(par, ast.Assign) or (isinstance(par, ast.Call) and call_name(par) in ('get_loader', 'get_template', 'lookup_loader')):
                    continue
                lits.append((f.qn, c.value.split('#')[0], repo.loc(f.mod, c)))
    files = theme_files(Path(repo.root))
    for theme, tmpls in themes.items():
        assets = set(files.get('base', [])) | set(files.get(theme, []))
        for name, t in tmpls.items():
            for tag, v in t.attr_values('href') + t.attr_values('src'):
                if not v or v.startswith(('http:', 'https:', '#', 'mailto:')):
                    continue
                base = v.split('#')[0]
                if base.endswith('.html'):
                    lits.append((f'themes/{theme}/{name}', base, f'pydoctor/themes/{theme}/{name}'))
                else:
                    ok = base in assets
                    chk.ob('R11.4', f'themes/{theme}/{name} :: asset {base}', ok,
                           'shipped with the theme (copied by prepOutputDirectory)' if ok else
                           f'{base} is referenced but shipped neither in themes/base nor in themes/{theme}', f'pydoctor/themes/{theme}/{name}')
    for where, target, loc in lits:
        ok = target in written or target == 'index.html'
        chk.ob('R11.4', f'{where} :: link to {target}', ok,
               f'written unconditionally by {files_always.get(target, "the index rule")}' if ok else
               f'{target} is linked from every page but is not in the unconditional page list {sorted(written)}', loc)
    # the fixed pages and the object pages share one directory: a fixed name that is also a possible module name (`index`, `classIndex`, ...)
    # must be kept out of the object-page name space by Documentable.url, else a root module of that name and the summary page are written
    # to the same file (and a single root called `index` makes the compatibility symlink point at itself: OSError, the run aborts)
    urlf = repo.func(f'{DOC}.url')
    reserved: Set[str] = set()
    for n in _scope_nodes(repo, urlf):
        if isinstance(n, ast.Compare) and len(n.ops) == 1 and isinstance(n.ops[0], (ast.In, ast.NotIn)):
            coll = n.comparators[0]
            val = coll
            if isinstance(coll, ast.Name):
                val = repo.mod('pydoctor.model').assigns.get(coll.id, coll)
            if isinstance(val, ast.Call) and val.args:
                val = val.args[0]
            if isinstance(val, (ast.Tuple, ast.List, ast.Set)):
                reserved |= {e.value for e in val.elts if isinstance(e, ast.Constant) and isinstance(e.value, str)}
    for fn, cn in sorted(files_always.items()):
        stem = fn[:-len('.html')] if fn.endswith('.html') else fn
        possible_module = all(part.isidentifier() for part in stem.split('.'))
        okr = (not possible_module) or stem in reserved
        chk.ob('R11.4', f'{fn} ({cn}) :: cannot be the page of an object', okr,
               ('not a possible module name' if not possible_module else 'reserved by Documentable.url') if okr else
               f'`{stem}` is a valid module name: the page of a root module `{stem}` is written to the same file as this summary page', urlf.loc)
    chk.require('R11.4', 36)
    # static templates are written by prepOutputDirectory
    pod = repo.func(f'{WR}.prepOutputDirectory')
    ok = any(call_name(c) == 'write' for c in calls_in(pod)) and any(isinstance(n, ast.For) and 'templates' in norm(n.iter) for n in pod.walk())
    chk.ob('R11.4', f'{WR}.prepOutputDirectory :: static assets are copied', ok, 'every StaticTemplate of the lookup is written' if ok else
           'assets are no longer copied to the output directory', pod.loc)

    # ------------------------------------------------------------------ R11.5
    tl = repo.func('pydoctor.linker.taglink')
    from ..util import scope_nodes
    sh = [n for n in scope_nodes(repo, tl) if isinstance(n, ast.If) and 'startswith' in norm(n.test)]
    ok = False
    detail = 'same-page shortening not found'
    for n in sh:
        # structural: `X.startswith(P + '#')` guards `X = X[len(P):]` with the same X and P
        sw = [c for c in ast.walk(n.test) if isinstance(c, ast.Call) and call_name(c) == 'startswith' and isinstance(c.func, ast.Attribute)]
        if not sw:
            continue
        c = sw[0]
        x = norm(c.func.value)  # type: ignore[attr-defined]
        arg = c.args[0] if c.args else None
        pfx = None
        if isinstance(arg, ast.BinOp) and isinstance(arg.op, ast.Add) and isinstance(arg.right, ast.Constant) and arg.right.value == '#':
            pfx = norm(arg.left)
        elif isinstance(arg, ast.JoinedStr) and len(arg.values) == 2 and isinstance(arg.values[0], ast.FormattedValue) and \
                isinstance(arg.values[1], ast.Constant) and arg.values[1].value == '#':
            pfx = norm(arg.values[0].value)
        cuts = [a for st in n.body for a in ast.walk(st) if ((isinstance(a, ast.Assign) and norm(a.targets[0]) == x) or isinstance(a, ast.Return)) and
                isinstance(a.value, ast.Subscript) and norm(a.value.value) == x and isinstance(a.value.slice, ast.Slice)]
        good = pfx is not None and bool(cuts) and all(a.value.slice.upper is None and a.value.slice.lower is not None and
                                                      norm(a.value.slice.lower) == f'len({pfx})' for a in cuts)  # type: ignore[attr-defined]
        nonempty = pfx is not None and any(norm(v) == pfx for v in (n.test.values if isinstance(n.test, ast.BoolOp) else []))
        ok = good and nonempty
        detail = f"if {pfx} and {x}.startswith({pfx} + '#'): {x} = {x}[len({pfx}):]" if ok else \
            f'`{norm(n.test)[:60]}` / `{" ".join(norm(b) for b in n.body)[:60]}`: the prefix test and the slice no longer agree ' \
            '(links on the same page keep or lose the wrong prefix)'
    chk.ob('R11.5', 'pydoctor.linker.taglink :: strips exactly the page url', ok, detail, tl.loc)
    href = [c for c in calls_in(tl) if any(k.arg == 'href' for k in c.keywords)]
    # `url = o.url`, or `url = _helper(o.url, ...)` with a private helper of the module (the shortening extracted)
    def _is_url_expr(v: ast.AST) -> bool:
        return (isinstance(v, ast.Attribute) and v.attr == 'url') or \
            (isinstance(v, ast.Call) and isinstance(v.func, ast.Name) and v.func.id.startswith('_') and bool(v.args) and
             isinstance(v.args[0], ast.Attribute) and v.args[0].attr == 'url' and f'pydoctor.linker.{v.func.id}' in repo.funcs)
    urlvars = {t.id for n in tl.walk() if isinstance(n, ast.Assign) and _is_url_expr(n.value) for t in n.targets if isinstance(t, ast.Name)}
    hv = [next(k.value for k in c.keywords if k.arg == 'href') for c in href]
    ok = bool(href) and all((isinstance(v, ast.Name) and v.id in urlvars) or _is_url_expr(v) for v in hv)
    chk.ob('R11.5', 'pydoctor.linker.taglink :: href is the (shortened) object url', ok, 'href=url with url = o.url' if ok else
           'href is not built from Documentable.url', tl.loc)
    # ... and what the callers pass as "the page this link is written on": where it is the url of an object, it is the url of a PAGE - `<x>.url` of a
    # page object or `<x>.page_object.url` - never the url of a relative of the documented object (`.module.url`, `.parent.url`): on a class page
    # `documented.module.url` is the module's page, and a link to a function of that module is shortened to `#func`, an anchor the class page lacks
    n_pu = 0
    for f in sorted(repo.funcs.values(), key=lambda g: g.qn):
        if '.test' in f.mod.name or not f.mod.name.startswith('pydoctor.templatewriter'):
            continue
        for c in calls_in(f):
            if call_name(c) != 'taglink' or len(c.args) < 2:
                continue
            pu = c.args[1]
            if isinstance(pu, ast.Name):   # a named intermediate (`current_page_url = documented.page_object.url`)
                from ..util import single_value as _sv
                pu = _sv(f, pu.id) or pu
            if not (isinstance(pu, ast.Attribute) and pu.attr == 'url'):
                continue
            n_pu += 1
            chain = []
            x = pu.value
            while isinstance(x, ast.Attribute):
                chain.append(x.attr)
                x = x.value
            rel = [a for a in chain if a in ('module', 'parent', 'parentMod', 'definingMod')]
            okpu = not rel
            chk.ob('R11.5', f'{f.qn} :: the page a link is shortened against is a page, not a relative of the documented object', okpu,
                   f'`{norm(pu)}`' if okpu else
                   f'`{norm(pu)}` is the page of the `{rel[0]}` of the object: on the page of a class the links to members of its module are shortened to a bare '
                   '`#name`, an anchor that only exists on the module page', repo.loc(f.mod, c))
    if n_pu < 4:
        raise AnalysisError(f'R11.5: {n_pu} taglink calls whose page is the url of an object found in templatewriter (4 confirmed)')
    # the page context under which an annotation link is shortened is the annotated object itself (the link is emitted on ITS page),
    # not its parent / module: `#name` would otherwise be emitted on a page that has no such anchor
    al = repo.cls('pydoctor.linker._AnnotationLinker')
    ini = al.methods.get('__init__')
    if ini is None:
        raise AnalysisError('R11.5: _AnnotationLinker.__init__ missing')
    ip = [p.arg for p in ini.params()]
    own = {t.attr for n in ini.walk() if isinstance(n, ast.Assign) and isinstance(n.value, ast.Name) and len(ip) > 1 and n.value.id == ip[1]
           for t in n.targets if isinstance(t, ast.Attribute) and dotted(t.value) == 'self'}
    for pn, pf in al.methods.items():   # properties returning the same attribute
        rs = [n for n in pf.walk() if isinstance(n, ast.Return) and isinstance(n.value, ast.Attribute) and dotted(n.value.value) == 'self' and n.value.attr in own]
        if rs and len(pf.body()) == 1:
            own = own | {pn}
    n_sw = 0
    for mn in ('link_to', 'link_xref'):
        mf = al.methods.get(mn)
        if mf is None:
            raise AnalysisError(f'R11.5: _AnnotationLinker.{mn} missing')
        for c in calls_in(mf, lambda c: call_name(c) == 'switch_context'):
            n_sw += 1
            a0 = c.args[0] if c.args else None
            ok = isinstance(a0, ast.Attribute) and dotted(a0.value) == 'self' and a0.attr in own
            chk.ob('R11.5', f'{al.qn}.{mn} :: links are shortened relative to the page of the annotated object', ok,
                   f'switch_context({norm(a0) if a0 is not None else ""})' if ok else
                   f'`{norm(c)}`: the context is not the object the annotation belongs to; for a class (own page) the parent lives on another page, so a '
                   'module-level name in a base / annotation is emitted as `#name` on a page without that anchor', repo.loc(mf.mod, c))
    if n_sw < 2:
        raise AnalysisError(f'R11.5: {n_sw} switch_context call(s) in _AnnotationLinker.link_to/link_xref (2 confirmed)')
    # objects move (re-exports) after their linker exists (Documentable.docstring_linker caches it, value formatters keep a reference):
    # a linker must not freeze the page of its object at construction time
    n_lk = 0
    for c in repo.classes.values():
        if c.mod.name != 'pydoctor.linker':
            continue
        ini_ = c.methods.get('__init__')
        if ini_ is None:
            continue
        n_lk += 1
        frozen = [n for n in ini_.walk() if isinstance(n, ast.Attribute) and n.attr in ('page_object', 'url', 'page_url') and isinstance(n.ctx, ast.Load)]
        chk.ob('R11.5', f'{c.qn}.__init__ :: the page of the object is not captured at construction', not frozen,
               'the page is looked up when a link is made' if not frozen else
               f'`{norm(frozen[0])}` is evaluated once, when the linker is created (during the AST walk, for default values): after a re-export moves the '
               'object to another module the links are still shortened against the old page, `#name` is emitted on a page without that anchor',
               repo.loc(ini_.mod, frozen[0] if frozen else ini_.node))
    if n_lk < 2:
        raise AnalysisError(f'R11.5: {n_lk} linker classes with a constructor found in pydoctor.linker (_EpydocLinker, _AnnotationLinker confirmed)')
    # a docstring can be rendered for another object than the one it was written for (inherited): whoever renders with the linker of that
    # *source* object must set the page context explicitly, or have established that both live on the same page
    BINDERS = ('ensure_parsed_docstring', '_get_parsed_summary')
    n_src = 0
    for f in sorted(repo.funcs.values(), key=lambda f: f.qn):
        if not f.mod.name.startswith('pydoctor.') or '.test' in f.mod.name:
            continue
        srcs: Set[str] = set()
        for n in f.walk():
            if isinstance(n, ast.Assign) and isinstance(n.value, ast.Call) and call_name(n.value) in BINDERS:
                t = n.targets[0]
                if isinstance(t, ast.Name):
                    srcs.add(t.id)
                elif isinstance(t, ast.Tuple) and t.elts and isinstance(t.elts[0], ast.Name):
                    srcs.add(t.elts[0].id)
        if not srcs:
            continue
        cfgf = CFG(f)
        for c in calls_in(f):
            if call_name(c) in ('isinstance', 'switch_context') or call_name(c) in BINDERS:
                continue
            used = [a for a in list(c.args) + [k.value for k in c.keywords]
                    if (isinstance(a, ast.Name) and a.id in srcs) or
                    (isinstance(a, ast.Attribute) and a.attr == 'docstring_linker' and isinstance(a.value, ast.Name) and a.value.id in srcs)]
            if not used:
                continue
            sname = used[0].id if isinstance(used[0], ast.Name) else used[0].value.id  # type: ignore[attr-defined]
            n_src += 1
            in_with = any(isinstance(p, ast.With) and any(isinstance(it.context_expr, ast.Call) and call_name(it.context_expr) == 'switch_context' and
                                                          norm(it.context_expr.func).startswith(f'{sname}.docstring_linker') for it in p.items)
                          for p in parents(c))
            same_page = False
            for t, pol in cfgf.dominating_tests(cfgf.stmt_of(c)):
                for x in ast.walk(t):
                    if isinstance(x, ast.Compare) and len(x.ops) == 1 and isinstance(x.ops[0], (ast.Is, ast.IsNot, ast.Eq, ast.NotEq)) and \
                            norm(x.left) == f'{sname}.page_object' and norm(x.comparators[0]).endswith('.page_object'):
                        differ_op = isinstance(x.ops[0], (ast.IsNot, ast.NotEq))
                        whole = x is t
                        # fact "pages equal": (is, True) / (is not, False); a false conjunction containing `is not` also leaves "source is None or same page"
                        if (whole and pol != differ_op) or (not whole and not pol and differ_op and isinstance(t, ast.BoolOp) and isinstance(t.op, ast.And)):
                            same_page = True
            chk.ob('R11.5', f'{f.qn} :: {norm(c.func)}(... {sname} ...) renders under an explicit page context', in_with or same_page,
                   ('inside `with ' + sname + '.docstring_linker.switch_context(...)`' if in_with else f'only reached when {sname} is None or on the same page') if in_with or same_page else
                   f'`{norm(c)[:70]}` renders with the linker of `{sname}` - the object the docstring was written for, which for an inherited docstring lives on '
                   'another page: same-page references come out as `#name` on a page without that anchor', repo.loc(f.mod, c))
    if n_src < 2:
        raise AnalysisError(f'R11.5: {n_src} renderings through a docstring source object found (format_docstring, format_summary confirmed)')

    # ------------------------------------------------------------------ R11.2 (addition): the table of contents is computed, not woven into the docstring
    # build_table_of_content() is called for every expanded sidebar entry - also on the pages of OTHER objects, before anybody decides whether the list is
    # shown.  If it writes back-references (`title['refid'] = <id of the entry>`) into the docstring's own document, the title on the object's page links
    # to the id of an entry that was generated for another page and is not on this one
    bt = repo.func('pydoctor.epydoc.docutils.build_table_of_content')
    np_ = bt.params()[0].arg
    writes = [n for n in bt.walk() if isinstance(n, ast.Assign) and any(isinstance(t, ast.Subscript) and isinstance(t.slice, ast.Constant) and t.slice.value in ('refid', 'refuri', 'ids', 'backrefs')
                                                                       for t in n.targets)]
    chk.ob('R11.2', 'pydoctor.epydoc.docutils.build_table_of_content :: the document of the docstring is read, not modified', not writes,
           'no attribute of an existing node is assigned' if not writes else
           f'`{norm(writes[0])}` stores the id of a generated entry in a node of the docstring: with --sidebar-expand-depth >= 2 the titles of a module or class link to '
           '`#rst-toc-entry-1`, an id that only exists in the sidebar of the parent\'s page', repo.loc(bt.mod, writes[0]) if writes else bt.loc)

    # ------------------------------------------------------------------ R11.3 (additions from the second hunter round)
    # (a) findRootClasses keeps two kinds of entries in one table: `<written name of an unresolved base> -> [classes]` and `<qualified name of a root
    # class> -> class`.  When the written name of somebody's unresolved base IS the qualified name of a root class, the later store must not replace
    # the earlier entry (the list is lost: those classes get no anchor in classIndex.html) - the reverse order is already handled
    frc2 = repo.func('pydoctor.templatewriter.summary.findRootClasses')
    scope_fs = [frc2] + [g for g in repo.funcs.values() if g.outer is frc2]
    tbls2 = {x.id for r_ in frc2.walk() if isinstance(r_, ast.Return) and r_.value is not None for c_ in ast.walk(r_.value)
             if isinstance(c_, ast.Call) and call_name(c_) == 'items' and isinstance(c_.func, ast.Attribute) for x in [c_.func.value] if isinstance(x, ast.Name)}
    own = []
    for g in scope_fs:
        for n in g.walk():
            if isinstance(n, ast.Assign) and len(n.targets) == 1 and isinstance(n.targets[0], ast.Subscript) and isinstance(n.targets[0].value, ast.Name) and \
                    n.targets[0].value.id in tbls2 and isinstance(n.value, ast.Name):
                key = n.targets[0].slice
                keyed_by_self = (isinstance(key, ast.Call) and call_name(key) == 'fullName' and norm(key.func.value) == n.value.id) or \
                    (isinstance(key, ast.Name) and any(isinstance(a, ast.Assign) and any(isinstance(t, ast.Name) and t.id == key.id for t in a.targets) and
                                                      isinstance(a.value, ast.Call) and call_name(a.value) == 'fullName' and norm(a.value.func.value) == n.value.id for a in g.walk()))
                if keyed_by_self:
                    own.append((g, n))
    if not own:
        raise AnalysisError('R11.3: findRootClasses no longer files a root class under its own qualified name')
    for g, n in own:
        cg_ = CFG(g)
        tb = n.targets[0].value.id
        held = {t.id for a in g.walk() if isinstance(a, ast.Assign) and any(isinstance(x, ast.Name) and x.id == tb for x in ast.walk(a.value)) for t in a.targets if isinstance(t, ast.Name)}
        looked = any(any(isinstance(x, ast.Name) and (x.id == tb or x.id in held) for x in ast.walk(t)) for t, _pol in cg_.dominating_tests(n))
        chk.ob('R11.3', 'templatewriter.summary.findRootClasses :: filing a root class does not discard the classes already filed under that name', looked,
               'the existing entry is looked at first' if looked else
               f'`{norm(n)}` replaces whatever is in the table: when an earlier class has an unresolved base whose written name equals this qualified name, the list holding it '
               'is overwritten and it disappears from classIndex.html - its "View In Hierarchy" link has no anchor', repo.loc(g.mod, n))
    # (b) the sidebar lists the sections of the docstring as links to `#<section id>`; those ids are only on the page when the body was rendered from the
    # parsed docstring.  When rendering fails the body is re-done as plain text (no sections): the contents list must not be shown then
    ft = repo.func('pydoctor.epydoc2stan.format_toc')
    rets_toc = [r for r in ft.walk() if isinstance(r, ast.Return) and r.value is not None and isinstance(r.value, ast.Call) and call_name(r.value) == 'safe_to_stan']
    if not rets_toc:
        raise AnalysisError('R11.3: format_toc no longer returns the rendered table of contents')
    for r in rets_toc:
        tried = [t for t in ft.walk() if isinstance(t, ast.Try) and any(isinstance(c, ast.Call) and call_name(c) == 'to_stan' for st in t.body for c in ast.walk(st)) and
                 any(any(isinstance(x, ast.Return) for x in h.body) for h in t.handlers) and CFG(ft).before(t, r)]
        chk.ob('R11.3', 'pydoctor.epydoc2stan.format_toc :: section links are only offered when the body is rendered from the parsed docstring', bool(tried),
               'the body is test-rendered first; a failure suppresses the contents list' if tried else
               'the contents list is built from the parsed docstring whatever becomes of the body: a docstring with section titles that falls back to plain text (a no-break '
               'space, an empty table cell, two blanks in an inline literal) gets sidebar links `#rst-usage` to ids that are not on the page', repo.loc(ft.mod, r))
