"""
C09 - rendering keeps the text.  Claimed for ONE clause only: docstring fields are not silently dropped.
  R09.1 every field handler stores the field in an accumulator or reports it, on every path
  R09.2 every accumulator is rendered by format() (or feeds it through resolve_types)
  R09.3 every element tag the epytext parser can build is handled by the epytext -> docutils conversion
  R09.4 every symbol name S{...} accepts has a code point
  R09.5 a documented row removed from an accumulator is put back
  R09.6 a slot filled piecewise by two field kinds is created only while empty, and rendered whichever of its parts it has
  R09.7 a reST directive declaring a body reads self.content on every path through run()
  R09.8 a docutils visit method that prunes its subtree renders all of it (no single child picked by index)
  R09.9 a function that replaces a field list uses or keeps every field of it
  R09.10 the parser entries do not rewrite the raw docstring text before parsing
  R09.11 the doctest colorizer re-emits every named group of a token regex it takes apart
  R09.12 the piece taken after a delimiter is the whole remainder (split(d, k)[k], never split(d)[k])
  R09.13 a width cut from the front of every line of a block is computed over all of its lines
  R09.17 the title docutils promotes to document title (a lone top-level section) is still rendered in the body
  R09.18 the translator does not spell a character of the text as an entity the XML re-parse rejects (U+00A0 -> &nbsp;)
  R09.19 the indentation a literal block is measured against is re-read from the paragraph token when a helper built that paragraph with an indentation of its own
  R09.16 a field handler that keeps ONE text per entry (FieldHandler slots; extract_fields for the tags FieldHandler leaves to it) reports a second field
         for the same entry before it overwrites the first
  R09.15 verbatim epytext tokens (literal and doctest blocks) are cut from their lines by one line-independent width
  R09.14 a consolidated-field handler turns every child of a list item into field content (whole copy, or indexes covered by a validated length)
Does not decide: word-for-word preservation, ordering, literal/doctest blocks, napoleon conversion (equalities over runtime strings).
"""
from __future__ import annotations

import ast
from typing import Dict, List, Optional, Set, Tuple

from ..core import AnalysisError, Func, Repo, dotted, norm, parents
from ..cfg import CFG
from ..report import Check
from ..util import call_name, calls_in, const_str, values_of, loop_exits, is_report_call

FH = 'pydoctor.epydoc2stan.FieldHandler'
EPY = 'pydoctor.epydoc.markup.epytext'

# epytext element tags that never reach the converter, with the reason
CONSUMED_BEFORE_CONVERSION = {
    'escape': 'replaced by its text when the brace closes (_colorize); an unclosed brace is a fatal error',
    'litbrace': 'replaced by literal braces when the brace closes',
    'unknown': 'only built together with a fatal ColorizingError ("Unknown inline markup tag")',
    'field': 'split off into Field objects by epytext.parse_docstring (its tag is rewritten to "epytext")',
}


def _field_param(f: Func) -> Optional[str]:
    ps = [p.arg for p in f.params()]
    return ps[1] if len(ps) >= 2 else None


def _consuming(repo: Repo, handler_cls, f: Func, st: ast.stmt, fld: str, reporters: Set[str]) -> Optional[str]:
    """Does this statement store the field / its text in the handler state, or report it?"""
    for n in ast.walk(st):
        if isinstance(n, ast.Call):
            nm = call_name(n)
            d = dotted(n.func) or ''
            if d == f'{fld}.report':
                return 'reports'
            if d.startswith('self.') and nm in reporters and any(isinstance(a, ast.Name) and a.id == fld for a in n.args):
                return f'delegates to {nm} (stores or reports)'
            if nm in ('append', 'extend', 'setdefault', 'update') and d.startswith('self.') and \
                    any(fld in {x.id for x in ast.walk(a) if isinstance(x, ast.Name)} for a in n.args):
                return f'stores in {d.rsplit(".", 1)[0]}'
    if isinstance(st, (ast.Assign, ast.AugAssign, ast.AnnAssign)):
        tg = st.targets if isinstance(st, ast.Assign) else [st.target]
        uses = st.value is not None and fld in {x.id for x in ast.walk(st.value) if isinstance(x, ast.Name)}
        for t in tg:
            root = t
            while isinstance(root, (ast.Attribute, ast.Subscript)):
                root = root.value
            if uses and isinstance(root, ast.Name) and root.id == 'self' and not isinstance(t, ast.Name):
                return f'stores in {norm(t)[:40]}'
    return None


def run(repo: Repo, chk: Check, thorough: bool = False) -> None:
    chk.explanation = ('effect analysis of the FieldHandler.handle_* methods on their statement CFG (must-pass-through a storing or reporting '
                       'statement), def-use of the accumulators into format(), table agreement between the tags/symbols the epytext parser '
                       'builds and the ones its converter handles')
    chk.assumptions = ['only the clause "a field shows its text or is reported" is decided; text preservation in the parsers is not',
                       'class and module docstrings have their ivar/cvar/var fields consumed by extract_fields (call sites checked)']
    fh = repo.cls(FH)
    # helpers that store or report on behalf of a handler
    reporters: Set[str] = {'handleUnknownField', '_handle_param_name'}
    handlers: Dict[str, Func] = {}
    for nm in list(fh.methods) + list(fh.aliases):
        if nm.startswith('handle_') or nm == 'handleUnknownField':
            m = repo.find_method(fh, nm)
            if m is not None:
                handlers[nm] = m
    chk.stats['field_handlers'] = len(handlers)
    if len(handlers) < 20:
        chk.error(f'R09.1: only {len(handlers)} field handlers found (24 confirmed by hand)')
    seen: Set[str] = set()
    for nm in sorted(handlers):
        f = handlers[nm]
        if f.qn in seen:
            chk.ob('R09.1', f'{FH}.{nm} :: alias of {f.name}', True, f'same effect as {f.name}', f.loc)
            continue
        seen.add(f.qn)
        fld = _field_param(f)
        if fld is None:
            chk.error(f'R09.1: {f.qn} has no field parameter')
            continue
        cfg = CFG(f)
        cons = [s for s in (n for n in f.walk() if isinstance(n, ast.stmt)) if _consuming(repo, fh, f, s, fld, reporters)
                and not isinstance(s, (ast.If, ast.For, ast.While, ast.Try, ast.With))]
        ok = bool(cons) and cfg.must_pass(cfg.ENTRY, cfg.EXIT, cons, no_exc=True)
        why = '; '.join(sorted({_consuming(repo, fh, f, s, fld, reporters) or '' for s in cons}))[:160]
        if not ok and cons:
            # paths that skip every consuming statement are admissible only when the documented object is a class or module:
            # their ivar/cvar/var/type fields are consumed (and missing names reported) by extract_fields
            adm_edges = []
            for nid, edges in cfg.succ.items():
                for (t, l, k) in edges:
                    if l is None:
                        continue
                    test, pol = l
                    outer = test
                    while isinstance(test, ast.UnaryOp) and isinstance(test.op, ast.Not):
                        test, pol = test.operand, not pol
                    txt = norm(test)
                    is_cm = 'isinstance(self.obj' in txt and 'CanContainImportsDocumentable' in txt and pol
                    not_fn = ('isinstance(self.obj, model.Function)' == txt and not pol and
                              any('isinstance(self.obj, model.Attribute)' in norm(p.test) for p in parents(outer) if isinstance(p, ast.If)))
                    if is_cm or not_fn:
                        adm_edges.append((nid, id(t), k))
            if adm_edges and id(cfg.EXIT) not in cfg.reachable(cfg.ENTRY, avoid_nodes=cons, avoid_edges=adm_edges, no_exc=True) \
                    and _extract_fields_covers(repo):
                ok = True
                why += (' | for classes and modules these fields are consumed, and missing names reported, by extract_fields '
                        '(called from visit_Module / visit_ClassDef)')
        chk.ob('R09.1', f'{FH}.{nm} :: field stored or reported on every path', ok,
               why if ok else (f'a path through {f.name}() neither stores `{fld}` in the handler state nor reports it: the text of such a '
                               f'field vanishes from the documentation without a warning' +
                               (f' (consuming statements: {why})' if cons else '')), f.loc)
    chk.require('R09.1', 20)
    hd = repo.func(f'{FH}.handle')
    ok = any(isinstance(c, ast.Call) and call_name(c) == 'getattr' and len(c.args) == 3 and 'handleUnknownField' in norm(c.args[2]) for c in calls_in(hd))
    chk.ob('R09.1', f'{FH}.handle :: unknown tags fall back to handleUnknownField', ok, "getattr(self, 'handle_' + tag, self.handleUnknownField)" if ok else
           'unknown field tags have no fallback handler', hd.loc)
    # the function that renders a docstring: format_docstring itself or the helper it delegates to (the one that builds the FieldHandler)
    entry = repo.func('pydoctor.epydoc2stan.format_docstring')
    cands = [entry] + [g for g in repo.funcs.values() if g.mod is entry.mod and any(call_name(c) == g.name and isinstance(c.func, ast.Name) for c in calls_in(entry))]
    fds = [g for g in cands if any(call_name(c) == 'FieldHandler' for c in calls_in(g))]
    if len(fds) != 1:
        raise AnalysisError(f'R09.1: {len(fds)} functions reachable from format_docstring build a FieldHandler (expected exactly one)')
    fd = fds[0]
    fhv = {t.id for n in fd.walk() if isinstance(n, ast.Assign) and isinstance(n.value, ast.Call) and call_name(n.value) == 'FieldHandler'
           for t in n.targets if isinstance(t, ast.Name)}
    lp = [n for n in fd.walk() if isinstance(n, ast.For) and 'parsed_docstring.fields' in norm(n.iter)]
    ok = bool(lp) and any(call_name(c) == 'handle' and isinstance(c.func, ast.Attribute) and dotted(c.func.value) in fhv for st in lp for c in ast.walk(st) if isinstance(c, ast.Call)) and \
        any(call_name(c) == 'format' and isinstance(c.func, ast.Attribute) and dotted(c.func.value) in fhv for c in calls_in(fd))
    chk.ob('R09.1', 'epydoc2stan.format_docstring :: every field is handed to the handler, the handler is rendered', ok,
           'for field in parsed_docstring.fields: fh.handle(...); ret(fh.format())' if ok else 'fields are no longer all dispatched / rendered', fd.loc)

    # ------------------------------------------------------------------ R09.2
    init = fh.methods.get('__init__')
    fmt = fh.methods.get('format')
    rt = fh.methods.get('resolve_types')
    if init is None or fmt is None or rt is None:
        raise AnalysisError('FieldHandler.__init__/format/resolve_types missing')
    accs = [t.attr for n in init.walk() if isinstance(n, (ast.Assign, ast.AnnAssign))
            for t in (n.targets if isinstance(n, ast.Assign) else [n.target])
            if isinstance(t, ast.Attribute) and dotted(t.value) == 'self' and t.attr not in ('obj', '_linker')]
    written = set()
    for f in set(handlers.values()) | {repo.func(f'{FH}.set_param_types_from_annotations')}:
        for n in f.walk():
            if isinstance(n, ast.Attribute) and dotted(n.value) == 'self' and n.attr in accs:
                written.add(n.attr)
    read_fmt = {n.attr for n in fmt.walk() if isinstance(n, ast.Attribute) and dotted(n.value) == 'self' and isinstance(n.ctx, ast.Load)}
    read_rt = {n.attr for n in rt.walk() if isinstance(n, ast.Attribute) and dotted(n.value) == 'self'}
    for a in accs:
        if a not in written:
            continue
        ok = a in read_fmt or (a in read_rt and 'parameter_descs' in read_fmt)
        chk.ob('R09.2', f'{FH}.{a} :: rendered', ok, 'read by format()' if a in read_fmt else 'merged into parameter_descs by resolve_types()' if ok else
               f'handlers store fields in self.{a} but format() never reads it: those fields are not shown', fmt.loc)
    # ... and each on its own: whether one accumulator is shown does not depend on another one (`elif self.yields_desc:` after the Returns block hides the
    # yield text of every generator that also documents a return value)
    cf_fmt = CFG(fmt)
    n_ind = 0
    for c in calls_in(fmt):
        mine = {x.attr for a in c.args for x in ast.walk(a) if isinstance(x, ast.Attribute) and dotted(x.value) == 'self' and x.attr in accs}
        if not mine or not call_name(c).startswith('format_'):
            continue
        n_ind += 1
        others = sorted({x.attr for t, pol in cf_fmt.dominating_tests(cf_fmt.stmt_of(c)) for x in ast.walk(t)
                         if isinstance(x, ast.Attribute) and dotted(x.value) == 'self' and x.attr in accs and x.attr not in mine})
        chk.ob('R09.2', f'{FH}.format :: self.{"/".join(sorted(mine))} is rendered whatever the other accumulators hold', not others,
               'no test of another accumulator on the way' if not others else
               f'rendered only under a test of self.{others[0]}: a docstring that has both kinds of field loses the text of this one without a warning',
               repo.loc(fmt.mod, c))
    if n_ind < 4:
        raise AnalysisError(f'R09.2: {n_ind} renderings of an accumulator found in FieldHandler.format (Parameters, Returns, Yields, Raises, Warns confirmed)')
    chk.require('R09.2', 12)
    ok = any(call_name(c) == 'resolve_types' for c in calls_in(fd))
    chk.ob('R09.2', 'epydoc2stan.format_docstring :: types merged before rendering', ok, 'fh.resolve_types() for functions', fd.loc)

    # ------------------------------------------------------------------ R09.3
    em = repo.mod(EPY)
    built: Dict[str, str] = {}
    for n in ast.walk(em.tree):
        if isinstance(n, ast.Call) and call_name(n) == 'Element' and n.args:
            s = const_str(n.args[0])
            if s:
                built[s] = f'Element({s!r}) line {n.lineno}'
        if isinstance(n, ast.Assign) and any(isinstance(t, ast.Attribute) and t.attr == 'tag' for t in n.targets):
            s = const_str(n.value)
            if s:
                built[s] = f'.tag = {s!r} line {n.lineno}'
    ct = em.assigns.get('_COLORIZING_TAGS')
    if not isinstance(ct, ast.Dict):
        raise AnalysisError('epytext._COLORIZING_TAGS is not a dict literal')
    for v in ct.values:
        s = const_str(v)
        if s:
            built[s] = '_COLORIZING_TAGS'
    tok = repo.cls(f'{EPY}.Token')
    for k, v in tok.aliases.items():
        s = const_str(v)
        if s and k.isupper() and k in ('LBLOCK', 'DTBLOCK'):
            built[s] = f'Token.{k} (to_dom)'
    for f in em.funcs.values():
        for n in f.walk():
            if isinstance(n, ast.Assign) and any(isinstance(t, ast.Name) and t.id == 'list_type' for t in n.targets):
                for c in ast.walk(n.value):
                    s = const_str(c)
                    if s:
                        built[s] = 'list_type'
            if isinstance(n, ast.Call) and call_name(n) == '_colorize' and len(n.args) >= 3:
                s = const_str(n.args[2])
                if s:
                    built[s] = '_colorize(..., tagName)'
    tn = repo.func(f'{EPY}.ParsedEpytextDocstring._to_node')
    handled: Set[str] = set()
    for n in tn.walk():
        if isinstance(n, ast.Compare) and norm(n.left) == 'tree.tag':
            cmpv: ast.AST = n.comparators[0]
            # `tree.tag in self._TABLE`: a class / module constant whose keys (or elements) are the tags
            nm_ = cmpv.attr if isinstance(cmpv, ast.Attribute) and dotted(cmpv.value) in ('self', 'cls') else cmpv.id if isinstance(cmpv, ast.Name) else None
            if nm_ and tn.cls is not None and nm_ in tn.cls.aliases:
                cmpv = tn.cls.aliases[nm_]
            elif nm_ and nm_ in tn.mod.assigns:
                cmpv = tn.mod.assigns[nm_]
            consts = list(cmpv.keys) if isinstance(cmpv, ast.Dict) else list(ast.walk(cmpv))
            for c in consts:
                s = const_str(c)
                if s:
                    handled.add(s)
    chk.stats['epytext_tags_built'] = sorted(built)
    chk.stats['epytext_tags_handled'] = sorted(handled)
    if len(built) < 15 or len(handled) < 15:
        chk.error(f'R09.3: tag tables too small (built {len(built)}, handled {len(handled)})')
    for t in sorted(built):
        if t in CONSUMED_BEFORE_CONVERSION:
            chk.ob('R09.3', f'epytext tag {t!r}', True, f'never reaches the converter: {CONSUMED_BEFORE_CONVERSION[t]}', em.relpath, kind='reasoned-exception')
            continue
        chk.ob('R09.3', f'epytext tag {t!r}', t in handled,
               f'built by {built[t]}, handled by _to_node' if t in handled else
               f'the parser can build <{t}> ({built[t]}) but ParsedEpytextDocstring._to_node has no branch for it: rendering such a docstring '
               'raises and the whole docstring degrades', em.relpath)
    chk.require('R09.3', 18)

    # ------------------------------------------------------------------ R09.4
    sy = em.assigns.get('SYMBOLS')
    pe = repo.cls(f'{EPY}.ParsedEpytextDocstring')
    cp = pe.aliases.get('SYMBOL_TO_CODEPOINT')
    if not isinstance(sy, (ast.List, ast.Tuple)) or not isinstance(cp, ast.Dict):
        raise AnalysisError('epytext.SYMBOLS / SYMBOL_TO_CODEPOINT are not literals')
    names = [const_str(e) for e in sy.elts]
    keys = {const_str(k) for k in cp.keys if k is not None}
    missing = [n for n in names if n not in keys]
    chk.ob('R09.4', 'epytext.SYMBOLS ⊆ SYMBOL_TO_CODEPOINT', not missing,
           f'{len(names)} symbols, all have a code point' if not missing else
           f'S{{{missing[0]}}} is accepted by the parser but has no code point: rendering raises KeyError and the docstring degrades', em.relpath)
    us = [n for n in repo.func(f'{EPY}._colorize').walk() if isinstance(n, ast.Compare) and '_SYMBOLS' in norm(n)]
    chk.ob('R09.4', 'epytext._colorize :: symbols validated against the table', bool(us), 'symb in _SYMBOLS' if us else 'symbol names are not validated', em.relpath)

    # ------------------------------------------------------------------ R09.5
    rems = [c for c in calls_in(rt) if call_name(c) == 'remove' and isinstance(c.func, ast.Attribute) and dotted(c.func.value) == 'self.parameter_descs']
    for c in rems:
        v = norm(c.args[0]) if c.args else '?'
        back = [a for a in calls_in(rt) if call_name(a) == 'append' and dotted(a.func.value) == 'self.parameter_descs' and a.args and norm(a.args[0]) == v]  # type: ignore[attr-defined]
        ok = False
        for a in back:
            conds = [p.test for p in parents(a) if isinstance(p, ast.If)]
            for t in conds:
                disj = t.values if isinstance(t, ast.BoolOp) and isinstance(t.op, ast.Or) else [t]
                if any(isinstance(x, ast.Call) and call_name(x) == 'is_documented' and dotted(x.func.value) == v for x in disj):  # type: ignore[attr-defined]
                    ok = True
        chk.ob('R09.5', f'{FH}.resolve_types :: {v} removed from parameter_descs is restored when documented', ok,
               f're-appended under `... or {v}.is_documented()`' if ok else
               f'`{v}` is removed from the rendered parameters and only restored under a condition that does not include {v}.is_documented(): '
               'a row that carries text (e.g. only a @type from the docstring) disappears silently', repo.loc(rt.mod, c))
    if not rems:
        chk.note('R09.5: no removal from parameter_descs in resolve_types')

    # ------------------------------------------------------------------ R09.6
    # a slot that two kinds of field fill piecewise (@return + @rtype, @yield + @ytype) is only created while it is empty:
    # replacing it would silently discard what the field handled earlier had stored there
    piecewise: Dict[str, Set[str]] = {}
    for f in set(handlers.values()):
        for n in f.walk():
            if isinstance(n, ast.Assign):
                for t in n.targets:
                    if isinstance(t, ast.Attribute) and isinstance(t.value, ast.Attribute) and dotted(t.value.value) == 'self' and t.value.attr in accs:
                        piecewise.setdefault(t.value.attr, set()).add(t.attr)
                    if isinstance(t, ast.Attribute) and dotted(t.value) == 'self' and t.attr in accs and isinstance(n.value, ast.Call):
                        for kw in n.value.keywords:
                            if kw.arg:
                                piecewise.setdefault(t.attr, set()).add(kw.arg)
    n_slots = 0
    for f in sorted(set(handlers.values()), key=lambda f: f.qn):
        cfgf = None
        for n in f.walk():
            if isinstance(n, ast.Assign):
                for t in n.targets:
                    if isinstance(t, ast.Attribute) and dotted(t.value) == 'self' and t.attr in piecewise and len(piecewise[t.attr]) >= 2:
                        cfgf = cfgf or CFG(f)
                        facts = cfgf.dominating_tests(n)
                        empty = any((norm(x) == f'self.{t.attr}' and not pol) or
                                    (isinstance(x, ast.Compare) and norm(x.left) == f'self.{t.attr}' and len(x.ops) == 1 and norm(x.comparators[0]) == 'None' and
                                     ((isinstance(x.ops[0], ast.Is) and pol) or (isinstance(x.ops[0], ast.IsNot) and not pol)))
                                    for x, pol in facts)
                        n_slots += 1
                        chk.ob('R09.6', f'{f.qn} :: self.{t.attr} is created only while empty', empty,
                               f'under `not self.{t.attr}`; the parts {sorted(piecewise[t.attr])} are then set one by one' if empty else
                               f'`{norm(n)[:70]}` replaces the slot unconditionally: the {sorted(piecewise[t.attr])} parts come from different fields, so the '
                               'part stored by the field that was handled first (e.g. a @ytype/@rtype written before the @yield/@return) is discarded without a warning',
                               repo.loc(f.mod, n))
    if n_slots < 4:
        raise AnalysisError(f'R09.6: {n_slots} creations of a piecewise-filled slot found in the field handlers (4 confirmed: return/returntype/yield/yieldtype)')
    chk.require('R09.6', 4)
    # ... and such a slot is rendered whichever of its parts it has: the condition under which format() shows it may test the slot as a whole
    # (`if self.yields_desc`, `.is_documented()`), not one part - a test of `.body` alone loses the entry of a function that only has `@ytype:`
    cfgfmt = CFG(fmt)
    n_shown = 0
    for slot, parts in sorted(piecewise.items()):
        if len(parts) < 2:
            continue
        shows = [c for c in calls_in(fmt) if any(isinstance(x, ast.Attribute) and norm(x) == f'self.{slot}' for a in c.args for x in ast.walk(a))
                 and not (isinstance(c.func, ast.Attribute) and norm(c.func.value).startswith(f'self.{slot}'))]
        for c in shows:
            facts = cfgfmt.dominating_tests(cfgfmt.stmt_of(c))

            def ev(e: ast.AST, have: str) -> Optional[bool]:
                """truth of a test for an entry that has only the part `have` (None: not decided by the parts)"""
                if isinstance(e, ast.Attribute) and norm(e.value) == f'self.{slot}' and e.attr in parts:
                    return e.attr == have
                if isinstance(e, ast.Compare) and len(e.ops) == 1 and isinstance(e.comparators[0], ast.Constant) and e.comparators[0].value is None:
                    v = ev(e.left, have)
                    if v is not None and isinstance(e.ops[0], (ast.IsNot, ast.NotEq)):
                        return v
                    if v is not None and isinstance(e.ops[0], (ast.Is, ast.Eq)):
                        return not v
                    return None
                if isinstance(e, ast.UnaryOp) and isinstance(e.op, ast.Not):
                    v = ev(e.operand, have)
                    return None if v is None else not v
                if isinstance(e, ast.BoolOp):
                    vs = [ev(x, have) for x in e.values]
                    if isinstance(e.op, ast.Or):
                        return True if any(v is True for v in vs) else (False if all(v is False for v in vs) else None)
                    return False if any(v is False for v in vs) else (True if all(v is True for v in vs) else None)
                return None
            lost = sorted(pt for pt in parts if any(ev(t, pt) is (not pol) for t, pol in facts))
            n_shown += 1
            chk.ob('R09.6', f'{FH}.format :: self.{slot} is rendered whichever of its parts ({", ".join(sorted(parts))}) it has', not lost,
                   'shown under tests of the slot as a whole' if not lost else
                   f'the rendering is under a test of one part: an entry that only has its `{lost[0]}` (a function documented with `@ytype:` / `:ytype:` or `@rtype:` alone) '
                   'is left out - the text appears nowhere and nothing is reported', repo.loc(fmt.mod, c))
    if n_shown < 2:
        raise AnalysisError(f'R09.6: {n_shown} renderings of a piecewise-filled slot found in FieldHandler.format (return_desc, yields_desc confirmed)')

    # ------------------------------------------------------------------ R09.9
    # a function that replaces the field list of a parsed docstring (`pdoc.fields = kept`) after looping over it decides the fate of every
    # field: each iteration must either use the field (its body becomes the description / the type) or keep it in the new list
    n_part = 0
    for f in sorted(repo.funcs.values(), key=lambda f: f.qn):
        if not f.mod.name.startswith('pydoctor.') or '.test' in f.mod.name:
            continue
        repl = [n for n in f.walk() if isinstance(n, ast.Assign) and any(isinstance(t, ast.Attribute) and t.attr == 'fields' for t in n.targets)]
        if not repl:
            continue
        for lp in [n for n in f.walk() if isinstance(n, ast.For) and isinstance(n.iter, ast.Attribute) and n.iter.attr == 'fields' and isinstance(n.target, ast.Name)]:
            n_part += 1
            v = lp.target.id
            cfl = CFG(f)
            def _takes(e: ast.AST) -> bool:
                # the field's content is taken: its body() is read, or the field object itself is handed on (append(field), handle(field))
                for y in ast.walk(e):
                    if isinstance(y, ast.Call) and isinstance(y.func, ast.Attribute) and y.func.attr in ('body', 'format') and isinstance(y.func.value, ast.Name) and y.func.value.id == v:
                        return True
                    if isinstance(y, ast.Call) and any(isinstance(a, ast.Name) and a.id == v for a in list(y.args) + [k.value for k in y.keywords]):
                        return True
                return False
            users = [st for st in (x for b in lp.body for x in ast.walk(b)) if isinstance(st, (ast.Assign, ast.AugAssign, ast.AnnAssign, ast.Expr, ast.Return)) and
                     st.value is not None and _takes(st.value)]
            if not lp.body:
                continue
            r = cfl.reachable(lp.body[0], avoid_nodes=users, no_exc=True)
            dropped = id(lp) in r and lp.body[0] not in users
            chk.ob('R09.9', f'{f.qn} :: every field of the replaced list is used or kept', not dropped,
                   f'each iteration passes through one of: {"; ".join(sorted({norm(u)[:40] for u in users}))[:160]}' if not dropped else
                   f'an iteration can end without using `{v}` or keeping it, and the list is then replaced (`{norm(repl[0])[:40]}`): such a field disappears '
                   'from the documentation without a warning', repo.loc(f.mod, lp))
    if n_part < 1:
        raise AnalysisError('R09.9: no function that partitions and replaces a field list was found (ModuleVistor._handlePropertyDef confirmed)')
    chk.require('R09.9', 1)

    # ------------------------------------------------------------------ R09.10
    # literal blocks, doctest blocks and inline literals are reproduced character for character: a textual substitution applied to the whole
    # docstring before it is parsed cannot tell markup from verbatim text
    for q in ('pydoctor.epydoc.markup.restructuredtext.parse_docstring', 'pydoctor.epydoc.markup.epytext.parse_docstring',
              'pydoctor.epydoc.markup.plaintext.parse_docstring'):
        pf = repo.funcs.get(q)
        if pf is None:
            raise AnalysisError(f'R09.10: parser entry {q} not found')
        dp = pf.params()[0].arg
        rew = [c for c in calls_in(pf) if ((call_name(c) == 'sub' and len(c.args) >= 3 and norm(c.args[2]) == dp) or
                                           (call_name(c) in ('replace', 'translate') and isinstance(c.func, ast.Attribute) and norm(c.func.value) == dp))]
        chk.ob('R09.10', f'{q} :: the docstring is parsed as written', not rew,
               'no textual rewriting of the docstring before parsing' if not rew else
               f'`{norm(rew[0])[:80]}` rewrites the raw text of the whole docstring, verbatim parts included: the literal block `values[start:data:step]`, the '
               'doctest `>>> rows[lo:obj:hi]` and the inline literal ``kind:class:name`` are shown as `values[startstep]`, `rows[lohi]`, `kindname`', repo.loc(pf.mod, rew[0] if rew else pf.node))
    chk.require('R09.10', 3)

    # ------------------------------------------------------------------ R09.11
    # the doctest colorizer re-emits the text it matched piece by piece: where a regex with named groups takes a token apart, every named
    # group has to be emitted again (doctest and code blocks are reproduced character for character)
    dm = repo.mod('pydoctor.epydoc.doctest')
    n_rx11 = 0
    for f in sorted((g for g in repo.funcs.values() if g.mod is dm), key=lambda g: g.qn):
        for a in f.walk():
            if not (isinstance(a, ast.Assign) and isinstance(a.value, ast.Call) and call_name(a.value) in ('match', 'fullmatch', 'search') and
                    isinstance(a.value.func, ast.Attribute) and isinstance(a.value.func.value, ast.Name) and isinstance(a.targets[0], ast.Name)):
                continue
            rx = dm.assigns.get(a.value.func.value.id)
            if not (isinstance(rx, ast.Call) and call_name(rx) == 'compile' and rx.args and isinstance(rx.args[0], ast.Constant) and isinstance(rx.args[0].value, str)):
                continue
            import re as _re2
            try:
                groups = list(_re2.compile(rx.args[0].value).groupindex)
            except _re2.error:
                continue
            if not groups:
                continue
            mv = a.targets[0].id
            emitted = {c.args[0].value for c in calls_in(f) if call_name(c) == 'group' and isinstance(c.func, ast.Attribute) and
                       isinstance(c.func.value, ast.Name) and c.func.value.id == mv and c.args and isinstance(c.args[0], ast.Constant)}
            if not emitted:
                continue     # the match is only used for its extent (m.end()), not taken apart
            n_rx11 += 1
            missing = [g_ for g_ in groups if g_ not in emitted]
            chk.ob('R09.11', f'{f.qn} :: every named group of {a.value.func.value.id} is emitted again', not missing,
                   f'groups {groups}' if not missing else
                   f'group(s) {missing} of `{rx.args[0].value}` are matched but not re-emitted: that part of the source text (e.g. the run of blanks between `def` '
                   'and the name) is replaced or lost in doctest and code blocks', repo.loc(f.mod, a))
    # the other way to take a token apart: a white-space split (`kw, name = text.split()`) whose pieces are emitted again.  The blanks between the pieces are
    # not among them - whatever is emitted in their place is not the source text (doctest and code blocks are reproduced character for character)
    for f in sorted((g for g in repo.funcs.values() if g.mod is dm), key=lambda g: g.qn):
        emits = any(isinstance(x, (ast.Yield, ast.YieldFrom)) for x in f.walk()) or any(call_name(c) in ('append', 'extend', 'join') for c in calls_in(f))
        for c in calls_in(f):
            if call_name(c) == 'split' and isinstance(c.func, ast.Attribute) and not c.args and not c.keywords and emits:
                par = getattr(c, '_parent', None)
                if isinstance(par, (ast.Assign, ast.For, ast.comprehension, ast.Starred, ast.Call)):
                    n_rx11 += 1
                    chk.ob('R09.11', f'{f.qn} :: a token is not taken apart at white space', False,
                           f'`{norm(par)[:60]}` splits the matched text at any run of blanks and re-emits the pieces: the blanks themselves (`def   spam`, `class  Ham`) are replaced '
                           'by whatever the code puts between the pieces - doctest and code blocks are no longer reproduced character for character', repo.loc(f.mod, c))
    if n_rx11 < 1:
        raise AnalysisError('R09.11: no token regex with named groups is taken apart in pydoctor.epydoc.doctest any more (DEFINE_FUNC_RE confirmed)')
    chk.require('R09.11', 1)

    # ------------------------------------------------------------------ R09.12
    # in the modules that turn docstring text into docstring text (napoleon conversion, markup parsers) `line.split(d)[k]` with a constant k >= 1
    # and no matching maxsplit is the piece BETWEEN two delimiters: everything after the next delimiter on the line is dropped silently.  The
    # piece after a delimiter has to be the whole remainder: split(d, k)[k] (or partition(d)[2], or an unpacking, which cannot lose text silently)
    TEXT_MODULES = ('pydoctor.napoleon.', 'pydoctor.epydoc.markup.', 'pydoctor.epydoc.doctest', 'pydoctor.epydoc2stan', 'pydoctor.node2stan')
    n_sp = 0
    for f in sorted(repo.funcs.values(), key=lambda g: g.qn):
        if not any(f.mod.name == m.rstrip('.') or f.mod.name.startswith(m) for m in TEXT_MODULES) or f.mod.name.endswith('sre_parse36'):
            continue
        for n in f.walk():
            if not (isinstance(n, ast.Subscript) and isinstance(n.value, ast.Call) and call_name(n.value) in ('split', 'rsplit') and
                    isinstance(n.value.func, ast.Attribute) and isinstance(n.slice, ast.Constant) and isinstance(n.slice.value, int)):
                continue
            k = n.slice.value
            sp = n.value
            if call_name(sp) == 'split' and k < 1:
                continue        # the piece before the first delimiter
            if call_name(sp) == 'rsplit':
                continue        # rsplit(d, n)[-1] / [0]: pieces counted from the end - not the idiom decided here
            if not sp.args:
                continue        # whitespace split: words, not a remainder
            n_sp += 1
            ms = sp.args[1] if len(sp.args) > 1 else next((kw.value for kw in sp.keywords if kw.arg == 'maxsplit'), None)
            ok12 = isinstance(ms, ast.Constant) and ms.value == k
            chk.ob('R09.12', f'{f.qn} :: the piece after `{norm(sp.args[0])}` is the whole remainder', ok12,
                   f'`{norm(n)}`' if ok12 else
                   f'`{norm(n)}` keeps only the text between two delimiters: for `name : use it in two cases: batch and replay` everything after the second '
                   'delimiter is dropped from the rendered text without a warning', repo.loc(f.mod, n))
    if n_sp < 1:
        raise AnalysisError('R09.12: no split(d, k)[k] remainder found in the text modules (1 confirmed: NumpyDocstring._parse_numpydoc_see_also_section)')
    chk.require('R09.12', 1)

    # ------------------------------------------------------------------ R09.13
    # `[line[n:] for line in L]` removes n characters from every line of a block.  Nothing but indentation is removed only when n does not exceed the
    # indentation of ANY line: n has to be computed from all the lines of L (a loop over L without an exit of its own, or min()), not from its first
    # line - with a deeper indented first line the later lines lose their first characters ("Defaults to fast." -> "ults to fast.")
    n_cut = 0
    for f in sorted(repo.funcs.values(), key=lambda g: g.qn):
        if not any(f.mod.name == m.rstrip('.') or f.mod.name.startswith(m) for m in TEXT_MODULES) or f.mod.name.endswith('sre_parse36'):
            continue
        for lc in f.walk():
            if not (isinstance(lc, ast.ListComp) and len(lc.generators) == 1 and isinstance(lc.generators[0].target, ast.Name) and
                    isinstance(lc.generators[0].iter, ast.Name) and isinstance(lc.elt, ast.Subscript) and isinstance(lc.elt.value, ast.Name) and
                    lc.elt.value.id == lc.generators[0].target.id and isinstance(lc.elt.slice, ast.Slice) and isinstance(lc.elt.slice.lower, ast.Name) and
                    lc.elt.slice.upper is None):
                continue
            block, width = lc.generators[0].iter.id, lc.elt.slice.lower.id
            vals = values_of(f, width)
            if not vals:
                continue        # a parameter: the caller's business, not decided
            n_cut += 1
            bad13 = None
            for v in vals:
                if isinstance(v, ast.Call) and call_name(v) == 'min':
                    continue
                cal = []
                if isinstance(v, ast.Call) and any(isinstance(a, ast.Name) and a.id == block for a in v.args):
                    cal, _how = repo.callees(v, f)
                if not cal:
                    bad13 = f'`{norm(v)[:60]}` is not computed from `{block}` by a pydoctor function'
                    break
                for g in cal:
                    idx = next(i for i, a in enumerate(v.args) if isinstance(a, ast.Name) and a.id == block)
                    ps = [a.arg for a in g.params()]
                    off = 1 if ps and ps[0] in ('self', 'cls') and isinstance(v.func, ast.Attribute) else 0
                    pn = ps[idx + off] if idx + off < len(ps) else None
                    whole = [lp for lp in g.walk() if isinstance(lp, ast.For) and isinstance(lp.iter, ast.Name) and lp.iter.id == pn and not loop_exits(lp)]
                    uses_min = any(isinstance(c, ast.Call) and call_name(c) == 'min' for c in g.walk())
                    if not whole and not uses_min:
                        bad13 = f'`{norm(v)[:60]}`: {g.qn} leaves its loop over the lines at the first one it likes'
            chk.ob('R09.13', f'{f.qn} :: the width cut from every line is computed over all the lines', bad13 is None,
                   f'`{norm(lc)}` with {", ".join(norm(v)[:50] for v in vals)}' if bad13 is None else
                   bad13 + ': a block whose first line is indented deeper than a later one loses the first characters of the later lines, silently',
                   repo.loc(f.mod, lc))
    if n_cut < 1:
        raise AnalysisError('R09.13: no `[line[n:] for line in lines]` dedent found in the text modules (1 confirmed: GoogleDocstring._dedent)')
    chk.require('R09.13', 1)

    # ------------------------------------------------------------------ R09.14
    # the consolidated-field handlers (`:Parameters:` written as a bullet or definition list) replace the whole field by generated ones (visit_field
    # prunes the original): for every list item, each child must end up in a generated field.  Either the item is taken whole (`item[:]`,
    # `item.children`, `list(item)`, `item.copy()`), or the children are picked by constant index and the validation loop of the same handler rejects
    # items with more children than indexes used (`len(item) > k` raises)
    n14 = 0
    for f in sorted(repo.funcs.values(), key=lambda g: g.qn):
        if not (f.cls is not None and f.name.startswith('handle_consolidated_') and f.name.endswith('_list')):
            continue
        itemsp = f.params()[1].arg if len(f.params()) > 1 else None
        def _item_var(n: ast.For) -> Optional[str]:
            """the loop variable that holds a list item: `for item in items` or `for n, item in enumerate(items, 1)`"""
            if isinstance(n.iter, ast.Name) and n.iter.id == itemsp and isinstance(n.target, ast.Name):
                return n.target.id
            if isinstance(n.iter, ast.Call) and call_name(n.iter) == 'enumerate' and n.iter.args and isinstance(n.iter.args[0], ast.Name) and \
                    n.iter.args[0].id == itemsp and isinstance(n.target, ast.Tuple) and len(n.target.elts) == 2 and isinstance(n.target.elts[1], ast.Name):
                return n.target.elts[1].id
            return None
        loops = [n for n in f.walk() if isinstance(n, ast.For) and _item_var(n) is not None]
        emit = [lp for lp in loops if any(isinstance(c, ast.Call) and call_name(c) == '_add_field' for st in lp.body for c in ast.walk(st))]
        if not emit:
            continue
        n14 += 1
        bad14 = None
        for lp in emit:
            it = _item_var(lp) or ''
            whole = any((isinstance(x, ast.Subscript) and isinstance(x.value, ast.Name) and x.value.id == it and isinstance(x.slice, ast.Slice) and
                         x.slice.lower is None and x.slice.upper is None) or
                        (isinstance(x, ast.Attribute) and x.attr == 'children' and isinstance(x.value, ast.Name) and x.value.id == it) or
                        (isinstance(x, ast.Call) and call_name(x) in ('list', 'tuple') and x.args and isinstance(x.args[0], ast.Name) and x.args[0].id == it) or
                        (isinstance(x, ast.Call) and call_name(x) in ('copy', 'deepcopy') and isinstance(x.func, ast.Attribute) and
                         isinstance(x.func.value, ast.Name) and x.func.value.id == it)
                        for st in lp.body for x in ast.walk(st))
            if whole:
                continue
            used = {norm(x.slice) for st in lp.body for x in ast.walk(st) if isinstance(x, ast.Subscript) and isinstance(x.value, ast.Name) and x.value.id == it and
                    isinstance(x.slice, (ast.Constant, ast.UnaryOp))}
            bound = None
            for vl in loops:
                if vl is lp:
                    continue
                for n in ast.walk(vl):
                    if isinstance(n, ast.If) and any(isinstance(r_, ast.Raise) for st in n.body for r_ in ast.walk(st)):
                        for cmp_ in ast.walk(n.test):
                            if isinstance(cmp_, ast.Compare) and len(cmp_.ops) == 1 and isinstance(cmp_.ops[0], (ast.Gt, ast.GtE, ast.NotEq)) and \
                                    isinstance(cmp_.left, ast.Call) and call_name(cmp_.left) == 'len' and cmp_.left.args and \
                                    isinstance(cmp_.left.args[0], ast.Name) and cmp_.left.args[0].id == _item_var(vl) and \
                                    isinstance(cmp_.comparators[0], ast.Constant) and isinstance(cmp_.comparators[0].value, int):
                                k = cmp_.comparators[0].value - (1 if isinstance(cmp_.ops[0], ast.GtE) else 0)
                                bound = k if bound is None else min(bound, k)
            if bound is None or len(used) < bound:
                bad14 = (f'the children of `{it}` are picked by index ({sorted(used)}) and nothing rejects an item with more children'
                         if bound is None else f'{len(used)} child index(es) used ({sorted(used)}) but items of up to {bound} children are accepted')
        chk.ob('R09.14', f'{f.qn} :: every child of a list item becomes field content', bad14 is None,
               'the item is taken whole, or every index of a validated length is used' if bad14 is None else
               bad14 + ': the second paragraph, nested list or literal block of an item of a consolidated field is shown nowhere, and since the original field '
               'is pruned no warning is emitted', f.loc)
    if n14 < 2:
        raise AnalysisError(f'R09.14: {n14} consolidated-field handlers found (2 confirmed: bullet list, definition list)')
    chk.require('R09.14', 2)

    # ------------------------------------------------------------------ R09.15
    # literal and doctest blocks are reproduced character for character: the tokenizer may remove the indentation of the block - the same number of
    # columns from every line - and nothing else.  The contents of an LBLOCK / DTBLOCK token are therefore a join over `ln[w:]` with a width that
    # does not depend on the line; `ln.lstrip()` / `ln.strip()` remove a line-dependent amount (the relative indentation of pprint output, tree dumps,
    # right-aligned numbers)
    VERBATIM = ('LBLOCK', 'DTBLOCK')
    n15 = 0
    for f in sorted((g for g in repo.funcs.values() if g.mod.name == EPY), key=lambda g: g.qn):
        for c in calls_in(f):
            if not (call_name(c) == 'Token' and c.args and isinstance(c.args[0], ast.Attribute) and c.args[0].attr in VERBATIM and len(c.args) >= 3):
                continue
            n15 += 1
            cont = c.args[2]
            srcs = values_of(f, cont.id) if isinstance(cont, ast.Name) else [cont]
            gens = [g_ for v in srcs for g_ in ast.walk(v) if isinstance(g_, (ast.GeneratorExp, ast.ListComp)) and len(g_.generators) == 1 and
                    isinstance(g_.generators[0].target, ast.Name)]
            bad15 = None
            if not gens:
                bad15 = 'the contents are not assembled line by line any more (re-confirm by reading)'
            for g_ in gens:
                lv = g_.generators[0].target.id
                e = g_.elt
                uniform = isinstance(e, ast.Subscript) and isinstance(e.value, ast.Name) and e.value.id == lv and isinstance(e.slice, ast.Slice) and \
                    e.slice.upper is None and (e.slice.lower is None or not any(isinstance(x, ast.Name) and x.id == lv for x in ast.walk(e.slice.lower)))
                plain = isinstance(e, ast.Name) and e.id == lv
                if not (uniform or plain):
                    bad15 = f'`{norm(e)}` removes an amount that depends on the line'
            chk.ob('R09.15', f'{f.qn} :: {c.args[0].attr} contents are the lines minus one common indentation', bad15 is None,
                   'join over ln[w:] with a line-independent w' if bad15 is None else
                   bad15 + ': output lines indented relative to the prompt (or the relative indentation inside a literal block) are flattened - the block is not '
                   'reproduced character for character, and nothing is reported', repo.loc(f.mod, c))
    if n15 < 2:
        raise AnalysisError(f'R09.15: {n15} verbatim token constructions found in the epytext tokenizer (2 confirmed: _tokenize_doctest, _tokenize_literal)')
    chk.require('R09.15', 2)

    check_r09_16(repo, chk)
    check_r09_17(repo, chk)
    check_r09_18(repo, chk)
    check_r09_19(repo, chk)
    # ------------------------------------------------------------------ R09.7
    # a reST directive that declares a body (has_content = True) consumes it whatever its arguments are: every normal path through
    # run() passes through a statement that reads self.content
    n_dir = 0
    for c in repo.classes.values():
        if not c.mod.name.startswith('pydoctor.') or '.test' in c.mod.name:
            continue
        hc = c.aliases.get('has_content')
        if hc is None:
            hc = next((st.value for st in c.node.body if isinstance(st, ast.Assign) and any(isinstance(t, ast.Name) and t.id == 'has_content' for t in st.targets)), None)
        if not (isinstance(hc, ast.Constant) and hc.value is True):
            continue
        run_ = repo.find_method(c, 'run')
        if run_ is None or not run_.mod.name.startswith('pydoctor.'):
            continue
        n_dir += 1
        cfr = CFG(run_)
        readers = [st for st in (n for n in run_.walk() if isinstance(n, ast.stmt))
                   if any(isinstance(x, ast.Attribute) and x.attr == 'content' and dotted(x.value) == 'self'
                          for x in (ast.walk(st.test) if isinstance(st, (ast.If, ast.While)) else ast.walk(st.iter) if isinstance(st, ast.For) else
                                    [] if isinstance(st, (ast.Try, ast.With)) else ast.walk(st)))]
        ok = bool(readers) and cfr.must_pass(cfr.ENTRY, cfr.EXIT, readers, no_exc=True)
        chk.ob('R09.7', f'{c.qn}.run :: the directive body is consumed on every path', ok,
               f'self.content read at line(s) {sorted({r.lineno for r in readers})}, on every path to the return' if ok else
               'a path through run() returns without looking at self.content: for some argument layouts the indented body of the directive is '
               'dropped from the documentation without any message', run_.loc)
    if n_dir < 2:
        raise AnalysisError(f'R09.7: {n_dir} directives with has_content = True found (VersionChange, PythonCodeDirective confirmed)')
    chk.require('R09.7', 2)

    # ------------------------------------------------------------------ R09.8
    # a docutils visit method that prunes the subtree (raise SkipNode: the walker will not descend) must render ALL of it itself:
    # whole `node.children` / `node.astext()`; picking one child by a constant index loses the siblings.  Allowed only for node
    # classes that have exactly one child by construction.
    SINGLE_CHILD = {'visit_doctest_block': 'doctest_block is a TextElement built with exactly one Text child by both parsers (rst: docutils; epytext: '
                                           'set_node_attributes(nodes.doctest_block(text, text)))'}
    n_prune = 0
    for f in sorted(repo.funcs.values(), key=lambda f: f.qn):
        if f.cls is None or not f.mod.name.startswith('pydoctor.') or '.test' in f.mod.name or f.mod.name in ('pydoctor.visitor', 'pydoctor.astbuilder') \
                or f.mod.name.startswith('pydoctor.extensions'):
            continue
        if not any(isinstance(n, ast.Raise) and n.exc is not None and norm(n.exc).startswith('nodes.SkipNode') for n in f.walk()):
            continue
        ps = [p.arg for p in f.params()]
        if len(ps) < 2:
            continue
        n_prune += 1
        nodep = ps[1]
        picks = [n for n in f.walk() if isinstance(n, ast.Subscript) and isinstance(n.slice, ast.Constant) and isinstance(n.slice.value, int) and
                 ((isinstance(n.value, ast.Name) and n.value.id == nodep) or
                  (isinstance(n.value, ast.Attribute) and n.value.attr == 'children' and isinstance(n.value.value, ast.Name) and n.value.value.id == nodep))]
        callers = [f.name] + [g.name for g in repo.funcs.values() if g.cls is f.cls and any(call_name(c) == f.name for c in calls_in(g))]
        reason = next((SINGLE_CHILD[c] for c in callers if c in SINGLE_CHILD), None) if len([c for c in callers if c.startswith('visit_')]) <= 1 else None
        if picks and reason:
            chk.ob('R09.8', f'{f.qn} :: the pruned subtree is rendered whole', True, f'`{norm(picks[0])}`: {reason}', repo.loc(f.mod, picks[0]), kind='reasoned-exception')
        else:
            chk.ob('R09.8', f'{f.qn} :: the pruned subtree is rendered whole', not picks,
                   'no single child is picked out of the node before SkipNode' if not picks else
                   f'`{norm(picks[0])}` renders one child of the node and then raises SkipNode: every other child (e.g. the rest of a link label that mixes '
                   'inline markup and text) is dropped silently', repo.loc(f.mod, picks[0] if picks else f.node))
    if n_prune < 3:
        raise AnalysisError(f'R09.8: {n_prune} pruning docutils visit methods found (3 confirmed: _handle_reference, visit_doctest_block, visit_field)')
    chk.require('R09.8', 3)


def _extract_fields_covers(repo: Repo) -> bool:
    """extract_fields is called for modules and for classes that have a docstring."""
    sites = []
    for f in repo.funcs.values():
        for c in calls_in(f, lambda c: call_name(c) == 'extract_fields'):
            sites.append(f.name)
    ef = repo.funcs.get('pydoctor.epydoc2stan.extract_fields')
    reports_missing = ef is not None and any(isinstance(n, ast.If) and 'is None' in norm(n.test) and
                                              any(is_report_call(repo, c) for st in n.body for c in ast.walk(st))
                                              for n in ef.walk())
    return 'visit_Module' in sites and 'visit_ClassDef' in sites and reports_missing


def check_r09_16(repo: Repo, chk: Check) -> None:
    # "Every field shows its own text under the entry it belongs to, or is reported in a warning; it is not silently discarded."  The handlers of
    # @return / @rtype / @yield / @ytype keep one text in a slot (`self.return_desc.body = field.format()`), `@type x` one per name (`self.types[name] = ...`):
    # a second field for the same entry replaces the first.  Before the store, the handler has to look at what is there and report (as handle_param
    # does with "already documented")
    fh = repo.classes.get(FH)
    if fh is None:
        raise AnalysisError('R09.16: FieldHandler not found')
    n = 0
    for nm, f in sorted(fh.methods.items()):
        if not nm.startswith('handle_'):
            continue
        fieldp = f.params()[1].arg if len(f.params()) > 1 else None
        stores = [a for a in f.walk() if isinstance(a, ast.Assign) and len(a.targets) == 1 and
                  isinstance(a.value, ast.Call) and any(isinstance(c, ast.Call) and call_name(c) == 'format' and isinstance(c.func, ast.Attribute) and
                                                        isinstance(c.func.value, ast.Name) and c.func.value.id == fieldp for c in ast.walk(a.value)) and
                  (isinstance(a.targets[0], ast.Attribute) and isinstance(a.targets[0].value, ast.Attribute) and dotted(a.targets[0].value.value) == 'self' or
                   isinstance(a.targets[0], ast.Subscript) and isinstance(a.targets[0].value, ast.Attribute) and dotted(a.targets[0].value.value) == 'self')]
        if not stores:
            continue
        cfg = CFG(f)
        for a in stores:
            n += 1
            slot = norm(a.targets[0])
            holder = norm(a.targets[0].value)
            base = holder.split('[')[0]
            derived = {t2.id for s2 in f.walk() if isinstance(s2, ast.Assign) and base in norm(s2.value) for t2 in s2.targets if isinstance(t2, ast.Name)}
            reports = [i for i in f.walk() if isinstance(i, ast.If) and cfg.before(i, a) and
                       (base in norm(i.test) or any(isinstance(x, ast.Name) and x.id in derived for x in ast.walk(i.test))) and
                       any(is_report_call(repo, c) for st in i.body for c in ast.walk(st))]
            ok = bool(reports)
            chk.ob('R09.16', f'{f.qn} :: a second field for `{slot}` is reported before it replaces the first', ok,
                   f'`if {norm(reports[0].test)[:50]}: ...report(...)` precedes the store' if ok else
                   f'`{norm(a)[:60]}` overwrites whatever an earlier field of the same kind put there: of two `@return` / `@rtype` / `@type x` fields only the last one is shown and '
                   'the first disappears without any message', repo.loc(f.mod, a))
    if n < 4:
        raise AnalysisError(f'R09.16: {n} single-slot stores found in the field handlers (5 confirmed: return, returntype, yield, yieldtype, type)')
    # the sibling for module / class docstrings: extract_fields() hands the body of an @ivar / @cvar / @var / @type field to the attribute it names -
    # one text per attribute, so a second field for the same name has to be reported before it replaces the first
    ef = repo.funcs.get('pydoctor.epydoc2stan.extract_fields')
    if ef is None:
        raise AnalysisError('R09.16: epydoc2stan.extract_fields not found')
    cfe = CFG(ef)
    loopv = {lp.target.id for lp in ef.walk() if isinstance(lp, ast.For) and isinstance(lp.target, ast.Name) and 'fields' in norm(lp.iter)}
    stores_e = [a for a in ef.walk() if isinstance(a, ast.Assign) and len(a.targets) == 1 and isinstance(a.targets[0], ast.Attribute) and
                isinstance(a.targets[0].value, ast.Name) and isinstance(a.value, ast.Call) and call_name(a.value) == 'body' and
                isinstance(a.value.func, ast.Attribute) and isinstance(a.value.func.value, ast.Name) and a.value.func.value.id in loopv]
    if len(stores_e) < 2:
        raise AnalysisError(f'R09.16: {len(stores_e)} stores of a field body into an attribute found in extract_fields (2 confirmed: parsed_docstring, parsed_type)')
    # which tags reach which store, and which of them FieldHandler leaves to extract_fields (`handle_ivar = handled_elsewhere`): a duplicated `@type x`
    # is reported by FieldHandler.handle_type when the docstring is rendered, a duplicated `@ivar x` by nobody else
    routed = [const_str(e) for cmp_ in ef.walk() if isinstance(cmp_, ast.Compare) and isinstance(cmp_.ops[0], ast.In) and isinstance(cmp_.comparators[0], (ast.List, ast.Tuple, ast.Set))
              for e in cmp_.comparators[0].elts if const_str(e)]
    elsewhere = {k[len('handle_'):] for k, v in fh.aliases.items() if k.startswith('handle_') and isinstance(v, ast.Name) and v.id == 'handled_elsewhere'}
    if not routed or not elsewhere:
        raise AnalysisError('R09.16: the tags extract_fields routes / the handlers FieldHandler declares as handled elsewhere were not found')
    for a in stores_e:
        eqs = [(const_str(t.comparators[0]), pol) for t, pol in cfe.dominating_tests(a) if isinstance(t, ast.Compare) and len(t.ops) == 1 and
               isinstance(t.ops[0], ast.Eq) and const_str(t.comparators[0]) in routed]
        tags_here = {v for v, pol in eqs if pol} or (set(routed) - {v for v, pol in eqs if not pol})
        if not (tags_here & elsewhere):
            chk.ob('R09.16', f'{ef.qn} :: a second `@{"/".join(sorted(tags_here))}` field for the same name is reported', True,
                   f'FieldHandler.handle_{sorted(tags_here)[0]} reports the duplicate when the docstring is rendered', repo.loc(ef.mod, a), kind='reasoned-exception')
            continue
        n += 1
        attr = a.targets[0].attr  # type: ignore[attr-defined]
        reports = [i for i in ef.walk() if isinstance(i, ast.If) and cfe.before(i, a) and
                   any(isinstance(x, ast.Attribute) and x.attr == attr for x in ast.walk(i.test)) and
                   any(is_report_call(repo, c) for st in i.body for c in ast.walk(st))]
        ok = bool(reports)
        chk.ob('R09.16', f'{ef.qn} :: a second field for the `{attr}` of an attribute is reported before it replaces the first', ok,
               f'`if {norm(reports[0].test)[:50]}: ...report(...)` precedes the store' if ok else
               f'`{norm(a)[:60]}` overwrites what an earlier field for the same name put there: of two `@ivar x:` (or `@type x:`) fields in a class or module docstring only the '
               'last text is shown, the first appears nowhere and nothing is reported', repo.loc(ef.mod, a))
    chk.require('R09.16', 5)


def check_r09_17(repo: Repo, chk: Check) -> None:
    # docutils' standalone reader applies the DocTitle transform: a docstring whose body is ONE top-level section gets that section title promoted to
    # the title of the document (and a lone sub-section title to its subtitle).  html4css1 writes document title and subtitle into parts of the page
    # head (`body_pre_docinfo`, `html_title`), and node2html() returns `visitor.body` only - so the words of the title are nowhere in the output.
    # Either the reader drops that transform, or the translator renders document-level titles into the body itself
    tr = repo.classes.get('pydoctor.node2stan.HTMLTranslator')
    rd = repo.classes.get('pydoctor.epydoc.markup.restructuredtext._EpydocReader')
    if tr is None or rd is None:
        raise AnalysisError('R09.17: HTMLTranslator / _EpydocReader not found')
    gt = rd.methods.get('get_transforms')
    drops = gt is not None and any(isinstance(x, ast.Attribute) and x.attr == 'DocTitle' for x in gt.walk())
    renders = all(m_ in tr.methods and any(isinstance(x, ast.Attribute) and x.attr == 'document' for x in tr.methods[m_].walk()) for m_ in ('visit_title', 'visit_subtitle'))
    n2h = repo.func('pydoctor.node2stan.node2html')
    body_only = any(isinstance(x, ast.Attribute) and x.attr == 'body' for r in n2h.walk() if isinstance(r, ast.Return) and r.value is not None for x in ast.walk(r.value))
    ok = drops or renders or not body_only
    chk.ob('R09.17', 'pydoctor.node2stan.HTMLTranslator :: a title promoted to document title stays in the rendered body', ok,
           'the DocTitle transform is removed' if drops else 'visit_title / visit_subtitle render document-level titles into the body' if renders else
           ('node2html returns more than visitor.body' if not body_only else
            'a reST / google / numpy docstring that consists of one section (`Usage` / `=====` / a paragraph) renders the paragraph only: docutils promotes the lone title to the '
            'document title, html4css1 puts it into the page head parts, node2html returns visitor.body - the words of the title are lost, without a warning'), tr.loc)
    chk.require('R09.17', 1)


def check_r09_18(repo: Repo, chk: Check) -> None:
    # the HTML that docutils' html4css1 writer produces is re-read as XML (stanutils.html2stan -> twisted XMLString).  XML knows five named entities; html4css1
    # spells U+00A0 as `&nbsp;` (special_characters[0xa0]) and protects runs of blanks in a literal with `&nbsp;` too.  Unless the translator takes that
    # spelling back (its own special_characters / encode) or the re-parse declares the entity, every docstring that contains a NO-BREAK SPACE - ordinary
    # French typography, text pasted from a web page - fails to render and is shown raw, markup included
    tr = repo.classes.get('pydoctor.node2stan.HTMLTranslator')
    h2s = repo.funcs.get('pydoctor.stanutils.html2stan')
    if tr is None or h2s is None:
        raise AnalysisError('R09.18: node2stan.HTMLTranslator / stanutils.html2stan not found')
    own_table = any(isinstance(n, (ast.Assign, ast.AnnAssign)) and any(isinstance(t, ast.Name) and t.id == 'special_characters'
                                                                        for t in (n.targets if isinstance(n, ast.Assign) else [n.target]))
                    and 'nbsp' not in norm(n) for n in tr.node.body)
    own_encode = 'encode' in tr.methods and not any(isinstance(x, ast.Constant) and isinstance(x.value, str) and 'nbsp' in x.value for x in tr.methods['encode'].walk())
    declared = any(isinstance(x, ast.Constant) and isinstance(x.value, (str, bytes)) and (b'ENTITY nbsp' in x.value if isinstance(x.value, bytes) else 'ENTITY nbsp' in x.value)
                   for x in h2s.walk())
    ok = own_table or own_encode or declared
    chk.ob('R09.18', 'pydoctor.node2stan.HTMLTranslator :: no character of the text is spelled as an entity the XML re-parse rejects', ok,
           'the translator has its own special_characters' if own_table else 'the translator has its own encode()' if own_encode else
           'html2stan declares the entity' if declared else
           'the inherited html4css1 table maps U+00A0 to `&nbsp;`, html2stan wraps the fragment in a bare <div> and XMLString knows no such entity: a well-formed docstring '
           'with a no-break space (`Prix\u00a0: 10\u00a0EUR`, in any markup) is reported as "bad docstring: SAXParseException ... undefined entity" and shown as plain text with '
           'its markup left in; a literal with two blanks (``a  b``) and a block-quote attribution (&mdash;) fail the same way', tr.loc)
    chk.require('R09.18', 1)


def check_r09_19(repo: Repo, chk: Check) -> None:
    # a literal block is measured against the paragraph that introduces it (`tokens[-1]`, a PARA ending in `::`): the indentation handed to _tokenize_literal has
    # to be that paragraph's.  _tokenize_para builds its PARA token with the indentation it was given; a helper that builds a PARA token with an indentation of
    # its OWN (the first paragraph of a list item, indented behind the bullet) leaves the caller's variable behind - after such a call every path to the
    # literal-block call has to re-read the indentation from the token (under nothing but a None test)
    tk = repo.funcs.get(f'{EPY}._tokenize')
    if tk is None:
        raise AnalysisError('R09.19: epytext._tokenize not found')
    lit = [c for c in calls_in(tk) if call_name(c) == '_tokenize_literal' and len(c.args) >= 3 and isinstance(c.args[2], ast.Name)]
    if not lit:
        raise AnalysisError('R09.19: the call _tokenize_literal(lines, linenum, <indent>, ...) was not found in epytext._tokenize')
    own: Set[str] = set()
    for g in repo.funcs.values():
        if g.mod is not tk.mod:
            continue
        prm = {a.arg for a in g.params()}
        for c in calls_in(g):
            if call_name(c) == 'Token' and len(c.args) >= 4 and norm(c.args[0]).endswith('Token.PARA') and not (isinstance(c.args[3], ast.Name) and c.args[3].id in prm):
                own.add(g.name)
    if not own:
        raise AnalysisError('R09.19: no helper that builds a PARA token with an indentation of its own was found (_tokenize_listart confirmed)')
    cfg = CFG(tk)
    n = 0
    for lc in lit:
        v = lc.args[2].id  # type: ignore[attr-defined]
        writes = [a for a in tk.walk() if isinstance(a, (ast.Assign, ast.AugAssign, ast.AnnAssign)) and
                  any(isinstance(t, ast.Name) and t.id == v for t in (a.targets if isinstance(a, ast.Assign) else [a.target]))]
        resync = [a for a in writes if isinstance(a, ast.Assign) and isinstance(a.value, ast.Attribute) and a.value.attr == 'indent' and isinstance(a.value.value, ast.Subscript)]
        none_false = []
        for nid, edges in cfg.succ.items():
            for (t, l, k) in edges:
                if l is None:
                    continue
                e, pol = l
                while isinstance(e, ast.UnaryOp) and isinstance(e.op, ast.Not):
                    e, pol = e.operand, not pol
                if isinstance(e, ast.Compare) and len(e.ops) == 1 and isinstance(e.comparators[0], ast.Constant) and e.comparators[0].value is None and \
                        isinstance(e.left, ast.Attribute) and e.left.attr == 'indent' and \
                        ((isinstance(e.ops[0], ast.IsNot) and not pol) or (isinstance(e.ops[0], ast.Is) and pol)):
                    none_false.append((nid, id(t), k))
        for c in calls_in(tk):
            if call_name(c) not in own:
                continue
            n += 1
            st = cfg.stmt_of(c)
            stale = False
            for (t, l, k) in cfg.succ.get(id(st), []):
                if k == 'exc':
                    continue
                r = cfg.reachable(t, avoid_nodes=[w for w in writes if w is not st], avoid_edges=none_false, no_exc=True)
                if id(cfg.stmt_of(lc)) in r:
                    stale = True
            chk.ob('R09.19', f'{tk.qn} :: after {call_name(c)}() the literal block is measured against the paragraph the helper built', not stale,
                   f'every path to _tokenize_literal re-reads `{v}` from the last token' if not stale else
                   f'a path from `{call_name(c)}(...)` reaches `_tokenize_literal(..., {v}, ...)` with `{v}` still holding the indentation of the bullet (the re-reading is missing or '
                   'under a test of its own): in a list item whose first paragraph wraps and ends in `::`, the literal block swallows the following blocks of the item - their '
                   'inline markup is shown raw and nothing is reported', repo.loc(tk.mod, c))
        if not resync:
            chk.note(f'R09.19: no `{v} = tokens[-1].indent` statement in _tokenize')
    if n < 1:
        raise AnalysisError('R09.19: _tokenize calls no helper that builds a paragraph token with its own indentation')
    chk.require('R09.19', 1)
