"""
C08 - every docstring renders; markup errors degrade to plain text.  Decides the barrier discipline:
  R08.1 shape of the parse barrier (epydoc2stan.parse_docstring)
  R08.2 who may call the format parsers
  R08.3 every to_stan()/to_node() call site: the failure it can produce is stopped before a run entry
  R08.4 fallbacks handed to safe_to_stan cannot themselves raise
  R08.5 get_summary / get_toc guards
  R08.6 a report is skipped only when that very problem was reported before; the registry of objects with problems is keyed by qualified name
  R08.7 the context handed to a fallback that re-reads ctx.docstring is the object that owns the docstring
  R08.8 'fatal' means every epytext error that stops the parse (quantifier of is_fatal)
  R08.9 the fallback of Field.format shows the text of the field
  R08.10 the reST parser restores docutils' process-global role table after each docstring
  R08.11 a memoised conversion (to_node) does not keep a half-built result when the conversion raises
Does not decide: parser termination, docutils recovery, byte-for-byte equality of the plain text shown.
"""
from __future__ import annotations

import ast
from typing import Dict, List, Optional, Set, Tuple

from ..core import AnalysisError, Func, Repo, dotted, norm, parents
from ..cfg import CFG
from ..report import Check
from ..util import call_name, calls_in, enclosing_trys, handler_names, is_catch_all, reraises, origins
from .c01 import PHASE_ENTRIES, build_engine

PD = 'pydoctor.epydoc.markup.ParsedDocstring'
PARSE_BARRIER = 'pydoctor.epydoc2stan.parse_docstring'
PLAINTEXT_PARSE = 'pydoctor.epydoc.markup.plaintext.parse_docstring'


def _is_parsed_docstring_cls(repo: Repo, f: Func) -> bool:
    return f.cls is not None and repo.is_subclass(f.cls, PD)


def run(repo: Repo, chk: Check, thorough: bool = False) -> None:
    chk.explanation = ('shape rules on the parse barrier (CFG must-pass-through, def-use of the fallback argument), who-may-call on the '
                       'format parsers, per-call-site upward exception propagation for to_stan()/to_node() over the resolved call graph, '
                       'escape sets of the safe_to_stan fallbacks')
    chk.assumptions = [
        'a to_stan() implementation that is not provably total is assumed able to raise any Exception; to_node() is assumed to raise '
        'NotImplementedError when the receiver may be a class that does not implement it',
        'plaintext.parse_docstring and ParsedPlaintextDocstring.to_stan are total (they only build a tag from the text)',
        'termination of the parsers is not decided',
    ]
    cg, esc = build_engine(repo)
    pd = repo.cls(PD)

    # ---------------------------------------------------------------- R08.1
    f = repo.func(PARSE_BARRIER)
    params = [p.arg for p in f.params()]
    docparam = 'doc' if 'doc' in params else (params[1] if len(params) > 1 else None)
    if docparam is None:
        raise AnalysisError('parse_docstring has no docstring parameter')
    # the text parameter is never re-bound
    rebinds = [n for n in f.walk() if isinstance(n, (ast.Assign, ast.AugAssign, ast.AnnAssign)) and
               any(isinstance(t, ast.Name) and t.id == docparam for t in (n.targets if isinstance(n, ast.Assign) else [n.target]))]
    chk.ob('R08.1', f'{PARSE_BARRIER} :: original text is not re-bound', not rebinds,
           f'parameter `{docparam}` is never assigned' if not rebinds else f'`{docparam}` is modified at line {rebinds[0].lineno}: '
           'the plaintext fallback would show altered text', f.loc)
    from ..util import parser_valued, private_helper_of
    parser_vars = {t.id for n in f.walk() if isinstance(n, ast.Assign) for t in n.targets if isinstance(t, ast.Name) and parser_valued(repo, f, t.id)}
    parser_calls = [c for c in calls_in(f) if isinstance(c.func, ast.Name) and c.func.id in parser_vars]
    if not parser_calls:
        chk.error('R08.1: the call of the parser callable was not found in parse_docstring')
    tr: Optional[ast.Try] = None
    for c in parser_calls:
        trys = enclosing_trys(c, f.node)
        ok = bool(trys) and any(is_catch_all(h) for h in trys[0].handlers)
        chk.ob('R08.1', f'{PARSE_BARRIER} :: {norm(c)[:40]} inside the catch-all', ok,
               'parser invoked inside try ... except Exception' if ok else 'the parser is invoked outside the catch-all try', repo.loc(f.mod, c))
        if trys:
            tr = trys[0]
    if tr is not None:
        for h in tr.handlers:
            hn = ', '.join(handler_names(h))
            def _plain(c: ast.Call) -> bool:
                """plaintext.parse_docstring(...), or a private helper of the module that hands its first parameter on to it"""
                for g in repo.callees(c, f)[0]:
                    if g.qn == PLAINTEXT_PARSE:
                        return True
                    if g.mod is f.mod and g.name.startswith('_') and g.params():
                        p0 = g.params()[0].arg
                        if any(any(k.qn == PLAINTEXT_PARSE for k in repo.callees(x, g)[0]) and x.args and norm(x.args[0]) == p0 for x in calls_in(g)):
                            return True
                return False
            fb = [c for st in h.body for c in ast.walk(st) if isinstance(c, ast.Call) and _plain(c)]
            ok = bool(fb) and all(c.args and isinstance(c.args[0], ast.Name) and c.args[0].id == docparam for c in fb) and not reraises(h)
            chk.ob('R08.1', f'{PARSE_BARRIER} :: except {hn} falls back to plaintext(original text)', ok,
                   f'handler assigns plaintext.parse_docstring({docparam}, ...)' if ok else
                   'the handler must build the result from plaintext.parse_docstring applied to the original docstring parameter and not raise',
                   f'{f.mod.relpath}:{h.lineno}')
            if is_catch_all(h):
                app = [c for st in h.body for c in ast.walk(st) if isinstance(c, ast.Call) and call_name(c) == 'append'
                       and c.args and isinstance(c.args[0], ast.Call) and call_name(c.args[0]) == 'ParseError']
                chk.ob('R08.1', f'{PARSE_BARRIER} :: except {hn} records a ParseError', bool(app),
                       'errs.append(ParseError(...))' if app else 'internal parser failures are not turned into a reported ParseError',
                       f'{f.mod.relpath}:{h.lineno}')
        # after the try, errors are reported on every path
        cfg = CFG(f)
        rep_ifs = [n for n in f.walk() if isinstance(n, ast.If) and
                   any(isinstance(c, ast.Call) and call_name(c) == 'reportErrors' for st in n.body for c in ast.walk(st))]
        ok = False
        detail = 'no `if errs: reportErrors(...)` after the try'
        for ri in rep_ifs:
            if isinstance(ri.test, ast.Name) and cfg.must_pass(tr, cfg.EXIT, [ri]):
                rc = [c for st in ri.body for c in ast.walk(st) if isinstance(c, ast.Call) and call_name(c) == 'reportErrors'][0]
                a0 = rc.args[0] if rc.args else None
                owner = [norm(c.args[0]) for c in calls_in(f) if call_name(c) == '_get_docformat' and c.args]
                if isinstance(a0, ast.Name) and a0.id in params and (not owner or a0.id in owner):
                    ok = True
                    detail = f'every path from the try to the return passes `if {ri.test.id}: reportErrors({a0.id}, ...)`'
                elif isinstance(a0, ast.Name) and owner:
                    detail = (f'errors are reported against `{a0.id}` but the docstring belongs to `{owner[0]}` (the object whose module '
                              'decides the docformat): an inherited docstring is reported once per inheriting object, in the wrong file')
        chk.ob('R08.1', f'{PARSE_BARRIER} :: errors reported on every path', ok, detail, f.loc)
    # (vacuity guard: text not re-bound, parser call guarded, one fallback + one record per catch-all handler, reporting - a separate `except ParseError`
    # handler adds an instance, merging it into the catch-all is legitimate)
    chk.require('R08.1', 5)

    # ---------------------------------------------------------------- R08.2
    parser_funcs = {g.qn for g in repo.funcs.values() if g.name == 'parse_docstring' and
                    g.mod.name.startswith('pydoctor.epydoc.markup.') and g.cls is None}
    parser_funcs |= {'pydoctor.epydoc.markup.get_parser_by_name'}
    for g in repo.funcs.values():
        for s in cg.sites[g.qn]:
            if not isinstance(s.node, ast.Call):
                continue
            tg = [c.qn for c in s.callees if c.qn in parser_funcs and s.how in ('direct', 'method', 'model:local', 'model:returned')]
            if not tg:
                continue
            key = f'{g.qn} :: {norm(s.node.func)[:50]}'
            if all(t == PLAINTEXT_PARSE for t in tg):
                chk.ob('R08.2', key, True, 'total plaintext parser', s.loc)
                continue
            inside = g.mod.name.startswith(('pydoctor.epydoc.markup', 'pydoctor.napoleon')) or g.qn == PARSE_BARRIER or \
                (all(t == 'pydoctor.epydoc.markup.get_parser_by_name' for t in tg) and private_helper_of(repo, g, PARSE_BARRIER))
            chk.ob('R08.2', key, inside,
                   'parser composition inside the markup layer / the barrier itself' if inside else
                   f'a format parser ({", ".join(tg)}) is called outside epydoc2stan.parse_docstring: its failures bypass the plaintext fallback',
                   s.loc)
    chk.require('R08.2', 4)

    # ---------------------------------------------------------------- R08.3
    total_to_stan: Set[str] = set()
    for c in [pd] + repo.all_subclasses(pd):
        m = c.methods.get('to_stan')
        if m is not None and m.qn not in esc.declared and not esc.escaping(m.qn):
            ext_calls = [s for s in cg.sites[m.qn] if isinstance(s.node, ast.Call) and s.how.startswith('ext') and
                         not (s.ext or '').startswith(('twisted.web.template', 'tags', '?.'))]
            if not any(s.callees for s in cg.sites[m.qn] if isinstance(s.node, ast.Call)) and not ext_calls:
                total_to_stan.add(m.qn)
    chk.stats['total_to_stan_implementations'] = sorted(total_to_stan)
    no_to_node = {m.qn for c in [pd] + repo.all_subclasses(pd) for m in [c.methods.get('to_node')] if m is not None and
                  any(isinstance(n, ast.Raise) and 'NotImplementedError' in norm(n) for n in m.walk())}
    chk.stats['to_node_not_implemented_in'] = sorted(no_to_node)
    if len(no_to_node) < 2:
        chk.error('R08.3: fewer than 2 to_node() implementations raising NotImplementedError found (3 confirmed by hand)')
    for g in repo.funcs.values():
        for s in cg.sites[g.qn]:
            if not isinstance(s.node, ast.Call) or not isinstance(s.node.func, ast.Attribute):
                continue
            attr = s.node.func.attr
            if attr not in ('to_stan', 'to_node'):
                continue
            impls = [c for c in s.callees if c.name == attr and _is_parsed_docstring_cls(repo, c)]
            if not impls:
                continue
            key = f'{g.qn} :: {norm(s.node)[:60]}'
            if attr == 'to_stan':
                risky = [c.qn for c in impls if c.qn not in total_to_stan]
                exc = 'Exception'
            else:
                risky = [c.qn for c in impls if c.qn in no_to_node]
                exc = 'NotImplementedError'
            if not risky:
                chk.ob('R08.3', key, True, f'receiver is a total implementation ({", ".join(c.qn.split(".")[-2] for c in impls)})', s.loc)
                continue
            if isinstance(s.node.func.value, ast.Call) and isinstance(s.node.func.value.func, ast.Name) and s.node.func.value.func.id == 'super':
                chk.ob('R08.3', key, True, 'delegation to the parent implementation inside an implementation', s.loc)
                continue
            path, stops = esc.reaches_entry(exc, s.node, g, PHASE_ENTRIES)
            if path is None:
                chk.ob('R08.3', key, True, f'{exc} stopped by: {"; ".join(stops[:3]) or "no caller reaches a run entry"}', s.loc)
            else:
                chk.ob('R08.3', key, False,
                       f'{exc} from {attr}() (possible receivers: {", ".join(r.split(".")[-2] for r in risky[:4])}) reaches a run entry '
                       f'with no handler: ' + ' '.join(path), s.loc, path=path)
    chk.require('R08.3', 10)

    # ---------------------------------------------------------------- R08.4
    safe = repo.func('pydoctor.epydoc2stan.safe_to_stan')
    fallbacks: Dict[str, List[str]] = {}
    for s in cg.callers.get(safe.qn, []):
        if not isinstance(s.node, ast.Call):
            continue
        arg = None
        for kw in s.node.keywords:
            if kw.arg == 'fallback':
                arg = kw.value
        if arg is None and len(s.node.args) >= 4:
            arg = s.node.args[3]
        if arg is None:
            chk.ob('R08.4', f'{s.func.qn} :: safe_to_stan(...) fallback argument', False, 'no fallback argument found', s.loc)
            continue
        fs = cg._funcs_of_value(arg, s.func)
        if not fs:
            chk.ob('R08.4', f'{s.func.qn} :: fallback={norm(arg)[:40]}', False, 'fallback callable could not be resolved', s.loc)
        for g in fs:
            fallbacks.setdefault(g.qn, []).append(s.loc)
    for q, where in sorted(fallbacks.items()):
        g = repo.func(q)
        bad = [(c, src) for c, src in esc.escaping(q)]
        name = q if '<lambda' not in q else f'{q.split(".<lambda")[0]}.<lambda> -> {norm(g.node.body)[:30]}'
        chk.ob('R08.4', f'fallback {name}', not bad,
               f'cannot raise (used at {len(where)} safe_to_stan call site(s))' if not bad else
               f'the fallback itself can raise {bad[0][0]} ({bad[0][1].label} at {bad[0][1].loc}) while handling a failed to_stan()',
               g.loc, used_at=where)
    chk.require('R08.4', 4)

    # ---------------------------------------------------------------- R08.7 the fallback context owns the docstring
    n7 = 0
    for q in sorted(fallbacks):
        g = repo.func(q)
        ps = [p.arg for p in g.params()]
        if len(ps) < 3 or isinstance(g.node, ast.Lambda):
            continue
        ctxp = ps[2]
        reads_doc = any(isinstance(n, ast.Attribute) and n.attr == 'docstring' and dotted(n.value) == ctxp for n in g.walk())
        if not reads_doc:
            continue
        for s in cg.callers.get(safe.qn, []):
            if not isinstance(s.node, ast.Call):
                continue
            fb = next((kw.value for kw in s.node.keywords if kw.arg == 'fallback'), s.node.args[3] if len(s.node.args) > 3 else None)
            if fb is None or g not in cg._funcs_of_value(fb, s.func):
                continue
            ctx = next((kw.value for kw in s.node.keywords if kw.arg == 'ctx'), s.node.args[2] if len(s.node.args) > 2 else None)
            n7 += 1
            ok = False
            why = 'context argument not found'
            if isinstance(ctx, ast.Name):
                srcs = [v for _, v in origins(repo, s.func, ctx.id)]
                ok = bool(srcs) and all(isinstance(v, ast.Call) and call_name(v) in ('ensure_parsed_docstring', '_get_parsed_summary')
                                        or (isinstance(v, ast.Attribute) and v.attr == 'parent') for v in srcs)
                why = (f'`{ctx.id}` is the docstring source returned by {"/".join(sorted({call_name(v) for v in srcs if isinstance(v, ast.Call)}))}'
                       if ok else f'`{ctx.id}` is not the object that owns the docstring: {q.split(".")[-1]} reads ctx.docstring, so an '
                       'inherited docstring would be replaced by "broken" instead of shown as plain text')
            chk.ob('R08.7', f'{s.func.qn} :: safe_to_stan(..., ctx={norm(ctx) if ctx is not None else "?"}, fallback={q.split(".")[-1]})', ok, why, s.loc)
    if n7 < 1:
        chk.error('R08.7: no safe_to_stan call with a fallback that reads ctx.docstring found (1 confirmed by hand)')

    # ---------------------------------------------------------------- R08.8 epytext: any fatal error makes the parser give up
    ep = repo.func('pydoctor.epydoc.markup.epytext.parse')
    errp = 'errors' if 'errors' in [p.arg for p in ep.params()] else None
    fatal_calls = [c for c in calls_in(ep) if call_name(c) == 'is_fatal' and isinstance(c.func, ast.Attribute)]
    if errp is None or not fatal_calls:
        chk.error('R08.8: epytext.parse no longer has an `errors` parameter / an is_fatal() test')
    for c in fatal_calls:
        recv = c.func.value  # type: ignore[attr-defined]
        ok = False
        why = f'is_fatal() is applied to `{norm(recv)}`, not to every element of `{errp}`: a fatal error after a non-fatal one is ignored'
        if isinstance(recv, ast.Name):
            for p in parents(c):
                if isinstance(p, (ast.GeneratorExp, ast.ListComp, ast.SetComp)):
                    for gen in p.generators:
                        if isinstance(gen.target, ast.Name) and gen.target.id == recv.id and isinstance(gen.iter, ast.Name) and gen.iter.id == errp:
                            ok = True
                if isinstance(p, ast.For) and isinstance(p.target, ast.Name) and p.target.id == recv.id and \
                        isinstance(p.iter, ast.Name) and p.iter.id == errp:
                    ok = True
            if ok:
                why = f'quantifies over the whole `{errp}` list'
        chk.ob('R08.8', f'pydoctor.epydoc.markup.epytext.parse :: {norm(c)}', ok, why, repo.loc(ep.mod, c))

    # ---------------------------------------------------------------- R08.5
    gs = repo.func(f'{PD}.get_summary')
    trs = [n for n in gs.walk() if isinstance(n, ast.Try)]
    # on the CFG (exception edges to the handlers included): from the try that extracts the summary every path to the normal end of the function passes
    # an assignment of self._summary, and the catch-all handler does not re-raise - wherever the assignment is written (in both arms, or once after the try)
    cfgs_ = CFG(gs)
    stores_s = [n for n in gs.walk() if isinstance(n, ast.Assign) and any(dotted(x) == 'self._summary' for x in n.targets)]
    ok = False
    for t in trs:
        ca = [h for h in t.handlers if is_catch_all(h)]
        if ca and stores_s and not reraises(ca[0]) and cfgs_.must_pass(t, cfgs_.EXIT, stores_s) and cfgs_.must_pass(ca[0], cfgs_.EXIT, stores_s):
            ok = True
    chk.ob('R08.5', f'{PD}.get_summary :: summary assigned on the failing and on the normal path', ok,
           'catch-all assigns a "broken summary" placeholder, else-branch assigns the summary' if ok else
           'get_summary does not set a summary on both paths of its try', gs.loc)
    gt = repo.func(f'{PD}.get_toc')
    tn = [c for c in calls_in(gt) if call_name(c) == 'to_node']
    ok = bool(tn) and all(any('NotImplementedError' in handler_names(h) or is_catch_all(h) for t in enclosing_trys(c, gt.node) for h in t.handlers)
                          for c in tn)
    chk.ob('R08.5', f'{PD}.get_toc :: to_node() guarded', ok,
           'NotImplementedError handled' if ok else 'get_toc calls to_node() without handling NotImplementedError', gt.loc)

    check_r08_11(repo, chk)
    check_r08_7_field_bodies(repo, chk)
    # ---------------------------------------------------------------- R08.6
    # "the problem is reported against that object": a de-duplication of reports (the same docstring is parsed and rendered several times) may drop a
    # problem that WAS reported, never a different problem of an object that has one report already - a renderer failure after a parser warning.
    # (Restated: this rule used to demand "once per object", which is what the code did and exactly what loses the second problem.)
    re_ = repo.func('pydoctor.epydoc2stan.reportErrors')
    cfg = CFG(re_)
    reports = [c for c in calls_in(re_) if call_name(c) == 'report']
    if not reports:
        raise AnalysisError('R08.6: reportErrors no longer reports through Documentable.report')
    errp = re_.params()[1].arg
    errvars = {errp} | {lp.target.id for lp in re_.walk() if isinstance(lp, ast.For) and isinstance(lp.target, ast.Name) and isinstance(lp.iter, ast.Name) and lp.iter.id == errp}
    for c in reports:
        tests = cfg.dominating_tests(cfg.stmt_of(c))
        member = [t for t, pol in tests if isinstance(t, ast.Compare) and isinstance(t.ops[0], (ast.NotIn, ast.In))]
        per_object = [t for t in member if not any(isinstance(x, ast.Name) and x.id in errvars - {errp} for x in ast.walk(t.left))]
        ok6 = not per_object
        chk.ob('R08.6', 'pydoctor.epydoc2stan.reportErrors :: a report is only skipped when that very problem was reported before', ok6,
               'no membership test on the object alone guards report()' if ok6 else
               f'`{norm(per_object[0])}` skips every later problem of an object that has been reported once: a renderer failure that follows a (recovered) parser '
               'warning degrades the docstring to plain text without any message about it', repo.loc(re_.mod, c))
    # the registry of objects with problems (driver: summary listing, exit status) is keyed by the qualified name (two objects may share a short name)
    adds = [a for a in calls_in(re_) if call_name(a) == 'add' and a.args]
    if not adds:
        raise AnalysisError('R08.6: reportErrors no longer records the object in System.parse_errors')
    okk = all(isinstance(a.args[0], ast.Call) and call_name(a.args[0]) == 'fullName' for a in adds)
    chk.ob('R08.6', 'pydoctor.epydoc2stan.reportErrors :: objects with problems are recorded under their qualified name', okk,
           'parse_errors[section].add(obj.fullName())' if okk else
           f'the registry is keyed by `{norm(adds[0].args[0])}`, not by the qualified name: a second object with the same short name is not recorded', re_.loc)

    # ---------------------------------------------------------------- R08.9 a field whose body cannot be rendered still shows its text
    ff = repo.func('pydoctor.epydoc2stan.Field.format')
    fcs = [c for c in calls_in(ff) if call_name(c) == 'safe_to_stan']
    if not fcs:
        raise AnalysisError('R08.9: Field.format no longer renders through safe_to_stan')
    for c in fcs:
        fb = next((kw.value for kw in c.keywords if kw.arg == 'fallback'), c.args[3] if len(c.args) > 3 else None)
        gs = cg._funcs_of_value(fb, ff) if fb is not None else []
        def _shows_text(g: Func) -> bool:
            if isinstance(g.node, ast.Lambda):
                return not (isinstance(g.node.body, ast.Name) and g.node.body.id == 'BROKEN')
            rets = [r for r in g.walk() if isinstance(r, ast.Return) and r.value is not None]
            return any(not (isinstance(r.value, ast.Name) and r.value.id == 'BROKEN') for r in rets)
        okf = bool(gs) and all(_shows_text(g) for g in gs)
        chk.ob('R08.9', 'epydoc2stan.Field.format :: the fallback shows the text of the field', okf,
               'plain text recovered from the parsed body (BROKEN only when even that fails)' if okf else
               f'fallback `{norm(fb)[:50] if fb is not None else "?"}` answers the constant BROKEN: when the body of a field cannot be rendered (an empty '
               '`.. code::` under a :param:, a form feed, a failing type field) the page says "Broken description" and the text of the field appears nowhere',
               repo.loc(ff.mod, c))
    chk.require('R08.9', 1)

    # ---------------------------------------------------------------- R08.10 one docstring cannot change how the next ones are parsed
    # docutils keeps the roles declared with `.. role::` in a table that is global to the process (docutils.parsers.rst.roles._roles):
    # the reST parser has to put it back after each docstring
    rp = repo.func('pydoctor.epydoc.markup.restructuredtext.parse_docstring')
    pubs = [c for c in calls_in(rp) if call_name(c) == 'publish_string']
    if not pubs:
        raise AnalysisError('R08.10: publish_string is no longer called from the reST parse_docstring')
    restored = False
    for t in enclosing_trys(pubs[0], rp.node):
        fin_calls = [c for st in t.finalbody for c in ast.walk(st) if isinstance(c, ast.Call) and isinstance(c.func, ast.Attribute) and
                     isinstance(c.func.value, ast.Attribute) and c.func.value.attr == '_roles']
        reassigned = any(isinstance(st, ast.Assign) and any(isinstance(tg, ast.Attribute) and tg.attr == '_roles' for tg in st.targets) for st in t.finalbody)
        # putting the saved entries back is not enough: what the docstring ADDED has to go too (clear() then update(), or a plain re-assignment)
        if reassigned or ({call_name(c) for c in fin_calls} >= {'clear', 'update'}):
            restored = True
    chk.ob('R08.10', 'epydoc.markup.restructuredtext.parse_docstring :: the global role table of docutils is restored', restored,
           'saved before publish_string, put back in a finally block' if restored else
           'a `.. role:: strike` / `.. role:: sub(strong)` in one docstring stays registered for every docstring parsed afterwards: another object renders '
           'differently and its unknown-role error is no longer reported ("no other object is affected" does not hold)', repo.loc(rp.mod, pubs[0]))
    chk.require('R08.10', 1)



def check_r08_11(repo: Repo, chk: Check) -> None:
    # `to_node()` memoises its document in an attribute.  Where the attribute is given a fresh (empty) document BEFORE the conversion runs, a
    # conversion that raises must take it back: otherwise the first caller sees the error and every later caller gets the empty document - the
    # summary is computed first in a run, so the body of the docstring is an empty <div>, nothing is reported and the text is lost
    n = 0
    for f in sorted(repo.funcs.values(), key=lambda g: g.qn):
        if f.name != 'to_node' or f.cls is None or '.test' in f.mod.name:
            continue
        memo_tests = [i for i in f.walk() if isinstance(i, ast.If) and any(isinstance(r, ast.Return) for r in i.body) and
                      any(isinstance(x, ast.Attribute) and dotted(x.value) == 'self' for x in ast.walk(i.test))]
        if not memo_tests:
            continue
        memo = next(x.attr for x in ast.walk(memo_tests[0].test) if isinstance(x, ast.Attribute) and dotted(x.value) == 'self')
        cfg = CFG(f)
        early = [a for a in f.walk() if isinstance(a, ast.Assign) and any(isinstance(t, ast.Attribute) and t.attr == memo and dotted(t.value) == 'self' for t in a.targets) and
                 not (isinstance(a.value, ast.Constant) and a.value.value is None)]
        if not early:
            continue
        first = min(early, key=lambda a: a.lineno)
        after = [c for c in calls_in(f) if id(cfg.stmt_of(c)) in cfg.reachable(first, no_exc=True) and cfg.stmt_of(c) is not first and
                 not (isinstance(c.func, ast.Name) and c.func.id in ('set', 'list', 'dict', 'isinstance', 'len'))]
        if not after:
            continue
        n += 1
        bad = []
        for c in after:
            trys = enclosing_trys(c, f.node)
            resets = any(any(isinstance(a, ast.Assign) and any(isinstance(t, ast.Attribute) and t.attr == memo for t in a.targets) and
                             isinstance(a.value, ast.Constant) and a.value.value is None for st in h.body for a in ast.walk(st)) and
                         any(isinstance(st, ast.Raise) for st in h.body) for t_ in trys for h in t_.handlers)
            if not resets:
                bad.append(c)
        chk.ob('R08.11', f'{f.qn} :: a failed conversion does not leave a half-built document in self.{memo}', not bad,
               f'every call made after `{norm(first)[:50]}` sits in a try whose handler resets self.{memo} and re-raises' if not bad else
               f'`{norm(first)[:50]}` is stored before `{norm(bad[0])[:40]}` runs: when that raises, the next caller of to_node() gets the empty document - an epytext docstring '
               'whose fields are indented unevenly renders as an empty <div>, its summary as "Broken summary", and nothing is reported', repo.loc(f.mod, first))
    if n < 1:
        raise AnalysisError('R08.11: no memoising to_node() that stores its document before converting was found (1 confirmed: ParsedEpytextDocstring.to_node)')
    chk.require('R08.11', 1)


def check_r08_7_field_bodies(repo: Repo, chk: Check) -> None:
    # format_docstring_fallback re-parses `ctx.docstring` as plain text.  That is the text the failed parse came from only when the object has a
    # docstring of its own: for a property documented by `@return:` alone the builder blanks attr.docstring, for an attribute documented by an `@ivar`
    # field the source is the PARENT - the fallback then shows nothing, or the whole class docstring.  Where the parsed docstring is a field body, the
    # fallback has to be the one that recovers the text from the parsed body itself
    fd = repo.func('pydoctor.epydoc2stan._format_docstring')
    calls = [c for c in calls_in(fd) if call_name(c) == 'safe_to_stan']
    if not calls:
        raise AnalysisError('R08.7: _format_docstring no longer renders through safe_to_stan')
    cfg = CFG(fd)
    for c in calls:
        fb = next((k.value for k in c.keywords if k.arg == 'fallback'), None)
        direct = isinstance(fb, ast.Name) and fb.id == 'format_docstring_fallback'
        # either the fallback is chosen by a test of the object's own docstring, or the call with the re-reading fallback is dominated by such a test
        chosen = isinstance(fb, ast.Name) and fb.id != 'format_docstring_fallback' and any(
            isinstance(a, ast.Assign) and any(isinstance(t, ast.Name) and t.id == fb.id for t in a.targets) for a in fd.walk()) and any(
            isinstance(i, ast.If) and any(isinstance(a, ast.Assign) and any(isinstance(t, ast.Name) and t.id == fb.id for t in a.targets) for st in i.body + i.orelse for a in ast.walk(st)) and
            any(isinstance(x, (ast.Attribute, ast.Call)) and ('docstring' in norm(x)) for x in ast.walk(i.test)) for i in fd.walk())
        guarded = direct and any('docstring' in norm(t) and 'parsed' not in norm(t) for t, _pol in cfg.dominating_tests(cfg.stmt_of(c)))
        ok = chosen or guarded or (isinstance(fb, ast.Name) and not direct and not isinstance(fb, ast.Lambda) and fb.id == '_field_body_fallback')
        chk.ob('R08.7', 'pydoctor.epydoc2stan._format_docstring :: the re-reading fallback is only used for an object that has a docstring of its own', ok,
               'the fallback depends on whether the object has its own docstring text' if ok else
               'format_docstring_fallback is used for every object: a property documented only by `@return: ... \\x0c ...` gets `<p class="pre"></p>` (its text is lost), an '
               'attribute documented by `@ivar x:` gets the whole docstring of its class', repo.loc(fd.mod, c))
