"""
C18 - equal inputs give byte-identical output.  Nondeterminism taint:
  R18.1 every set-typed value / unordered listing is consumed order-insensitively; no id()/hash() values
  R18.2 directory listings are sorted (or are listings of pydoctor's own resources)
  R18.3 the clock only flows to System.buildtime (overridable) or to log messages
  R18.4 reused output directory: truncating opens, symlink replaced
Does not decide: that two actual output trees are equal (each rule is a necessary condition).
"""
from __future__ import annotations

import ast
from typing import Dict, List, Optional, Set, Tuple

from ..core import AnalysisError, Func, Repo, dotted, norm, parents
from ..cfg import CFG
from ..report import Check
from ..util import call_name, calls_in, guard_tests

SET_ANN = {'Set', 'MutableSet', 'FrozenSet', 'AbstractSet', 'set', 'frozenset'}
SET_RESULT_METHODS = {'union', 'intersection', 'difference', 'symmetric_difference', 'copy'}
SET_SAFE_METHODS = {'add', 'discard', 'remove', 'update', 'clear', 'issubset', 'issuperset', 'isdisjoint', 'difference_update',
                    'intersection_update', 'symmetric_difference_update', '__contains__'} | SET_RESULT_METHODS
INSENSITIVE_CALLS = {'len', 'bool', 'sorted', 'any', 'all', 'sum', 'min', 'max', 'set', 'frozenset', 'isinstance', 'id', 'type'}
SENSITIVE_CALLS = {'list', 'tuple', 'iter', 'enumerate', 'zip', 'map', 'filter', 'next', 'reversed', 'str', 'repr', 'print',
                   'join', 'extend', 'dict', 'format', 'chain', 'writelines', 'dumps'}
LISTING_CALLS = {'iterdir', 'listdir', 'glob', 'rglob', 'scandir', 'walk'}
CLOCK = {'datetime.datetime.now', 'datetime.datetime.utcnow', 'datetime.datetime.today', 'datetime.date.today', 'time.time',
         'time.monotonic', 'time.perf_counter', 'time.localtime', 'time.gmtime', 'time.strftime', 'time.ctime'}
RANDOMNESS = ('random.', 'uuid.', 'secrets.', 'os.urandom', 'os.getpid', 'tempfile.')

# listings of pydoctor's own installation (not of the documented input), with the reason
OWN_RESOURCE_LISTINGS: Dict[str, str] = {
    'pydoctor.extensions._importlib_resources_is_resource': 'any(...) over the listing: order-insensitive',
    'pydoctor.themes.get_themes': 'lists the bundled themes for the --theme choices (help text), not written to the output',
    'pydoctor.epydoc.markup.get_supported_docformats': 'lists the bundled parsers for the --docformat choices, not written to the output',
}


def ann_is_set(ann: Optional[ast.AST]) -> bool:
    if ann is None:
        return False
    if isinstance(ann, ast.Constant) and isinstance(ann.value, str):
        try:
            ann = ast.parse(ann.value.strip(), mode='eval').body
        except SyntaxError:
            return False
    if isinstance(ann, ast.Subscript):
        head = (dotted(ann.value) or '').split('.')[-1]
        if head in SET_ANN:
            return True
        if head in ('Optional', 'Final', 'ClassVar'):
            return ann_is_set(ann.slice)
        return False
    return (dotted(ann) or '').split('.')[-1] in SET_ANN


def ann_value_is_set(ann: Optional[ast.AST]) -> bool:
    """Dict[..., Set[...]] / DefaultDict[..., Set[...]]"""
    if isinstance(ann, ast.Constant) and isinstance(ann.value, str):
        try:
            ann = ast.parse(ann.value.strip(), mode='eval').body
        except SyntaxError:
            return False
    if isinstance(ann, ast.Subscript) and (dotted(ann.value) or '').split('.')[-1] in ('Dict', 'DefaultDict', 'Mapping', 'MutableMapping', 'dict'):
        sl = ann.slice
        if isinstance(sl, ast.Tuple) and len(sl.elts) == 2:
            return ann_is_set(sl.elts[1])
    return False


class SetFlow:
    def __init__(self, repo: Repo):
        self.repo = repo
        self._ret: Dict[str, bool] = {}

    def returns_set(self, g: Func, depth: int = 0) -> bool:
        if g.qn in self._ret:
            return self._ret[g.qn]
        self._ret[g.qn] = False
        r = False
        if not isinstance(g.node, ast.Lambda):
            if ann_is_set(g.node.returns):
                r = True
            elif depth < 3:
                for n in g.walk():
                    if isinstance(n, ast.Return) and n.value is not None and self.is_set(n.value, g, depth + 1):
                        r = True
        self._ret[g.qn] = r
        return r

    def is_set(self, e: ast.AST, f: Func, depth: int = 0) -> bool:
        if depth > 6:
            return False
        if isinstance(e, (ast.Set, ast.SetComp)):
            return True
        if isinstance(e, ast.Call):
            nm = call_name(e)
            if isinstance(e.func, ast.Name) and nm in ('set', 'frozenset'):
                return True
            if isinstance(e.func, ast.Attribute) and nm in SET_RESULT_METHODS and self.is_set(e.func.value, f, depth + 1):
                return True
            cal, how = self.repo.callees(e, f)
            if cal and how in ('direct', 'method') and all(self.returns_set(g, depth) for g in cal):
                return True
            return False
        if isinstance(e, ast.BinOp) and isinstance(e.op, (ast.BitOr, ast.BitAnd, ast.Sub, ast.BitXor)):
            return self.is_set(e.left, f, depth + 1) or self.is_set(e.right, f, depth + 1)
        if isinstance(e, ast.Name):
            g: Optional[Func] = f
            while g is not None:
                for p in g.params():
                    if p.arg == e.id:
                        return ann_is_set(p.annotation)
                hit = False
                for n in g.walk():
                    if isinstance(n, ast.AnnAssign) and isinstance(n.target, ast.Name) and n.target.id == e.id:
                        if ann_is_set(n.annotation):
                            return True
                        hit = True
                    elif isinstance(n, ast.Assign) and any(isinstance(t, ast.Name) and t.id == e.id for t in n.targets):
                        hit = True
                        if self.is_set(n.value, g, depth + 1):
                            return True
                if hit:
                    return False
                g = g.outer
            res = self.repo.resolve(f.mod, e.id, f)
            if res and res[0] == 'var':
                m = res[1]
                if ann_is_set(m.ann.get(res[2])):
                    return True
                v = m.assigns.get(res[2])
                return v is not None and self.is_set(v, f, depth + 1) if not isinstance(v, ast.Name) else False
            return False
        if isinstance(e, ast.Attribute):
            r = self.repo
            for a in r.type_of(e.value, f):
                if a[0] in ('inst', 'type') and a[1] in r.classes:
                    for k in r.mro(r.classes[a[1]]):
                        if e.attr in k.methods:
                            m2 = k.methods[e.attr]
                            return m2.is_property and self.returns_set(m2, depth)
                        if e.attr in k.attr_ann:
                            return ann_is_set(k.attr_ann[e.attr])
                        if e.attr in k.attr_val:
                            return any(self.is_set(v, fn or f, depth + 1) for v, fn in k.attr_val[e.attr][:3])
            return False
        if isinstance(e, ast.Subscript) and isinstance(e.value, (ast.Attribute, ast.Name)):
            r = self.repo
            if isinstance(e.value, ast.Attribute):
                for a in r.type_of(e.value.value, f):
                    if a[0] == 'inst' and a[1] in r.classes:
                        for k in r.mro(r.classes[a[1]]):
                            if e.value.attr in k.attr_ann:
                                return ann_value_is_set(k.attr_ann[e.value.attr])
            return False
        if isinstance(e, ast.IfExp):
            return self.is_set(e.body, f, depth + 1) or self.is_set(e.orelse, f, depth + 1)
        return False


def _len_is_one_guard(repo: Repo, f: Func, node: ast.AST, setexpr: ast.AST) -> bool:
    """The use is dominated (structurally or on the CFG) by a test `len(<same set>) == 1`."""
    want = norm(setexpr)

    def is_len1(t: ast.AST, pol: bool) -> bool:
        if not pol:
            return False
        if isinstance(t, ast.Compare) and len(t.ops) == 1 and isinstance(t.ops[0], ast.Eq):
            l, r = t.left, t.comparators[0]
            for a, b in ((l, r), (r, l)):
                if isinstance(a, ast.Call) and call_name(a) == 'len' and a.args and norm(a.args[0]) == want and \
                        isinstance(b, ast.Constant) and b.value == 1:
                    return True
        if isinstance(t, ast.BoolOp) and isinstance(t.op, ast.And):
            return any(is_len1(v, True) for v in t.values)
        if isinstance(t, ast.Name):
            from ..util import single_value
            v_ = single_value(f, t.id)         # a named boolean: `has_single_root = len(names) == 1`
            return v_ is not None and not isinstance(v_, ast.Name) and is_len1(v_, True)
        return False
    for t, pol in guard_tests(node, f.node):
        if is_len1(t, pol):
            return True
    try:
        cfg = CFG(f)
        for t, pol in cfg.dominating_tests(cfg.stmt_of(node)):
            if is_len1(t, pol):
                return True
    except Exception:
        pass
    return False


def classify_use(repo: Repo, sf: SetFlow, f: Func, e: ast.AST, depth: int = 0) -> Tuple[str, str]:
    """('ok'|'bad'|'stored', why) for the consumption of unordered expression e."""
    p = getattr(e, '_parent', None)
    if p is None or depth > 5:
        return 'stored', 'top level'
    if isinstance(p, ast.Compare):
        return 'ok', 'comparison / membership test' if p.left is not e or not isinstance(p.ops[0], (ast.In, ast.NotIn)) else 'membership test'
    if isinstance(p, ast.keyword):
        p2 = getattr(p, '_parent', None)
        if isinstance(p2, ast.Call):
            return _classify_call_arg(repo, sf, f, e, p2, p.arg, depth)
    if isinstance(p, ast.Call):
        if e is p.func:
            return 'ok', 'called'
        return _classify_call_arg(repo, sf, f, e, p, None, depth)
    if isinstance(p, ast.Attribute) and p.value is e:
        if p.attr in SET_SAFE_METHODS:
            return 'ok', f'set method .{p.attr}'
        if p.attr == 'pop':
            if _len_is_one_guard(repo, f, p, e):
                return 'ok', '.pop() under a len == 1 guard'
            return 'bad', '.pop() takes an arbitrary element'
        return 'stored', f'attribute .{p.attr}'
    if isinstance(p, (ast.For, ast.AsyncFor)) and p.iter is e:
        return 'bad', 'iterated by a for statement'
    if isinstance(p, ast.comprehension) and p.iter is e:
        comp = getattr(p, '_parent', None)
        if isinstance(comp, (ast.SetComp,)):
            return 'ok', 'feeds a set comprehension'
        if isinstance(comp, ast.DictComp):
            return 'bad', 'feeds a dict comprehension (insertion order = iteration order)'
        # the list/generator built from it is unordered as well: look at how *it* is consumed
        verdict, why = classify_use(repo, sf, f, comp, depth + 1)
        if verdict == 'stored':
            return 'bad', f'feeds a list/generator comprehension whose order leaks ({why})'
        return verdict, f'comprehension -> {why}'
    if isinstance(p, (ast.If, ast.While, ast.IfExp)) and p.test is e:
        return 'ok', 'truth test'
    if isinstance(p, ast.BoolOp) or (isinstance(p, ast.UnaryOp) and isinstance(p.op, ast.Not)):
        return 'ok', 'truth test'
    if isinstance(p, ast.BinOp) and isinstance(p.op, (ast.BitOr, ast.BitAnd, ast.Sub, ast.BitXor)):
        return classify_use(repo, sf, f, p, depth + 1)
    if isinstance(p, ast.BinOp) and isinstance(p.op, ast.Mod):
        return 'bad', '%-formatted (repr order)'
    if isinstance(p, ast.FormattedValue):
        return 'bad', 'formatted into an f-string (repr order)'
    if isinstance(p, ast.Starred):
        return 'bad', 'star-unpacked'
    if isinstance(p, (ast.Assign, ast.AnnAssign, ast.AugAssign)):
        tg = p.targets[0] if isinstance(p, ast.Assign) else p.target
        if isinstance(tg, (ast.Tuple, ast.List)) and p.value is e:
            return 'bad', 'tuple-unpacked'
        return 'stored', 'assigned'
    if isinstance(p, ast.Return):
        return 'stored', 'returned'
    if isinstance(p, ast.Subscript) and p.value is e:
        return 'stored', 'subscripted (mapping)'
    if isinstance(p, (ast.Yield, ast.YieldFrom)):
        return ('bad', 'yield from (iteration order leaks)') if isinstance(p, ast.YieldFrom) else ('stored', 'yielded')
    return 'stored', type(p).__name__


def _classify_call_arg(repo: Repo, sf: SetFlow, f: Func, e: ast.AST, call: ast.Call, kw: Optional[str], depth: int) -> Tuple[str, str]:
    nm = call_name(call)
    if isinstance(call.func, ast.Name) and nm == 'sorted':
        # sorted() is stable: elements the key does not tell apart keep the order of the input - the hash order of the set.  The key has to be one-to-one
        kf = next((k.value for k in call.keywords if k.arg == 'key'), None)
        if kf is not None and not _injective_key(kf):
            return 'bad', (f'sorted(..., key={norm(kf)[:50]}): the key is not one-to-one, elements it does not tell apart (names that differ in case, kinds mapped to the '
                           'same value) keep the hash order of the set, which changes with PYTHONHASHSEED')
        return 'ok', 'sorted(...)' + ('' if kf is None else f' with the one-to-one key {norm(kf)[:40]}')
    if isinstance(call.func, ast.Name) and nm in INSENSITIVE_CALLS:
        return 'ok', f'{nm}(...)'
    if isinstance(call.func, ast.Attribute) and nm in SET_SAFE_METHODS and sf.is_set(call.func.value, f):
        return 'ok', f'argument of set method .{nm}'
    if nm in SENSITIVE_CALLS and (isinstance(call.func, ast.Name) or nm in ('join', 'extend', 'writelines', 'format', 'dumps', 'chain')):
        if nm in ('list', 'tuple'):
            pp = getattr(call, '_parent', None)
            if isinstance(pp, ast.Compare) and len(pp.ops) == 1 and isinstance(pp.ops[0], (ast.Eq, ast.NotEq)):
                other = pp.comparators[0] if pp.left is call else pp.left
                if isinstance(other, (ast.List, ast.Tuple)) and len(other.elts) <= 1:
                    return 'ok', f'{nm}(...) compared with a list of at most one element (order cannot matter)'
            if isinstance(pp, ast.Subscript) and pp.value is call and _len_is_one_guard(repo, f, call, e):
                return 'ok', f'{nm}(...)[i] under a len == 1 guard'
            # the same through a named local: `names = list(S)` whose every use is len(names), a truth test, sorted(names), a membership test,
            # or names[i] under a `len(names) == 1` guard (a short-circuit `and` counts: the subscript is only evaluated after the test)
            if isinstance(pp, ast.Assign) and len(pp.targets) == 1 and isinstance(pp.targets[0], ast.Name):
                L = pp.targets[0].id
                if len([a for a in f.walk() if isinstance(a, ast.Assign) and any(isinstance(t, ast.Name) and t.id == L for t in a.targets)]) == 1:
                    uses = [u for u in f.walk() if isinstance(u, ast.Name) and u.id == L and isinstance(u.ctx, ast.Load)]

                    def use_ok(u: ast.Name) -> bool:
                        up = getattr(u, '_parent', None)
                        if isinstance(up, ast.Call) and isinstance(up.func, ast.Name) and up.func.id in ('len', 'bool', 'sorted', 'set', 'frozenset', 'any', 'all') and u in up.args:
                            return True
                        if isinstance(up, ast.Compare) and u in up.comparators and isinstance(up.ops[0], (ast.In, ast.NotIn)):
                            return True
                        if isinstance(up, ast.Subscript) and up.value is u:
                            if _len_is_one_guard(repo, f, up, u):
                                return True
                            # `len(L) == 1 and L[0] ...` in one expression
                            x: ast.AST = up
                            for q in parents(up):
                                if isinstance(q, ast.BoolOp) and isinstance(q.op, ast.And):
                                    idx = next((i for i, v in enumerate(q.values) if v is x), None)
                                    if idx is not None:
                                        from ..util import single_value
                                        for v in q.values[:idx]:
                                            vv = single_value(f, v.id) if isinstance(v, ast.Name) else v
                                            if isinstance(vv, ast.Compare) and norm(vv) in (f'len({L}) == 1', f'1 == len({L})'):
                                                return True
                                if isinstance(q, ast.stmt):
                                    break
                                x = q
                        return False
                    if uses and all(use_ok(u) for u in uses):
                        return 'ok', f'{nm}(...) bound to `{L}`, which is only measured, tested, sorted or indexed under a len == 1 guard'
        if nm == 'next' and _len_is_one_guard(repo, f, call, e):
            return 'ok', 'next(...) under a len == 1 guard'
        return 'bad', f'{nm}(...) exposes the iteration order'
    # repo callee: fine when the parameter is itself typed as a set (the callee is analysed on its own)
    cal, how = repo.callees(call, f)
    if cal and how in ('direct', 'method', 'ctor'):
        ok_all = True
        for g in cal:
            ps = g.params()
            names = [p.arg for p in ps]
            if g.cls is not None and g.outer is None and not g.is_static and how in ('method', 'ctor'):
                ps = ps[1:]
            pa = None
            if kw is not None:
                pa = next((p for p in g.params() if p.arg == kw), None)
            else:
                idx = call.args.index(e) if e in call.args else None
                if idx is not None and idx < len(ps):
                    pa = ps[idx]
            if pa is None or not ann_is_set(pa.annotation):
                # not declared as a set: look at what the callee does with the parameter (one level): every use is order-insensitive
                if pa is not None and depth < 2 and not isinstance(g.node, ast.Lambda):
                    uses_g = [u for u in g.walk() if isinstance(u, ast.Name) and u.id == pa.arg and isinstance(u.ctx, ast.Load)]
                    rebound = any(isinstance(a, (ast.Assign, ast.AugAssign)) and any(isinstance(t, ast.Name) and t.id == pa.arg
                                                                                      for t in (a.targets if isinstance(a, ast.Assign) else [a.target])) for a in g.walk())
                    if uses_g and not rebound and all(classify_use(repo, sf, g, u, depth + 1)[0] == 'ok' for u in uses_g):
                        continue
                ok_all = False
        if ok_all:
            return 'ok', f'passed to {cal[0].name}(), which takes a set or consumes its parameter order-insensitively'
        return 'bad', f'passed to {cal[0].qn}() whose parameter is not declared as a set: iteration order may leak'
    return 'stored', f'argument of {nm}()'


def _injective_key(kf: ast.expr) -> bool:
    """Is this sort key one-to-one on directory entries (so that sorted() imposes a total order on a listing)?"""
    if not isinstance(kf, ast.Lambda) or len(kf.args.args) != 1:
        return isinstance(kf, (ast.Name, ast.Attribute)) and norm(kf) in ('str', 'os.fspath', 'os.fsdecode')
    prm = kf.args.args[0].arg

    def one_to_one(e: ast.expr) -> bool:
        if isinstance(e, ast.Name) and e.id == prm:
            return True
        if isinstance(e, ast.Attribute) and isinstance(e.value, ast.Name) and e.value.id == prm and e.attr in ('name', 'path'):
            return True
        if isinstance(e, ast.Call) and isinstance(e.func, ast.Attribute) and isinstance(e.func.value, ast.Name) and e.func.value.id == prm and e.func.attr == 'fullName' and not e.args:
            return True
        if isinstance(e, ast.Call) and norm(e.func) in ('str', 'os.fspath', 'os.fsdecode') and len(e.args) == 1:
            return one_to_one(e.args[0])
        if isinstance(e, ast.Tuple):
            return any(one_to_one(x) for x in e.elts)
        return False
    return one_to_one(kf.body)


def run(repo: Repo, chk: Check, thorough: bool = False) -> None:
    chk.explanation = ('nondeterminism taint on the syntax: every set-typed expression (literals, comprehensions, set()/frozenset(), '
                       'annotated Set names/attributes/parameters, functions and properties returning a set) and every directory listing is '
                       'classified by how it is consumed; clock reads are followed to their uses; open modes of the writers are read')
    chk.assumptions = ['dict and list order is deterministic when their construction order is (guaranteed by R18.1 for their inputs)',
                       'sorted() is stable and its keys are total for the objects sorted (ties keep insertion order)',
                       'object addresses in repr() of arbitrary objects are not tracked (they only appear in log messages)']
    sf = SetFlow(repo)
    # ------------------------------------------------------------------ R18.1
    n_sets = 0
    for f in repo.funcs.values():
        if f.mod.name in ('pydoctor.epydoc.sre_parse36', 'pydoctor.epydoc.sre_constants36') or f.mod.name.startswith('pydoctor.sphinx_ext'):
            continue
        seen: Set[int] = set()
        for n in f.walk():
            if not isinstance(n, ast.expr) or id(n) in seen:
                continue
            if isinstance(n, ast.Name) and not isinstance(n.ctx, ast.Load):
                continue
            if isinstance(n, ast.Attribute) and not isinstance(n.ctx, ast.Load):
                continue
            if not sf.is_set(n, f):
                continue
            # skip operands of set algebra (the BinOp itself is classified)
            par = getattr(n, '_parent', None)
            if isinstance(par, ast.BinOp) and isinstance(par.op, (ast.BitOr, ast.BitAnd, ast.Sub, ast.BitXor)):
                continue
            n_sets += 1
            verdict, why = classify_use(repo, sf, f, n)
            key = f'{f.qn} :: {norm(n)[:50]} -> {norm(par)[:50] if par is not None else ""}'
            chk.ob('R18.1', key, verdict != 'bad',
                   why if verdict != 'bad' else f'unordered value `{norm(n)[:60]}` is consumed order-sensitively: {why}',
                   repo.loc(f.mod, n), kind=verdict)
    chk.stats['set_typed_expressions'] = n_sets
    chk.require('R18.1', 30)
    # properties returning sets are found (anchor: System.root_names)
    rn = repo.func('pydoctor.model.System.root_names')
    if not sf.returns_set(rn):
        chk.error('R18.1: System.root_names is no longer recognised as returning a set - re-confirm the set sources')
    # id()/hash()/randomness
    n_id = 0
    for f in repo.funcs.values():
        if f.mod.name.startswith('pydoctor.sphinx_ext'):
            continue
        for c in calls_in(f):
            d = dotted(c.func) or ''
            if isinstance(c.func, ast.Name) and d in ('id', 'hash'):
                n_id += 1
                chk.ob('R18.1', f'{f.qn} :: {norm(c)[:40]}', False,
                       f'{d}() value used: varies between processes (address / PYTHONHASHSEED)', repo.loc(f.mod, c))
            res = repo.resolve(f.mod, d, f) if d else None
            full = res[1] if res and res[0] == 'ext' else d
            if isinstance(full, str) and full.startswith(RANDOMNESS):
                chk.ob('R18.1', f'{f.qn} :: {norm(c)[:40]}', False, f'{full}: non-reproducible value', repo.loc(f.mod, c))
    chk.stats['id_hash_calls'] = n_id
    # process-wide counters: a class attribute advanced through the class object survives from one run to the next in the same interpreter
    # (the Sphinx extension, repeated driver.main() calls); what is derived from it must be reset per run / per page
    for f in sorted(repo.funcs.values(), key=lambda f: f.qn):
        if not f.mod.name.startswith('pydoctor.templatewriter') or f.cls is None:
            continue
        for n in f.walk():
            if isinstance(n, ast.AugAssign) and isinstance(n.target, ast.Attribute) and isinstance(n.target.value, ast.Name) and \
                    (n.target.value.id in f.mod.classes or n.target.value.id == 'cls'):
                attr = n.target.attr
                cname = n.target.value.id
                resets = [(g, m) for g in repo.funcs.values() if g.mod.name.startswith('pydoctor.templatewriter') and g is not f for m in g.walk()
                          if isinstance(m, ast.Assign) and any(isinstance(t, ast.Attribute) and t.attr == attr and isinstance(t.value, ast.Name) and
                                                               t.value.id == cname for t in m.targets) and isinstance(m.value, ast.Constant)]
                chk.ob('R18.1', f'{f.qn} :: process-wide counter {cname}.{attr}', bool(resets),
                       f'reset in {resets[0][0].qn}' if resets else
                       f'`{norm(n)}` advances a counter stored on the class and nothing ever resets it: values derived from it (element ids) depend on everything '
                       'rendered before in the same process - a second identical run in one interpreter writes different bytes', repo.loc(f.mod, n))

    # ------------------------------------------------------------------ R18.2
    n_list = 0
    for f in repo.funcs.values():
        if f.mod.name.startswith('pydoctor.sphinx_ext'):
            continue
        for c in calls_in(f, lambda c: call_name(c) in LISTING_CALLS):
            if call_name(c) == 'walk' and not (dotted(c.func) or '').endswith('os.walk'):
                continue
            if call_name(c) == 'glob' and isinstance(c.func, ast.Name):
                pass
            n_list += 1
            key = f'{f.qn} :: {norm(c)[:50]}'
            par = getattr(c, '_parent', None)
            if isinstance(par, ast.Call) and call_name(par) == 'sorted' and isinstance(par.func, ast.Name):
                kf = next((k.value for k in par.keywords if k.arg == 'key'), None)
                total = kf is None or _injective_key(kf)
                chk.ob('R18.2', key, total, 'wrapped in sorted(...)' + ('' if kf is None else f' with the one-to-one key {norm(kf)[:40]}') if total else
                       f'sorted with key={norm(kf)[:60]}: entries that the key does not tell apart (names differing in case, ...) keep the order '
                       'the file system listed them in, which differs between machines', repo.loc(f.mod, c))
            elif f.qn in OWN_RESOURCE_LISTINGS:
                chk.ob('R18.2', key, True, f'own-resource listing: {OWN_RESOURCE_LISTINGS[f.qn]}', repo.loc(f.mod, c), kind='reasoned-exception')
            else:
                verdict, why = classify_use(repo, sf, f, c)
                if verdict != 'ok' and 'returned' in why:
                    # the listing (or a list built from it) is what the function returns: judged where the callers consume it
                    sites = [(g, cc) for g in repo.funcs.values() if '.test' not in g.mod.name for cc in calls_in(g, lambda cc: call_name(cc) == f.name)]
                    res = [classify_use(repo, sf, g, cc) for g, cc in sites]
                    if sites and all(v == 'ok' for v, _w in res):
                        verdict, why = 'ok', 'returned; every caller sorts it or consumes it order-insensitively: ' + '; '.join(sorted({w for _v, w in res}))[:120]
                    elif sites:
                        badsite = next((g, cc) for (g, cc), (v, _w) in zip(sites, res) if v != 'ok')
                        why = f'returned to {badsite[0].qn}, which uses it in listing order'
                chk.ob('R18.2', key, verdict == 'ok',
                       why if verdict == 'ok' else 'directory listing used in file-system order (not sorted): the analysis order of '
                       'modules - and with it duplicate handling and page content - depends on the file system', repo.loc(f.mod, c))
    chk.require('R18.2', 5)
    ap = repo.func('pydoctor.model.System.addPackage')
    if not any(call_name(c) == 'iterdir' for c in calls_in(ap)):
        chk.error('R18.2: System.addPackage no longer lists the package directory with iterdir(): re-confirm the traversal rule')

    # ------------------------------------------------------------------ R18.3
    n_clock = 0
    for f in repo.funcs.values():
        if f.mod.name.startswith('pydoctor.sphinx_ext'):
            continue
        for c in calls_in(f):
            d = dotted(c.func) or ''
            res = repo.resolve(f.mod, d, f) if d else None
            full = res[1] if res and res[0] == 'ext' else ''
            if full not in CLOCK:
                continue
            n_clock += 1
            ok, why = _clock_use(repo, f, c)
            chk.ob('R18.3', f'{f.qn} :: {norm(c)}', ok, why, repo.loc(f.mod, c))
    # the time ZONE of the machine is an input nobody listed: a timestamp (SOURCE_DATE_EPOCH) must be converted zone-independently
    # (utcfromtimestamp, or fromtimestamp with an explicit tz); strftime of a naive local time differs between build hosts
    n_ts = 0
    for f in sorted(repo.funcs.values(), key=lambda f: f.qn):
        if '.test' in f.mod.name or f.mod.name.startswith('pydoctor.sphinx_ext'):
            continue
        for c in calls_in(f, lambda c: call_name(c) in ('fromtimestamp', 'utcfromtimestamp', 'localtime', 'mktime')):
            n_ts += 1
            nm = call_name(c)
            tz = len(c.args) >= 2 or any(k.arg == 'tz' for k in c.keywords)
            okz = nm == 'utcfromtimestamp' or (nm == 'fromtimestamp' and tz)
            chk.ob('R18.3', f'{f.qn} :: {norm(c.func)}(...) does not depend on the time zone of the host', okz,
                   'UTC / explicit zone' if okz else
                   f'`{norm(c)[:60]}` converts through the local time zone: with the same SOURCE_DATE_EPOCH the build time in every page footer differs between '
                   'hosts whose TZ differs', repo.loc(f.mod, c))
    if n_ts < 1:
        raise AnalysisError('R18.3: no timestamp conversion found (driver.get_system converts SOURCE_DATE_EPOCH)')
    # docutils has a clock of its own: the `date` directive (usually `.. |today| date::`) formats the wall-clock time, and it ignores
    # SOURCE_DATE_EPOCH.  The reST parser must replace it (or hand it System.buildtime)
    rmod = repo.mod('pydoctor.epydoc.markup.restructuredtext')
    regs = {a.value for n in ast.walk(rmod.tree) if isinstance(n, ast.Call) and call_name(n) == 'register_directive' and n.args
            for a in n.args[:1] if isinstance(a, ast.Constant) and isinstance(a.value, str)}
    chk.stats['rst_directives_registered'] = sorted(regs)
    if len(regs) < 3:
        raise AnalysisError(f'R18.3: only {len(regs)} register_directive() calls found in the reST parser module')
    chk.ob('R18.3', 'epydoc.markup.restructuredtext :: the docutils `date` directive does not read the wall clock', 'date' in regs,
           'replaced by a directive registered by pydoctor' if 'date' in regs else
           'docutils\' own `date` directive stays active: a docstring with `.. |generated| date:: %H:%M:%S` puts the current time into the page and the '
           'search index; --buildtime / SOURCE_DATE_EPOCH do not reach it, two otherwise identical runs differ', rmod.relpath)
    chk.require('R18.3', 5)
    # buildtime is overridden before any page is built
    gs = repo.func('pydoctor.driver.get_system')
    from ..util import scope_nodes, private_helper_of
    writes = [n for n in scope_nodes(repo, gs) if isinstance(n, ast.Assign) and any(isinstance(t, ast.Attribute) and t.attr == 'buildtime' for t in n.targets)]
    env = [w for w in writes if 'SOURCE_DATE_EPOCH' in norm(w.value)]
    opt = [w for w in writes if 'options.buildtime' in norm(w.value) or 'buildtime' in norm(w.value) and 'strptime' in norm(w.value)]
    chk.ob('R18.3', 'pydoctor.driver.get_system :: SOURCE_DATE_EPOCH and --buildtime override the clock', bool(env) and bool(opt),
           'system.buildtime assigned from SOURCE_DATE_EPOCH and from options.buildtime' if env and opt else
           'an override of system.buildtime is missing', gs.loc)
    main = repo.func('pydoctor.driver.main')
    cfgm = CFG(main)
    c_gs = [c for c in calls_in(main) if call_name(c) == 'get_system']
    c_mk = [c for c in calls_in(main) if call_name(c) == 'make']
    ok = bool(c_gs) and bool(c_mk) and cfgm.dominates(cfgm.stmt_of(c_gs[0]), cfgm.stmt_of(c_mk[0]))
    chk.ob('R18.3', 'pydoctor.driver.main :: build time fixed before output is produced', ok,
           'get_system(...) dominates make(...)' if ok else 'make() can run before get_system() fixed the build time', main.loc)
    for f in repo.funcs.values():
        for n in f.walk():
            if isinstance(n, (ast.Assign, ast.AnnAssign)):
                tgts = n.targets if isinstance(n, ast.Assign) else [n.target]
                for t in tgts:
                    if isinstance(t, ast.Attribute) and t.attr == 'buildtime' and f.qn not in (
                            'pydoctor.driver.get_system', 'pydoctor.model.System.__init__') and not f.mod.name.startswith('pydoctor.sphinx_ext') and \
                            not private_helper_of(repo, f, 'pydoctor.driver.get_system'):
                        chk.ob('R18.3', f'{f.qn} :: writes buildtime', False, 'buildtime written outside System.__init__/driver.get_system',
                               repo.loc(f.mod, n))

    # ------------------------------------------------------------------ R18.4
    n_open = 0
    for f in repo.funcs.values():
        if not (f.mod.name.startswith('pydoctor.templatewriter') or f.mod.name == 'pydoctor.sphinx'):
            continue
        for c in calls_in(f, lambda c: call_name(c) == 'open'):
            mode = None
            if isinstance(c.func, ast.Name):
                if len(c.args) >= 2:
                    mode = c.args[1]
            else:
                if c.args:
                    mode = c.args[0]
            for kw in c.keywords:
                if kw.arg == 'mode':
                    mode = kw.value
            m = mode.value if isinstance(mode, ast.Constant) and isinstance(mode.value, str) else None
            if m is None or 'r' in m and 'w' not in m and '+' not in m:
                if m is None and mode is None:
                    continue   # default mode 'r': a read
                if m is not None:
                    continue
            n_open += 1
            ok = m is not None and m.startswith('w')
            chk.ob('R18.4', f'{f.qn} :: {norm(c)[:50]}', ok,
                   f'truncating mode {m!r}' if ok else f'output opened with mode {norm(mode) if mode is not None else "?"}: a reused output '
                   'directory keeps old bytes', repo.loc(f.mod, c))
    chk.require('R18.4', 4)
    ws = repo.func('pydoctor.templatewriter.writer.TemplateWriter.writeSummaryPages')
    sy = [c for c in calls_in(ws) if call_name(c) == 'symlink_to']
    ul = [c for c in calls_in(ws) if call_name(c) == 'unlink']
    if not sy:
        chk.error('R18.4: symlink_to call not found in writeSummaryPages')
    else:
        cfgw = CFG(ws)
        ok = bool(ul) and norm(ul[0].func.value) == norm(sy[0].func.value) and cfgw.dominates(cfgw.stmt_of(ul[0]), cfgw.stmt_of(sy[0]), no_exc=True)  # type: ignore[attr-defined]
        chk.ob('R18.4', 'TemplateWriter.writeSummaryPages :: symlink replaced', ok,
               'the old link is unlinked before symlink_to on every path' if ok else
               'symlink_to without removing a link left by the previous run (FileExistsError / stale target)', repo.loc(ws.mod, sy[0]))
        # the name of the symlink: list(root_names)[0] under len == 1
    chk.stats['clock_reads'] = n_clock
    chk.stats['directory_listings'] = n_list
    chk.stats['output_opens'] = n_open


def _clock_use(repo: Repo, f: Func, c: ast.Call) -> Tuple[bool, str]:
    """The clock value only reaches <x>.buildtime or arguments of a logging call."""
    def in_log_call(n: ast.AST) -> bool:
        for p in parents(n):
            if isinstance(p, ast.Call) and call_name(p) in ('msg', 'print', 'warn', 'info', 'debug', 'error', 'warning', 'progress') and n is not p:
                return True
            if isinstance(p, ast.stmt):
                return False
        return False
    st = c
    while not isinstance(st, ast.stmt):
        st = st._parent  # type: ignore[attr-defined]
    if in_log_call(c):
        return True, 'only used inside a log message'
    if isinstance(st, ast.Assign):
        tg = st.targets[0]
        if isinstance(tg, ast.Attribute) and tg.attr == 'buildtime':
            return True, 'stored in buildtime (overridden by SOURCE_DATE_EPOCH / --buildtime)'
        if isinstance(tg, ast.Name):
            uses = [n for n in f.walk() if isinstance(n, ast.Name) and n.id == tg.id and isinstance(n.ctx, ast.Load)]
            if all(in_log_call(u) for u in uses):
                return True, f'`{tg.id}` is only used inside log messages ({len(uses)} use(s))'
            bad = [u for u in uses if not in_log_call(u)][0]
            return False, f'clock value `{tg.id}` reaches `{norm(_stmt(bad))[:60]}` which is not a log message'
    return False, f'clock value used in `{norm(st)[:60]}`: may reach the output'


def _stmt(n: ast.AST) -> ast.AST:
    while not isinstance(n, ast.stmt):
        n = n._parent  # type: ignore[attr-defined]
    return n
