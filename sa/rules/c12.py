"""
C12 - hidden objects leave no trace; private objects are always marked private.
  R12.1 link choke point: every read of <Documentable>.url is page context or visibility guarded; internal hrefs are only
        built in linker.taglink, behind a visibility test whose failing branch returns a non-link
  R12.2 listing producers: every enumeration of model objects in the writers filters on visibility
  R12.3 visibility inherits from containers
  R12.4 private marker present at every listing-entry constructor (in the function or the private helpers it builds its entries in); a class string that is
        RETURNED has had the privacy decision on every returning path
  R12.5 generated mentions: the class index files a class under the written name of a base only when that base is not a documented object;
        the "overrides" note is only produced for a visible member; "from <interface>", "(via ...)" and the documented/total counts of an
        undocumented container only name or count visible objects
Does not decide: textual mentions of a hidden name, CSS/JS behaviour of the toggle.
"""
from __future__ import annotations

import ast
from typing import Dict, List, Optional, Set, Tuple

from ..core import AnalysisError, Cls, Func, Repo, dotted, norm, parents
from ..cfg import CFG
from ..guards import UseGuard, early_exit_guard_param, implies_attr
from ..report import Check
from ..util import call_name, calls_in, impl_funcs

DOC = 'pydoctor.model.Documentable'
SCOPE_PREFIXES = ('pydoctor.templatewriter', 'pydoctor.sphinx')

PRIMARY_ATTRS = {'rootobjects', 'subclasses', 'baseobjects', 'implementedby_directly', 'constructors'}
PRIMARY_CALLS = {'objectsOfType', 'mro', 'allbases', 'docsources', 'inherited_members'}
WRAPPERS = {'sorted', 'reversed', 'list', 'tuple', 'set', 'frozenset', 'iter'}

# loops that enumerate model objects without producing output for them, with the reason (keyed by function + iterable)
NOT_A_LISTING: Dict[Tuple[str, str], str] = {
    ('pydoctor.templatewriter.summary.isClassNodePrivate', 'cls.subclasses'):
        'computes a boolean (are all subclasses private) - no output per element',
    ('pydoctor.templatewriter.util.unmasked_attrs', 'b.contents.values()'):
        'collects member *names* of the derived classes to decide masking; the listing itself is the filtered comprehension below',
    ('pydoctor.templatewriter.summary.hasdocstring', 'ob.docsources()'):
        'computes a boolean (has a docstring)',
    ('pydoctor.templatewriter.pages.format_class_signature', 'cls.baseobjects'):
        'the base object only contributes its qualified name to the refmap of the colorizer; the link itself is made by the '
        'linker through taglink (choke point, R12.1)',
    ('pydoctor.templatewriter.pages.ZopeInterfaceClassPage.interfaceMeth', 'io.mro()'):
        'looks a member up along the interface MRO; its only consumer (objectExtras) uses it as the taglink target (R12.1)',
}

# (function, variable) pairs that build one listing entry and must carry the private marker
# listing-entry constructors and how many private-marker emissions each contains today (confirmed by reading):
# one per kind of entry the function builds (moduleSummary: the module row and the compact sub-module spans;
# LetterElement.names: the name item and the per-object sub-item)
MARKER_SITES = {
    'pydoctor.templatewriter.util.css_class': 1,
    'pydoctor.templatewriter.summary.moduleSummary': 2,
    'pydoctor.templatewriter.summary.subclassesFrom': 1,
    'pydoctor.templatewriter.summary.LetterElement.names': 2,
    'pydoctor.templatewriter.pages.sidebar.ContentItem.class_': 1,
    'pydoctor.templatewriter.search.get_all_documents_flattenable': 1,
}


def _is_doc_type(repo: Repo, t) -> bool:
    for a in t:
        if a[0] == 'inst' and a[1] in repo.classes and repo.is_subclass(repo.classes[a[1]], DOC):
            return True
    return False


def _in_scope(f: Func) -> bool:
    return f.mod.name.startswith(SCOPE_PREFIXES)


def _unwrap(e: ast.AST) -> List[Tuple[ast.AST, Optional[int]]]:
    """Strip order/representation wrappers; returns (component, tuple position in the loop target or None)."""
    if isinstance(e, ast.Call):
        nm = call_name(e)
        if nm in WRAPPERS and e.args:
            return _unwrap(e.args[0])
        if nm == 'enumerate' and e.args:
            return [(c, 1 if pos is None else pos) for c, pos in _unwrap(e.args[0])][:1] and \
                [(c, ('enum', pos)) for c, pos in _unwrap(e.args[0])]  # type: ignore[list-item]
        if nm == 'zip':
            out = []
            for i, a in enumerate(e.args):
                for c, pos in _unwrap(a):
                    out.append((c, ('zip', i)))
            return out  # type: ignore[return-value]
        if nm == 'filter' and len(e.args) == 2:
            return [(e, None)]
        if nm == 'chain':
            out2 = []
            for a in e.args:
                out2.extend(_unwrap(a))
            return out2
    return [(e, None)]


def _is_primary(repo: Repo, f: Func, e: ast.AST) -> Optional[str]:
    if isinstance(e, ast.Attribute) and e.attr in PRIMARY_ATTRS:
        t = repo.type_of(e.value, f)
        if not t or any(a[0] == 'inst' and a[1] in repo.classes for a in t):
            return norm(e)
    if isinstance(e, ast.Call):
        nm = call_name(e)
        if nm in ('values', 'items') and isinstance(e.func, ast.Attribute) and isinstance(e.func.value, ast.Attribute) \
                and e.func.value.attr in ('contents', 'allobjects'):
            return norm(e)
        if nm in PRIMARY_CALLS:
            return norm(e)
    if isinstance(e, ast.Name):
        # Iterable[Documentable] parameter of a writer entry point
        if f.cls is not None and e.id in [p.arg for p in f.params()]:
            t = repo.locals_of(f).get(e.id, frozenset())
            if any(a[0] == 'seq' and _is_doc_type(repo, a[1]) for a in t):
                exts = ' '.join(repo.ext_bases(f.cls)) + ' '.join(k.name for k in repo.mro(f.cls))
                if 'IWriter' in exts or f.cls.name == 'SphinxInventoryWriter':
                    return f'parameter {e.id}'
    return None


def _targets(target: ast.AST, pos) -> List[str]:
    """Names of the loop target that receive elements of the component at `pos`."""
    if pos is None:
        if isinstance(target, ast.Name):
            return [target.id]
        if isinstance(target, (ast.Tuple, ast.List)):
            # e.g. `for k, v in d.items()` -> the value
            last = target.elts[-1]
            return [last.id] if isinstance(last, ast.Name) else []
        return []
    kind, i = pos
    if kind == 'enum':
        if isinstance(target, (ast.Tuple, ast.List)) and len(target.elts) == 2:
            return _targets(target.elts[1], i)
        return []
    if kind == 'zip':
        if isinstance(target, (ast.Tuple, ast.List)) and i < len(target.elts):
            return _targets(target.elts[i], None)
    return []


def _scope_nodes(loop: ast.AST) -> List[ast.AST]:
    if isinstance(loop, (ast.For, ast.AsyncFor)):
        return list(loop.body)
    # comprehension: the element expression(s) + ifs + later generators of the enclosing comprehension
    comp = loop._parent  # type: ignore[attr-defined]
    out: List[ast.AST] = []
    gens = comp.generators
    idx = gens.index(loop)
    out.extend(loop.ifs)
    for g in gens[idx + 1:]:
        out.append(g.iter)
        out.extend(g.ifs)
    if isinstance(comp, ast.DictComp):
        out.extend([comp.key, comp.value])
    else:
        out.append(comp.elt)
    return out


def _flows_to(repo: Repo, f: Func, use: ast.AST, consumer: str) -> bool:
    """The use sits in an expression passed (directly or through one local name) to a call of `consumer`."""
    node = use
    for p in parents(use):
        if isinstance(p, ast.Call) and call_name(p) == consumer and node is not p.func:
            return True
        if isinstance(p, ast.stmt):
            if isinstance(p, ast.Assign) and len(p.targets) == 1 and isinstance(p.targets[0], ast.Name):
                nm = p.targets[0].id
                uses = [n for n in f.walk() if isinstance(n, ast.Name) and n.id == nm and isinstance(n.ctx, ast.Load)]
                if uses and all(_direct_arg_of(u, consumer) or _truth_test_only(u) for u in uses) and \
                        any(_direct_arg_of(u, consumer) for u in uses):
                    return True
            return False
        node = p
    return False


def _direct_arg_of(u: ast.AST, consumer: str) -> bool:
    p = getattr(u, '_parent', None)
    if isinstance(p, ast.keyword):
        p = getattr(p, '_parent', None)
    return isinstance(p, ast.Call) and call_name(p) == consumer and u is not p.func


def _truth_test_only(u: ast.AST) -> bool:
    p = getattr(u, '_parent', None)
    return isinstance(p, (ast.If, ast.While, ast.IfExp)) and p.test is u


def run(repo: Repo, chk: Check, thorough: bool = False) -> None:
    chk.explanation = ('who-may-read/guard rules on the syntax and CFG of the writers: classification of every Documentable.url read and '
                       'every href= value (R12.1), visibility guard on every primary enumeration of model objects in the listing '
                       'producers (R12.2), recursion of isVisible into the parent (R12.3), private marker at every listing entry (R12.4)')
    chk.assumptions = [
        'pages and child blocks are only created for visible objects (checked by R12.2 on _writeDocsFor / CommonPage.methods)',
        'twisted.web.template renders only what the producers return; templates contain no object enumeration of their own',
        'textual mentions of a hidden name (label of a suppressed link, external base in the class index) are not decided',
    ]
    guarding: Dict[str, List[str]] = {}
    for g in repo.funcs.values():
        ps = early_exit_guard_param(repo, g)
        if ps:
            guarding[g.qn] = ps
    chk.stats['visibility_guarding_functions'] = sorted(guarding)

    # ------------------------------------------------------------------ R12.1 (a) url reads
    taglink = repo.func('pydoctor.linker.taglink')
    n_url = 0
    for f in repo.funcs.values():
        if f.mod.name == 'pydoctor.model':
            continue
        ug = UseGuard(repo, f)
        for n in f.walk():
            if not (isinstance(n, ast.Attribute) and n.attr == 'url' and isinstance(n.ctx, ast.Load)):
                continue
            if not _is_doc_type(repo, repo.type_of(n.value, f)):
                continue
            n_url += 1
            recv = dotted(n.value) or norm(n.value)
            key = f'{f.qn} :: {norm(n)}'
            loc = repo.loc(f.mod, n)
            # page context: X.page_object.url, or used as the page_url argument of taglink, or the linker's own page_url
            if recv.endswith('.page_object') or (isinstance(n.value, ast.Name) and
                                                 _assigned_from_page_object(f, n.value.id)):
                chk.ob('R12.1', key, True, 'page context (url of the page being rendered)', loc, kind='page-context')
                continue
            par = getattr(n, '_parent', None)
            if isinstance(par, ast.keyword):
                par_call = getattr(par, '_parent', None)
                is_page_arg = par.arg == 'page_url'
            else:
                par_call = par
                is_page_arg = isinstance(par, ast.Call) and len(par.args) >= 2 and par.args[1] is n
            if isinstance(par_call, ast.Call) and call_name(par_call) == 'taglink' and is_page_arg:
                chk.ob('R12.1', key, True, 'page_url argument of taglink (context, not a link target)', loc, kind='page-context')
                continue
            var = recv
            if ug.guarded(n, var):
                chk.ob('R12.1', key, True, f'dominated by a visibility test of {var}', loc, kind='guarded')
                continue
            # parameter guarded at every call site
            if isinstance(n.value, ast.Name) and n.value.id in [p.arg for p in f.params()]:
                ok_all, why = _callers_guard(repo, f, n.value.id)
                if ok_all:
                    chk.ob('R12.1', key, True, why, loc, kind='guarded-at-call-sites')
                    continue
            chk.ob('R12.1', key, False,
                   f'the URL of documentable `{var}` is read without a visibility test: a hidden object can be linked / recorded',
                   loc, kind='unguarded')
    chk.require('R12.1', 9)

    # ------------------------------------------------------------------ R12.1 (b) href census
    for f in repo.funcs.values():
        for c in calls_in(f):
            for kw in c.keywords:
                if kw.arg != 'href':
                    continue
                key = f'{f.qn} :: href={norm(kw.value)[:50]}'
                loc = repo.loc(f.mod, c)
                bad = _foreign_object_names(repo, f, kw.value)
                if f is taglink:
                    ug = UseGuard(repo, f)
                    o = f.params()[0].arg
                    ok = ug.guarded(c, o)
                    chk.ob('R12.1', key + ' :: behind visibility test', ok,
                           'the <a href> construction is dominated by a visibility test whose failing branch leaves' if ok else
                           'taglink builds the <a href> also for hidden targets (the visibility test does not exit)', loc)
                    continue
                chk.ob('R12.1', key, not bad,
                       'href value is constant / option / own object / guarded url' if not bad else
                       f'href built by hand from another object\'s name or url ({", ".join(bad)}) outside linker.taglink', loc)
    # the failing branch of taglink returns a non-link
    # (on the CFG, so that `if not o.isVisible: return X` and `if o.isVisible: ... else: ...` are the same thing): from the false edge of the
    # visibility test no construction with an href is reachable, and the function still returns something (every return has a value)
    rets = [n for n in taglink.walk() if isinstance(n, ast.Return)]
    cft = CFG(taglink)
    o_ = taglink.params()[0].arg
    def _plain_vis(t: ast.AST) -> Optional[bool]:
        """polarity of the edge on which `o.isVisible` is FALSE, for a test that is exactly the attribute or its negation"""
        neg = False
        while isinstance(t, ast.UnaryOp) and isinstance(t.op, ast.Not):
            t, neg = t.operand, not neg
        if isinstance(t, ast.Attribute) and t.attr == 'isVisible' and isinstance(t.value, ast.Name) and t.value.id == o_:
            return neg          # `if o.isVisible`: hidden on the False edge; `if not o.isVisible`: hidden on the True edge
        return None
    hrefs = [cft.stmt_of(c) for c in calls_in(taglink) if any(k.arg == 'href' for k in c.keywords)]
    reach_h: Set[int] = set()
    for nid, edges in cft.succ.items():
        for (t, l, k) in edges:
            if l is not None and _plain_vis(l[0]) is not None and l[1] == _plain_vis(l[0]):
                reach_h |= cft.reachable(t, no_exc=True)
    ok = bool(reach_h) and not any(id(h) in reach_h for h in hrefs) and bool(rets) and all(r.value is not None for r in rets) and id(cft.EXIT) in reach_h
    chk.ob('R12.1', 'pydoctor.linker.taglink :: hidden target yields a non-link', ok,
           'the hidden-target branch returns a tag without href' if ok else
           'no early return of a non-link for hidden targets in taglink', taglink.loc)

    # ------------------------------------------------------------------ R12.2 listing producers
    n_enum = 0
    for f in repo.funcs.values():
        if not _in_scope(f):
            continue
        if f.cls is not None and f.mod.name == 'pydoctor.sphinx' and f.cls.name != 'SphinxInventoryWriter':
            continue
        ug = UseGuard(repo, f)
        for n in f.walk():
            if isinstance(n, (ast.For, ast.AsyncFor, ast.comprehension)):
                it = n.iter
                comps = _unwrap(it)
                # one level of local indirection: `subclasses = sorted(self.ob.subclasses)` ; for o in subclasses
                if len(comps) == 1 and isinstance(comps[0][0], ast.Name) and not _is_primary(repo, f, comps[0][0]):
                    vals = [a.value for a in f.walk() if isinstance(a, ast.Assign) and len(a.targets) == 1 and
                            isinstance(a.targets[0], ast.Name) and a.targets[0].id == comps[0][0].id]
                    if len(vals) == 1:
                        comps = _unwrap(vals[0])
                for comp, pos in comps:
                    src = _is_primary(repo, f, comp)
                    if src is None:
                        continue
                    names = _targets(n.target, pos)
                    key = f'{f.qn} :: for {",".join(names) or norm(n.target)} in {src}'
                    loc = repo.loc(f.mod, n.iter)
                    n_enum += 1
                    reason = NOT_A_LISTING.get((f.qn, src))
                    if reason is not None:
                        chk.ob('R12.2', key, True, f'not a listing: {reason}', loc, kind='reasoned-exception')
                        continue
                    if not names:
                        chk.ob('R12.2', key, True, 'loop variable unused', loc, kind='unused')
                        continue
                    bad_uses: List[str] = []
                    how: Set[str] = set()
                    for v in names:
                        tracked = {v}
                        for scope in _scope_nodes(n):
                            for u in ast.walk(scope):
                                if isinstance(u, ast.Assign) and len(u.targets) == 1 and isinstance(u.targets[0], ast.Name) \
                                        and _derives_member(u.value, tracked):
                                    tracked.add(u.targets[0].id)
                        for scope in _scope_nodes(n):
                            for u in ast.walk(scope):
                                if not (isinstance(u, ast.Name) and u.id in tracked and isinstance(u.ctx, ast.Load)):
                                    continue
                                verdict = _use_ok(repo, f, ug, u, u.id, guarding)
                                if verdict is None:
                                    st = u
                                    while not isinstance(st, (ast.stmt, ast.comprehension)) and getattr(st, '_parent', None) is not None \
                                            and st is not scope:
                                        st = st._parent  # type: ignore[attr-defined]
                                    bad_uses.append(f'{norm(st)[:70]} (line {u.lineno})')
                                else:
                                    how.add(verdict)
                    chk.ob('R12.2', key, not bad_uses,
                           f'every use is guarded: {", ".join(sorted(how)) or "no use"}' if not bad_uses else
                           f'objects enumerated from {src} are used without a visibility test: {bad_uses[0]}' +
                           (f' (+{len(bad_uses) - 1} more)' if len(bad_uses) > 1 else ''), loc)
    chk.stats['primary_enumerations'] = n_enum
    chk.require('R12.2', 20)

    # ------------------------------------------------------------------ R12.3 visibility inherits
    iv = repo.func('pydoctor.model.Documentable.isVisible')
    hidden_cmp = [n for n in iv.walk() if isinstance(n, ast.Compare) and 'HIDDEN' in norm(n)]
    parent_reads = [n for n in iv.walk() if isinstance(n, ast.Attribute) and n.attr == 'isVisible' and
                    (dotted(n.value) or '').endswith('parent')]
    rets = [n for n in iv.walk() if isinstance(n, ast.Return)]
    dep_ok = bool(rets)
    from ..util import excluded_by
    cfg_iv = CFG(iv)

    def _hidden_scn(e: ast.AST) -> Optional[bool]:          # the scenario "the own privacy class is HIDDEN"
        if isinstance(e, ast.Compare) and len(e.ops) == 1 and 'HIDDEN' in norm(e) and 'privacyClass' in norm(e):
            return isinstance(e.ops[0], (ast.Is, ast.Eq)) if isinstance(e.ops[0], (ast.Is, ast.Eq, ast.IsNot, ast.NotEq)) else None
        return None

    def _parent_scn(e: ast.AST) -> Optional[bool]:          # the scenario "the object has a parent"
        if isinstance(e, ast.Attribute) and e.attr == 'parent':
            return True
        if isinstance(e, ast.Compare) and len(e.ops) == 1 and isinstance(e.left, ast.Attribute) and e.left.attr == 'parent' and norm(e.comparators[0]) == 'None':
            return isinstance(e.ops[0], (ast.IsNot, ast.NotEq)) if isinstance(e.ops[0], (ast.Is, ast.Eq, ast.IsNot, ast.NotEq)) else None
        return None
    for r in rets:
        if isinstance(r.value, ast.Constant) and r.value.value is False:
            continue        # "not visible" needs no justification
        deps = _local_dependencies(iv, r.value)
        facts = cfg_iv.scenario_facts(r)
        # a value that may be True is either computed from the own privacy / the visibility of the parent, or returned where the scenario
        # "HIDDEN" / "has a parent" is impossible (guard clauses: `if self.privacyClass is HIDDEN: return False`)
        own = any(h in deps for h in hidden_cmp) or excluded_by(facts, _hidden_scn)
        par = any(p in deps for p in parent_reads) or excluded_by(facts, _parent_scn)
        if not (own and par):
            dep_ok = False
    chk.ob('R12.3', 'pydoctor.model.Documentable.isVisible :: own privacy and parent visibility', dep_ok and bool(hidden_cmp) and bool(parent_reads),
           'every returned value depends on the HIDDEN comparison and on parent.isVisible' if dep_ok else
           'isVisible no longer combines the own privacy class with the visibility of the parent', iv.loc)
    # no subclass overrides isVisible
    for c in repo.all_subclasses(repo.cls(DOC)):
        if 'isVisible' in c.methods:
            chk.ob('R12.3', f'{c.qn}.isVisible :: override', False, 'isVisible overridden in a subclass: inheritance of hiding not checked', c.loc)
    chk.require('R12.3', 1)

    # ... a property's setter and deleter are documented as siblings named `<property>.setter` / `<property>.deleter` (astbuilder renames them so that they
    # do not replace the property): they are parts of the attribute the user hides, a pattern for `pkg.C.token` does not match them and `*` does not
    # span the dot - privacyClass has to make them at most as visible as the property
    pc_ = repo.func('pydoctor.model.System.privacyClass')
    acc = any(isinstance(x, ast.Constant) and x.value in ('setter', 'deleter') for x in pc_.walk()) and \
        any(call_name(c) == 'privacyClass' for c in calls_in(pc_))
    chk.ob('R12.3', 'pydoctor.model.System.privacyClass :: the accessors of a property are never more visible than the property', acc,
           'the privacy of `<x>.setter` / `<x>.deleter` is capped by the privacy of `<x>`' if acc else
           '`--privacy=HIDDEN:pkg.mod.C.token` removes the getter only: the page keeps anchors, table rows, detail blocks and sidebar items for `token.setter` and '
           '`token.deleter`; nameIndex, search indexes and objects.inv list them; with PRIVATE: they carry no marker', pc_.loc)
    # ------------------------------------------------------------------ R12.4 private marker
    for q, want in MARKER_SITES.items():
        f = repo.func(q)
        # (the listing function with the private helpers it builds its entries in: `ul(_compactModulesItem(contents))`)
        sites = [s_ for g_ in impl_funcs(repo, f, depth=2) for s_ in _private_marker_sites(g_)]
        chk.ob('R12.4', f'{q} :: private marker at every entry it builds', len(sites) >= want,
               f'{len(sites)} emission(s): ' + '; '.join(sites)[:200] if len(sites) >= want else
               f'{len(sites)} privacy-guarded emission(s) of the private marker, {want} kinds of listing entry are built here: a private object is '
               f'listed without the marker the public/private toggle relies on ({"; ".join(sites)[:160]})', f.loc)
    # where the marker is part of a class string the function RETURNS (a `class_` renderer), it has to be decided on every path that returns: each
    # return value depends on the privacy test (data or control), or the return sits behind it.  `if child is documented: return "thisobject"` placed
    # before the privacy decision answers for a private object without the marker - whichever way the marker itself is spelled
    def _is_priv_node(n_: ast.AST) -> bool:
        return (isinstance(n_, ast.Attribute) and n_.attr in ('isPrivate', 'privacyClass')) or \
            (isinstance(n_, ast.Call) and call_name(n_) in ('isPrivate', 'isClassNodePrivate'))
    n_ret = 0
    for q in sorted(MARKER_SITES):
        f = repo.func(q)
        ann = getattr(f.node, 'returns', None)
        if not (ann is not None and norm(ann) == 'str'):
            continue
        cf_m = CFG(f)
        for r in [x for x in f.walk() if isinstance(x, ast.Return) and x.value is not None]:
            n_ret += 1
            deps = _local_dependencies(f, r.value)
            decided = any(_is_priv_node(d_) for d_ in deps) or any(any(_is_priv_node(x_) for x_ in ast.walk(t_)) for t_, _ in cf_m.scenario_facts(r))
            chk.ob('R12.4', f'{q} :: every returned class string has had the privacy decision', decided,
                   f'`{norm(r)[:50]}` depends on the privacy test' if decided else
                   f'`{norm(r)[:60]}` returns before / without the privacy test: the entry of a private object that takes this path carries no `private` marker '
                   '(e.g. the sidebar item of the documented object itself)', repo.loc(f.mod, r))
    chk.stats['marker_return_sites'] = n_ret
    # the table above was confirmed by hand; this part is derived: every function of the writer that builds a list item / row / block
    # around a taglink(...) is building listing entries and must emit the marker too
    for f in sorted(repo.funcs.values(), key=lambda f: f.qn):
        if not f.mod.name.startswith('pydoctor.templatewriter') or f.qn in MARKER_SITES:
            continue
        entries = [c for c in calls_in(f) if isinstance(c.func, ast.Attribute) and norm(c.func.value) == 'tags' and c.func.attr in ('li', 'tr', 'td', 'div', 'span') and
                   any(isinstance(x, ast.Call) and call_name(x) == 'taglink' for x in ast.walk(c))]
        # ... or fills one clone of a template element per object (`tag.clone().fillSlots(root=<link to o>)` in a loop over model objects)
        clones = {t.id for a in f.walk() if isinstance(a, ast.Assign) and isinstance(a.value, ast.Call) and call_name(a.value) == 'clone' for t in a.targets if isinstance(t, ast.Name)}
        entries += [c for c in calls_in(f) if call_name(c) == 'fillSlots' and (any(isinstance(x, ast.Call) and call_name(x) == 'clone' for x in ast.walk(c.func)) or
                                                                            any(isinstance(x, ast.Name) and x.id in clones for x in ast.walk(c.func))) and
                    any(isinstance(x, ast.Call) and call_name(x) == 'taglink' for k in c.keywords for x in ast.walk(k.value)) and
                    any(isinstance(p_, (ast.For, ast.comprehension)) for p_ in parents(c))]
        if not entries:
            continue
        sites = _private_marker_sites(f)
        chk.ob('R12.4', f'{f.qn} :: private marker at every entry it builds', bool(sites),
               '; '.join(sites)[:200] if sites else
               f'`{norm(entries[0])[:70]}` builds an entry per object but never adds the private marker: on this page the "Toggle Private API" button cannot '
               'hide the private objects', repo.loc(f.mod, entries[0]))
    # the marker goes on the entry OF THE OBJECT THAT WAS TESTED: `if isPrivate(X): entry(class_='private')` where `entry` was built from a loop
    # variable - X must be that loop variable, not a variable left over from an earlier loop
    n_subj = 0
    for f in sorted(repo.funcs.values(), key=lambda f: f.qn):
        if not f.mod.name.startswith('pydoctor.templatewriter'):
            continue
        for n in f.walk():
            if not isinstance(n, ast.If):
                continue
            subj = None
            t = n.test
            if isinstance(t, ast.Call) and call_name(t) in ('isPrivate', 'isClassNodePrivate') and t.args and isinstance(t.args[0], ast.Name):
                subj = t.args[0].id
            elif isinstance(t, ast.Attribute) and t.attr == 'isPrivate' and isinstance(t.value, ast.Name):
                subj = t.value.id
            if subj is None:
                continue
            marks = [c for st in n.body for c in ast.walk(st) if isinstance(c, ast.Call) and isinstance(c.func, ast.Name) and
                     any(k.arg == 'class_' and isinstance(k.value, ast.Constant) and 'private' in str(k.value.value) for k in c.keywords)]
            for mk in marks:
                entry = mk.func.id      # type: ignore[attr-defined]
                loops_in = [p for p in parents(n) if isinstance(p, (ast.For, ast.comprehension)) and isinstance(p.target, ast.Name)]
                loopvars = {p.target.id for p in loops_in}    # type: ignore[union-attr]
                builds = [a for a in f.walk() if isinstance(a, (ast.Assign, ast.AnnAssign)) and a.value is not None and
                          any(isinstance(tg, ast.Name) and tg.id == entry for tg in (a.targets if isinstance(a, ast.Assign) else [a.target]))]
                from_vars = {x.id for a in builds for x in ast.walk(a.value) if isinstance(x, ast.Name)} & loopvars
                if not from_vars:
                    continue
                n_subj += 1
                chk.ob('R12.4', f'{f.qn} :: the marker on `{entry}` is decided by the object the entry was built from', subj in from_vars,
                       f'isPrivate({subj}) for an entry built from {sorted(from_vars)}' if subj in from_vars else
                       f'the entry `{entry}` is built from {sorted(from_vars)} but the marker is decided by `{subj}`, a variable that is not the loop variable here: '
                       'a private object is listed without the marker (or a public one with it)', repo.loc(f.mod, n))
    chk.stats['marker_subject_sites'] = n_subj
    # a marker accumulated in a local variable must survive to the return: no plain re-assignment after it
    for q in sorted(MARKER_SITES):
        f = repo.func(q)
        for vname, marker_stmt in _marker_accumulators(f):
            cfg = CFG(f)
            after = cfg.reachable(marker_stmt, no_exc=True)
            kills = [n for n in f.walk() if isinstance(n, ast.Assign) and id(n) in after and n is not marker_stmt and
                     any(isinstance(t, ast.Name) and t.id == vname for t in n.targets) and
                     vname not in {x.id for x in ast.walk(n.value) if isinstance(x, ast.Name)}]
            chk.ob('R12.4', f'{q} :: marker kept in `{vname}`', not kills,
                   f'after the private marker is added to `{vname}` it is only extended, never overwritten' if not kills else
                   f'`{norm(kills[0])[:50]}` (line {kills[0].lineno}) overwrites `{vname}` after the private marker was added: the entry loses the marker',
                   repo.loc(f.mod, marker_stmt))
    chk.require('R12.4', 8)

    # ------------------------------------------------------------------ R12.5
    # classIndex.html: findRootClasses groups the classes whose base is not part of the documentation under the NAME of that base (external
    # library classes).  A hidden base is a documented object that must leave no row: a class may only be filed under `roots[<written name>]`
    # when the base object is None - `base is None or not base.isVisible` puts the qualified name of the hidden class on the page as a heading
    frc = repo.func('pydoctor.templatewriter.summary.findRootClasses')
    cff = CFG(frc)
    zl = [n for n in frc.walk() if isinstance(n, ast.For) and isinstance(n.iter, ast.Call) and call_name(n.iter) == 'zip' and isinstance(n.target, ast.Tuple) and
          len(n.target.elts) == 2 and all(isinstance(e, ast.Name) for e in n.target.elts) and any('bases' in norm(a) for a in n.iter.args)]
    if not zl:
        raise AnalysisError('R12.5: the loop over zip(cls.bases, cls.baseobjects) was not found in findRootClasses')
    nm_v, ob_v = zl[0].target.elts[0].id, zl[0].target.elts[1].id      # type: ignore[attr-defined]
    keyed = [n for n in zl[0].body for n in ast.walk(n) if (isinstance(n, ast.Subscript) and isinstance(n.ctx, ast.Store) and isinstance(n.slice, ast.Name) and n.slice.id == nm_v) or
             (isinstance(n, ast.Call) and call_name(n) == 'setdefault' and n.args and isinstance(n.args[0], ast.Name) and n.args[0].id == nm_v)]
    if not keyed:
        raise AnalysisError('R12.5: findRootClasses no longer files classes under the written name of a base')
    for k in keyed:
        facts = cff.dominating_tests(cff.stmt_of(k))
        only_ext = any(pol and isinstance(t, ast.Compare) and len(t.ops) == 1 and isinstance(t.ops[0], ast.Is) and norm(t.left) == ob_v and norm(t.comparators[0]) == 'None'
                       for t, pol in facts)
        chk.ob('R12.5', 'templatewriter.summary.findRootClasses :: a class is filed under the name of a base only when the base is not documented', only_ext,
               f'under `{ob_v} is None`' if only_ext else
               f'`{norm(k)[:50]}` is also reached for a base that is a hidden object: classIndex.html gets a top-level row `<li><code>pkg.hid.HBase</code>` naming the '
               'hidden class and listing who derives from it', repo.loc(frc.mod, k))
    # the "overrides X" note on a member: X is named by its qualified name (taglink keeps the label when it drops the link), so the note may only
    # be produced for a visible X - its sibling "overridden in ..." goes through assembleList, which filters
    goi = repo.func('pydoctor.templatewriter.pages.get_override_info')
    cfo = CFG(goi)
    notes = [c for c in calls_in(goi) if call_name(c) == 'taglink' and any(isinstance(x, ast.Constant) and isinstance(x.value, str) and 'overrides' in x.value
                                                                            for p_ in parents(c) if isinstance(p_, ast.Call) for x in ast.walk(p_))]
    if not notes:
        raise AnalysisError('R12.5: the "overrides" note of get_override_info was not found')
    for c in notes:
        subj = norm(c.args[0])
        vis = any(((pol and isinstance(t, ast.Attribute) and t.attr == 'isVisible') or
                   (not pol and isinstance(t, ast.UnaryOp) and isinstance(t.op, ast.Not) and isinstance(t.operand, ast.Attribute) and t.operand.attr == 'isVisible'))
                  for t, pol in cfo.dominating_tests(cfo.stmt_of(c))) or \
            any(isinstance(x, ast.Attribute) and x.attr == 'isVisible' for n_ in goi.walk() if isinstance(n_, ast.If) for x in ast.walk(n_.test)
                if any(isinstance(y, (ast.Continue, ast.Break, ast.Return)) for y in n_.body) and cfo.before(n_, c))
        chk.ob('R12.5', 'templatewriter.pages.get_override_info :: the "overrides" note names a visible member only', vis,
               f'`{subj}` is tested for visibility first' if vis else
               f'the note is produced whatever the privacy of `{subj}`: the page of the subclass prints `overrides <code>pkg.pub.Base.secret</code>` for a hidden method',
               repo.loc(goi.mod, c))
    # three more generated mentions (second hunter round): the note "from <interface>" of a method implementing an interface, the "(via X, Y)" chain
    # of an inherited-members table, and the "n/m methods documented" text of an undocumented class or module
    im_ = repo.func('pydoctor.templatewriter.pages.ZopeInterfaceClassPage.interfaceMeth')
    rets_ = [r for r in im_.walk() if isinstance(r, ast.Return) and r.value is not None and not (isinstance(r.value, ast.Constant) and r.value.value is None)]
    if not rets_:
        raise AnalysisError('R12.5: interfaceMeth returns nothing but None')
    cfi = CFG(im_)
    for r in rets_:
        okv = any(pol and isinstance(x, ast.Attribute) and x.attr == 'isVisible' and norm(x.value) == norm(r.value) for x, pol in cfi.dominating_tests(r))
        chk.ob('R12.5', 'templatewriter.pages.ZopeInterfaceClassPage.interfaceMeth :: only a visible declaration is named', okv,
               f'`{norm(r.value)}.isVisible` dominates the return' if okv else
               f'`{norm(r)}` hands back a hidden declaration too: the page of the implementing class prints `from <code>pkg.ifaces.ISecret</code>` for a hidden interface',
               repo.loc(im_.mod, r))
    bn_ = repo.func('pydoctor.templatewriter.pages.ClassPage.baseName')
    basesp = bn_.params()[1].arg
    sl_ = [n for n in bn_.walk() if isinstance(n, ast.Assign) and any(isinstance(x, ast.Subscript) and isinstance(x.slice, ast.Slice) and norm(x.value) == basesp and
                                                                     x.slice.lower is not None and x.slice.upper is not None for x in ast.walk(n.value))]
    if not sl_:
        raise AnalysisError('R12.5: the chain of intermediate classes (bases[1:-1]) was not found in ClassPage.baseName')
    for n in sl_:
        okv = any(isinstance(x, ast.Attribute) and x.attr == 'isVisible' for x in ast.walk(n.value))
        chk.ob('R12.5', 'templatewriter.pages.ClassPage.baseName :: the "(via ...)" chain names visible classes only', okv,
               f'`{norm(n.value)[:60]}`' if okv else
               f'`{norm(n)[:60]}` takes the intermediate classes of the linearisation unfiltered: "Inherited from Base (via Middle, <code>GlueImpl</code>)" names a hidden class',
               repo.loc(bn_.mod, n))
    fu_ = repo.func('pydoctor.epydoc2stan.format_undocumented')
    loops_ = [n for n in fu_.walk() if isinstance(n, ast.For) and 'contents' in norm(n.iter) and isinstance(n.target, ast.Name)]
    if not loops_:
        raise AnalysisError('R12.5: format_undocumented no longer loops over the contents of the object')
    for n in loops_:
        okv = any(isinstance(x, ast.Attribute) and x.attr == 'isVisible' and norm(x.value) == n.target.id for st in n.body for x in ast.walk(st)) or \
            any(isinstance(x, ast.Attribute) and x.attr == 'isVisible' for x in ast.walk(n.iter))
        chk.ob('R12.5', 'epydoc2stan.format_undocumented :: hidden members are not counted', okv,
               f'`{n.target.id}.isVisible` filters the members' if okv else
               'every member is counted: the row of an undocumented class says "3/4 methods documented" although its page shows two methods - the number of hidden members '
               'can be read off the summary', repo.loc(fu_.mod, n))
    chk.require('R12.5', 5)


# ----------------------------------------------------------------------------------------------------------
def _assigned_from_page_object(f: Func, name: str) -> bool:
    vals = [a.value for a in f.walk() if isinstance(a, ast.Assign) and any(isinstance(t, ast.Name) and t.id == name for t in a.targets)]

    def is_page(v: ast.AST) -> bool:
        if isinstance(v, ast.IfExp):
            return is_page(v.body) and is_page(v.orelse)
        return (dotted(v) or '').endswith('_page_object') or (dotted(v) or '').endswith('.page_object')
    return bool(vals) and all(is_page(v) for v in vals)


def _callers_guard(repo: Repo, f: Func, pname: str) -> Tuple[bool, str]:
    """Every call site of f passes, for pname, a variable that is visibility-guarded at that site."""
    ps = [p.arg for p in f.params()]
    idx = ps.index(pname)
    if f.cls is not None and f.outer is None and not f.is_static:
        idx -= 1
    sites = []
    for g in repo.funcs.values():
        for c in calls_in(g, lambda c: call_name(c) == f.name):
            sites.append((g, c))
    if not sites:
        return False, 'no call site found'
    for g, c in sites:
        arg = None
        for kw in c.keywords:
            if kw.arg == pname:
                arg = kw.value
        if arg is None and 0 <= idx < len(c.args):
            arg = c.args[idx]
        d = dotted(arg) if arg is not None else None
        if d is None or not UseGuard(repo, g).guarded(c, d):
            return False, f'call site {g.qn}:{c.lineno} passes an unguarded value'
    return True, f'guarded at all {len(sites)} call site(s): ' + ', '.join(sorted({g.qn for g, _ in sites}))


def _foreign_object_names(repo: Repo, f: Func, value: ast.AST) -> List[str]:
    """Sub-expressions of an href value that name/locate a documentable other than the element's own object."""
    bad: List[str] = []
    todo = [value]
    seen: Set[int] = set()
    while todo:
        e = todo.pop()
        for n in ast.walk(e):
            if isinstance(n, ast.Name) and isinstance(n.ctx, ast.Load) and id(n) not in seen:
                seen.add(id(n))
                for a in f.walk():
                    if isinstance(a, ast.Assign) and any(isinstance(t, ast.Name) and t.id == n.id for t in a.targets):
                        todo.append(a.value)
            if isinstance(n, ast.Attribute) and n.attr in ('url', 'name') or \
                    (isinstance(n, ast.Call) and call_name(n) == 'fullName'):
                recv = n.value if isinstance(n, ast.Attribute) else (n.func.value if isinstance(n.func, ast.Attribute) else None)
                if recv is None or not _is_doc_type(repo, repo.type_of(recv, f)):
                    continue
                d = dotted(recv) or norm(recv)
                if d.startswith('self.ob') or d == 'self':
                    continue
                if isinstance(n, ast.Attribute) and n.attr == 'url':
                    # guarded url reads are decided by R12.1(a)
                    if UseGuard(repo, f).guarded(n, d):
                        continue
                bad.append(norm(n))
    return bad


def _derives_member(value: ast.AST, tracked: Set[str]) -> bool:
    """x.contents[...] / x.contents.get(...) for a tracked x."""
    if isinstance(value, ast.Subscript):
        value = value.value
    elif isinstance(value, ast.Call) and isinstance(value.func, ast.Attribute) and value.func.attr == 'get':
        value = value.func.value
    else:
        return False
    return isinstance(value, ast.Attribute) and value.attr == 'contents' and isinstance(value.value, ast.Name) \
        and value.value.id in tracked


def _use_ok(repo: Repo, f: Func, ug: UseGuard, u: ast.Name, var: str, guarding: Dict[str, List[str]]) -> Optional[str]:
    par = getattr(u, '_parent', None)
    # membership / lookup in the contents of the object: neutral (derivations are tracked separately)
    if isinstance(par, ast.Attribute) and par.attr == 'contents':
        return 'member lookup'
    # `x is None` / `x is not None`: reads no object (a correction: the test was only accepted as part of `x is None or not x.isVisible`)
    if isinstance(par, ast.Compare) and len(par.ops) == 1 and isinstance(par.ops[0], (ast.Is, ast.IsNot)) and \
            ((par.left is u and norm(par.comparators[0]) == 'None') or (par.comparators[0] is u and norm(par.left) == 'None')):
        return 'None test'
    if ug.in_test(u, var):
        return 'visibility test'
    # a pure filter: the object is only looked at in the test of an `if` whose whole body leaves the iteration (`if sc.system is not host: continue`) -
    # nothing is listed there; what the loop goes on to do with the object is judged at those uses
    st_: ast.AST = u
    while getattr(st_, '_parent', None) is not None and not isinstance(st_, ast.stmt):
        prev_ = st_
        st_ = st_._parent  # type: ignore[attr-defined]
        if isinstance(st_, ast.If) and prev_ is st_.test and st_.body and isinstance(st_.body[-1], (ast.Continue, ast.Break)) and \
                all(isinstance(b, (ast.Continue, ast.Break, ast.Pass)) for b in st_.body) and not st_.orelse:
            return 'filter test that leaves the iteration'
    if ug.guarded(u, var):
        return 'dominated by a visibility test'
    # argument of a function that starts with the visibility guard on that parameter
    node: ast.AST = u
    for p in parents(u):
        if isinstance(p, ast.Call) and node is not p.func:
            cal, how = repo.callees(p, f)
            if cal and all(g.qn in guarding for g in cal):
                okc = True
                for g in cal:
                    ps = [x.arg for x in g.params()]
                    if g.cls is not None and g.outer is None and not g.is_static:
                        ps = ps[1:]
                    hit = False
                    for i, a in enumerate(p.args):
                        if isinstance(a, ast.Name) and a.id == var and i < len(ps) and ps[i] in guarding[g.qn]:
                            hit = True
                    for kw in p.keywords:
                        if isinstance(kw.value, ast.Name) and kw.value.id == var and kw.arg in guarding[g.qn]:
                            hit = True
                    okc = okc and hit
                if okc:
                    return f'passed to {"/".join(sorted(g.name for g in cal))} which starts with the visibility guard'
        if isinstance(p, (ast.stmt, ast.comprehension)):
            break
        node = p
    if _flows_to(repo, f, u, 'assembleList'):
        return 'names handed to assembleList, which filters on visibility'
    return None


def _local_dependencies(f: Func, e: Optional[ast.AST]) -> Set[ast.AST]:
    """All expression nodes the value may depend on through local assignments and enclosing if tests (data + control)."""
    out: Set[ast.AST] = set()
    if e is None:
        return out
    todo = [e]
    seen_names: Set[str] = set()
    while todo:
        x = todo.pop()
        for n in ast.walk(x):
            out.add(n)
            if isinstance(n, ast.Name) and isinstance(n.ctx, ast.Load) and n.id not in seen_names:
                seen_names.add(n.id)
                for a in f.walk():
                    tgts = a.targets if isinstance(a, ast.Assign) else [a.target] if isinstance(a, (ast.AnnAssign, ast.AugAssign)) else []
                    if any(isinstance(t, ast.Name) and t.id == n.id for t in tgts) and a.value is not None:
                        todo.append(a.value)
                        for p in parents(a):
                            if isinstance(p, (ast.If, ast.While)):
                                todo.append(p.test)
    return out


def _private_marker_sites(f: Func) -> List[str]:
    """`if <privacy test>: ... 'private' ...` branches, plus emissions of the privacy class name itself."""
    out: List[str] = []

    def is_priv_test(t: ast.AST) -> bool:
        for n in ast.walk(t):
            if isinstance(n, ast.Attribute) and n.attr in ('isPrivate', 'privacyClass'):
                return True
            if isinstance(n, ast.Call) and call_name(n) in ('isPrivate', 'isClassNodePrivate'):
                return True
        return False
    for n in f.walk():
        if isinstance(n, ast.If) and is_priv_test(n.test):
            if any(isinstance(c, ast.Constant) and isinstance(c.value, str) and 'private' in c.value for st in n.body for c in ast.walk(st)):
                out.append(f'if {norm(n.test)[:40]}')
        # the same as a conditional value: `marker = ' private' if child.isPrivate else ''`
        if isinstance(n, ast.IfExp) and is_priv_test(n.test) and \
                any(isinstance(c, ast.Constant) and isinstance(c.value, str) and 'private' in c.value for c in ast.walk(n.body)):
            out.append(f'... if {norm(n.test)[:40]} else ...')
        if isinstance(n, ast.Attribute) and n.attr == 'name' and isinstance(n.value, ast.Attribute) and n.value.attr == 'privacyClass':
            out.append(f'{norm(n)[:40]} emitted')
        # the same through the System method the property delegates to: system.privacyClass(o).name, also via a hoisted bound method
        if isinstance(n, ast.Attribute) and n.attr == 'name' and isinstance(n.value, ast.Call):
            fn = n.value.func
            direct = isinstance(fn, ast.Attribute) and fn.attr == 'privacyClass'
            hoisted = isinstance(fn, ast.Name) and any(isinstance(a, ast.Assign) and isinstance(a.value, ast.Attribute) and a.value.attr == 'privacyClass' and
                                                       any(isinstance(t, ast.Name) and t.id == fn.id for t in a.targets) for a in f.walk())
            if direct or hoisted:
                out.append(f'{norm(n)[:40]} emitted')
    return out


def _marker_accumulators(f: Func) -> List[Tuple[str, ast.stmt]]:
    """(variable, statement) where a string containing 'private' is assigned / appended to a local name."""
    out: List[Tuple[str, ast.stmt]] = []
    for n in f.walk():
        tgt = None
        if isinstance(n, ast.AugAssign) and isinstance(n.target, ast.Name):
            tgt = n.target.id
        elif isinstance(n, ast.Assign) and len(n.targets) == 1 and isinstance(n.targets[0], ast.Name):
            tgt = n.targets[0].id
        if tgt is None:
            continue
        if any(isinstance(c, ast.Constant) and isinstance(c.value, str) and 'private' in c.value for c in ast.walk(n.value)):
            out.append((tgt, n))
    return out
