"""
C01 - a run never aborts.  Decides (DESIGN.md section 3, C01):
  R01.1 no exception from the curated sources T1/T2/T3 can leave a run phase entry
  R01.2 the parse barrier (unparsable file -> reported, None, next module)
  R01.3 barrier census: the four documented catch-alls are shaped as barriers
  R01.4 while loops without an exit of their own make progress; a loop that scans a text from a position moves the position on every way round
        (narrow non-termination rules; sa/progress.py)
  R01.5 docstrings are made UTF-8 encodable where they enter the model (lone surrogates)
  R01.6 the class of an object looked up by a source-derived name is tested, not asserted
  R01.7 module typestate: UNPROCESSED -> PROCESSING is only taken under a test of the state made after the last nested processing call
Does not decide: termination in general (recursion, for loops over growing lists, loops that leave through break), exceptions outside the tables, docutils/twisted internals.
"""
from __future__ import annotations

import ast
from typing import Dict, List, Optional, Set, Tuple

from ..core import AnalysisError, Func, Repo, dotted, norm
from ..callgraph import CallGraph
from ..escape import Escape
from ..cfg import CFG
from ..report import Check
from .. import tables
from ..util import impl_funcs
from ..util import not_none_fact, call_name, calls_in, enclosing_trys, handler_names, is_catch_all, reraises, names_in

PHASE_ENTRIES = [
    'pydoctor.model.System.process',
    'pydoctor.templatewriter.writer.TemplateWriter.writeIndividualFiles',
    'pydoctor.templatewriter.writer.TemplateWriter.writeSummaryPages',
    'pydoctor.sphinx.SphinxInventoryWriter.generate',
]

BARRIERS = {
    # function -> names of the partial calls that must sit inside the catch-all
    'pydoctor.epydoc2stan.parse_docstring': ['<parser>'],
    'pydoctor.epydoc2stan.safe_to_stan': ['to_stan'],
    'pydoctor.templatewriter.pages.format_signature': ['html2stan'],
    'pydoctor.epydoc.markup.ParsedDocstring.get_summary': ['to_node', 'walk'],
}


def build_engine(repo: Repo) -> Tuple[CallGraph, Escape]:
    cg = CallGraph(repo, tables.OPAQUE_MODULES)
    esc = Escape(repo, cg, tables.T1, tables.DECLARED, tables.IGNORED_CLASSES, tables.OPAQUE_MODULES,
                 tables.RAISE_NOT_COUNTED)
    return cg, esc


def check_escapes(repo: Repo, chk: Check, cg: CallGraph, esc: Escape, entries: List[str], rule: str,
                  only_modules: Optional[List[str]] = None) -> None:
    """One obligation per (source site, exception class) reachable from the entries."""
    roots = [repo.func(q) for q in entries]
    reach = cg.reachable_from(roots)
    escaping: Dict[Tuple[str, int], Tuple[str, List[str]]] = {}
    for q in entries:
        for k in esc.esc[q]:
            if k not in escaping:
                escaping[k] = (q, esc.path(q, k))
    n_unreached = 0
    for src in esc.sources:
        if src.func.qn not in reach:
            n_unreached += 1
            continue
        if only_modules is not None and src.func.mod.name not in only_modules:
            continue
        for c in src.excs:
            if c in esc.ignore:
                continue
            k = (c, id(src))
            key = f'{src.func.qn} :: {src.label} :: {c.split(".")[-1]}'
            if k in escaping:
                entry, path = escaping[k]
                chk.ob(rule, key, False,
                       f'{c} raised at {src.loc} [{src.label}] can leave {entry}: no handler on the path ' +
                       ' | '.join(path), src.loc, kind=src.kind, path=path)
            else:
                hs = esc.discharged.get(id(src), [])
                who = '; '.join(sorted({f'{h[2]} in {h[1]}' for h in hs if h[0] == c}))[:300]
                chk.ob(rule, key, True, f'discharged by {who or "a handler on every path"}', src.loc, kind=src.kind)
    chk.stats.setdefault('sources_total', len(esc.sources))
    chk.stats.setdefault('sources_not_reachable_from_entries', n_unreached)


def run(repo: Repo, chk: Check, thorough: bool = False) -> None:
    chk.explanation = ('exception-escape analysis over the resolved call graph (R01.1), CFG/def-use shape of the parse '
                       'barrier (R01.2), census of the four documented catch-all barriers (R01.3); all on the syntax of the '
                       'current tree')
    chk.assumptions = [
        'exception sources are the curated tables T1/T2/T3 (sa/tables.py); implicit AttributeError/KeyError/IndexError, '
        'failed asserts, Memory/RecursionError and termination are not decided',
        'twisted flattening and docutils walks are modelled as calling every renderer / visit method with no handler in between',
        'callee resolution is annotation driven; unresolved receivers fall back to name-based dispatch (over-approximation)',
    ]
    cg, esc = build_engine(repo)
    chk.stats['modules'] = len(repo.modules)
    chk.stats['functions'] = len(repo.funcs)
    chk.stats['call_resolution'] = cg.resolution_stats()
    chk.stats['dispatch_models'] = dict(cg.models)
    total = sum(cg.stats.values())
    unresolved = cg.stats.get('unresolved', 0) + cg.stats.get('param-unbound', 0)
    chk.stats['unresolved_ratio'] = round(unresolved / max(total, 1), 4)
    if total < 3000 or unresolved / max(total, 1) > 0.05:
        chk.error(f'call resolution degraded: {unresolved}/{total} unresolved (confirmed by hand: <2.5%)')
    for m, n in (('getattr-prefix', 5), ('flatten->renderers', 40), ('post-processors', 2), ('setup_pydoctor_extension', 3),
                 ('docutils-walk', 2)):
        if cg.models.get(m, 0) < n:
            chk.error(f'dispatch model {m} matched {cg.models.get(m, 0)} site(s), expected at least {n}')

    for prob in Escape.fixture_selfcheck():
        chk.error(f'escape-engine self check: {prob}')
    # the phase entries must still be what driver.main runs
    main = repo.func('pydoctor.driver.main')
    reach_main = cg.reachable_from([main])
    for q in PHASE_ENTRIES:
        repo.func(q)
        if q not in reach_main:
            chk.error(f'phase entry {q} is no longer reachable from driver.main: the entry table is stale')

    # the docstring parsers are selected by name at run time (import_module(f'pydoctor.epydoc.markup.{docformat}').get_parser): if the call graph loses that
    # dispatch, every source inside the parsers silently drops out of R01.1 (it happened: a repair made get_parser return a functools.partial)
    for fmt in ('epytext', 'restructuredtext', 'google', 'numpy', 'plaintext'):
        qn_ = f'pydoctor.epydoc.markup.{fmt}.get_parser'
        if qn_ in repo.funcs and qn_ not in reach_main:
            chk.error(f'the parser entry {qn_} is not reachable from driver.main in the call graph: the dynamic-import dispatch model no longer matches')
    for qn_ in ('pydoctor.epydoc.markup.epytext.parse_docstring', 'pydoctor.epydoc.markup.restructuredtext.parse_docstring'):
        if qn_ not in reach_main:
            chk.error(f'{qn_} is not reachable from driver.main in the call graph (parser dispatch lost)')
    # ---- R01.1
    check_escapes(repo, chk, cg, esc, PHASE_ENTRIES, 'R01.1')
    chk.require('R01.1', 120)
    chk.stats['separator_strip_idioms'] = sorted(esc.t9_instances)
    # vacuity guard of a hazard census whose honest count may become zero (the idiom replaced by "separator before every element but the first"): every
    # `del <list>[-1]` statement of the page writers must have been examined as a T9 instance - the count of the recogniser is compared with an independent,
    # purely syntactic count instead of with a frozen number
    n_del = len({(f_.mod.name, n_.lineno) for f_ in repo.funcs.values() if f_.mod.name.startswith('pydoctor.templatewriter.pages') and '.test' not in f_.mod.name
                 for n_ in f_.walk() if isinstance(n_, ast.Delete) and any(isinstance(t_, ast.Subscript) and norm(t_.slice) == '-1' for t_ in n_.targets)})
    chk.stats['separator_strip_del_statements'] = n_del
    if len(esc.t9_instances) < n_del:
        chk.error(f'T9: {len(esc.t9_instances)} separator-strip idiom(s) examined but {n_del} `del <list>[-1]` statement(s) exist in templatewriter.pages: the recogniser lost sight of the idiom')
    lit = [s for s in esc.sources if s.kind == 'T1' and 'literal_eval' in s.label]
    prs = [s for s in esc.sources if s.kind == 'T1' and ('ast.parse' in s.label or 'compile' in s.label)]
    chk.stats['T1_literal_eval_sites'] = len(lit)
    chk.stats['T1_parse_sites'] = len(prs)
    if len(lit) < 5:
        chk.error(f'only {len(lit)} ast.literal_eval sites seen (5 confirmed by hand)')
    if len(prs) < 3:
        chk.error(f'only {len(prs)} ast.parse sites seen (3 confirmed by hand)')

    # ---- R01.2 parse barrier
    for q in ('pydoctor.astbuilder.ASTBuilder.parseFile', 'pydoctor.astbuilder.ASTBuilder.parseString'):
        f = repo.func(q)
        parse_sites = []
        for s in cg.sites[q]:
            if not isinstance(s.node, ast.Call):
                continue
            direct = any(src.node is s.node and src.kind == 'T1' for src in esc.sources)
            via = any(any(src.kind == 'T1' and ('parse' in src.label or 'compile' in src.label)
                          for (_, src) in esc.escaping(g.qn)) for g in s.callees)
            if direct or via:
                parse_sites.append(s)
        if not parse_sites:
            chk.error(f'{q}: no call reaching ast.parse found')
            continue
        for s in parse_sites:
            key = f'{q} :: {norm(s.node)[:50]}'
            trys = enclosing_trys(s.node, f.node)
            h_ok = None
            for t in trys:
                for h in t.handlers:
                    names = {n.split('.')[-1] for n in handler_names(h)}
                    if ({'SyntaxError', 'ValueError'} <= names) or is_catch_all(h):
                        h_ok = h
                        break
                if h_ok:
                    break
            if h_ok is None:
                chk.ob('R01.2', key + ' :: handler', False,
                       'the call that reaches ast.parse is not inside a try handling SyntaxError and ValueError', s.loc)
                continue
            chk.ob('R01.2', key + ' :: handler', True, f'except {", ".join(handler_names(h_ok))}', s.loc)
            # the handler reports against the module and does not re-raise
            modparams = [p.arg for p in f.params() if any(a == ('inst', 'pydoctor.model.Module')
                                                          for a in repo.locals_of(f).get(p.arg, ()))]
            reports = [c for st in h_ok.body for c in ast.walk(st) if isinstance(c, ast.Call) and call_name(c) == 'report'
                       and isinstance(c.func, ast.Attribute) and isinstance(c.func.value, ast.Name) and c.func.value.id in modparams]
            chk.ob('R01.2', key + ' :: reports', bool(reports) and not reraises(h_ok),
                   'handler reports against the module context and does not raise' if reports and not reraises(h_ok)
                   else 'handler must call <module>.report(...) and must not raise', f'{f.mod.relpath}:{h_ok.lineno}')
            # every return after the failure yields None: result variable initialised to None before the try
            ok_none = False
            for st in h_ok.body:
                for n in ast.walk(st):
                    if isinstance(n, ast.Return) and (n.value is None or (isinstance(n.value, ast.Constant) and n.value.value is None)):
                        ok_none = True
            tgt = None
            stmt = s.node
            while not isinstance(stmt, ast.stmt):
                stmt = stmt._parent  # type: ignore[attr-defined]
            if isinstance(stmt, ast.Assign) and len(stmt.targets) == 1 and isinstance(stmt.targets[0], ast.Name):
                tgt = stmt.targets[0].id
            if tgt is not None:
                cfg = CFG(f)
                inits = [n for n in f.walk() if isinstance(n, (ast.Assign, ast.AnnAssign)) and
                         any(isinstance(t, ast.Name) and t.id == tgt for t in (n.targets if isinstance(n, ast.Assign) else [n.target]))
                         and isinstance(n.value, ast.Constant) and n.value.value is None]
                if any(cfg.dominates(i, h_ok) for i in inits):
                    # and the handler does not assign something else to it
                    if not any(isinstance(n, ast.Assign) and any(isinstance(t, ast.Name) and t.id == tgt for t in n.targets)
                               for st in h_ok.body for n in ast.walk(st)):
                        ok_none = True
            chk.ob('R01.2', key + ' :: yields-None', ok_none,
                   'on the failing path the function returns None' if ok_none else
                   'cannot show that the failing path returns None (result variable not initialised to None before the try)',
                   f'{f.mod.relpath}:{h_ok.lineno}')
    # processModule: the parse result is truth-tested before processModuleAST, no raise, progress reached
    pm = repo.func('pydoctor.model.System.processModule')
    cfg = CFG(pm)
    # (the tree handed to the walk is whatever local the call names: where it came from - parseFile / parseString directly or through a helper - does not matter)
    # (processModule together with the private methods it is split into: `self._processSourceModule(mod, name)` ... `self._moduleProcessed(mod, name)`)
    pm_units = impl_funcs(repo, pm, depth=2)
    pm_cfgs = {u.qn: (cfg if u is pm else CFG(u)) for u in pm_units}
    pcalls = [(u, c) for u in pm_units for c in calls_in(u, lambda c: call_name(c) == 'processModuleAST')]
    if not pcalls:
        chk.error('System.processModule: the call builder.processModuleAST(<tree>, mod) was not found')
    for u, c in pcalls:
        cfu = pm_cfgs[u.qn]
        tree = c.args[0] if c.args else None
        tests = cfu.dominating_tests(cfu.stmt_of(c))
        # the local that is handed over, and the locals that are the same value under another name (`ast = tree` ; `if tree: ... processModuleAST(ast, mod)`)
        same: Set[str] = {tree.id} if isinstance(tree, ast.Name) else set()
        for _ in range(2):
            for a_ in u.walk():
                if isinstance(a_, ast.Assign) and isinstance(a_.value, ast.Name) and len(a_.targets) == 1 and isinstance(a_.targets[0], ast.Name):
                    if a_.targets[0].id in same or a_.value.id in same:
                        same |= {a_.targets[0].id, a_.value.id}
        ok = isinstance(tree, ast.Name) and (any(pol and isinstance(t, ast.Name) and t.id in same for (t, pol) in tests) or
                                             any(not_none_fact(t, pol, nm_) for (t, pol) in tests for nm_ in same))
        chk.ob('R01.2', 'System.processModule :: parse result tested before processModuleAST', ok,
               'dominated by a truth test of the parse result' if ok else
               'processModuleAST(ast, ...) is reachable with ast = None (unparsable file would crash the walk)',
               repo.loc(u.mod, c))
    raises = [n for u in pm_units for n in u.walk() if isinstance(n, ast.Raise)]
    chk.ob('R01.2', 'System.processModule :: no raise', not raises,
           'no raise statement' if not raises else f'raise at line {raises[0].lineno}', pm.loc)
    # the processing stack is balanced on every path of processModule (an unparsable module must not leak its name)

    def _stack_calls(u: Func, what: str) -> list:
        return [c for c in calls_in(u) if call_name(c) == what and isinstance(c.func, ast.Attribute) and (dotted(c.func.value) or '').endswith('processing_modules')]

    def _always_pops(h: Func) -> bool:
        ch = pm_cfgs[h.qn]
        ps_ = [ch.stmt_of(p_) for p_ in _stack_calls(h, 'pop')]
        return bool(ps_) and ch.must_pass(ch.ENTRY, ch.EXIT, ps_, no_exc=True)

    def _pop_stmts(u: Func) -> list:
        cfu = pm_cfgs[u.qn]
        out_ = [cfu.stmt_of(p_) for p_ in _stack_calls(u, 'pop')]
        for c_ in calls_in(u):
            for h in pm_units:
                if h is not u and h is not pm and h.name == call_name(c_) and _always_pops(h):
                    out_.append(cfu.stmt_of(c_))
        return out_
    apps = [(u, c) for u in pm_units for c in _stack_calls(u, 'append')]
    if not apps or not any(_stack_calls(u, 'pop') for u in pm_units):
        chk.error('System.processModule: processing_modules.append/pop not found')
    for u, a in apps:
        cfu = pm_cfgs[u.qn]
        ok = cfu.must_pass(cfu.stmt_of(a), cfu.EXIT, _pop_stmts(u), no_exc=True)
        chk.ob('R01.2', f'System.processModule :: {norm(a)[:50]} is popped on every path', ok,
               'every normal path from the push to the end of processModule pops it' if ok else
               'a path (e.g. the unparsable-file path) leaves the module name on processing_modules: the next nested module trips the '
               '`assert head == mod.fullName()` and aborts the run', repo.loc(u.mod, a))
    proc = repo.func('pydoctor.model.System.process')
    loops = [n for n in proc.walk() if isinstance(n, ast.While) and 'unprocessed_modules' in norm(n.test)]
    in_loop = [c for l in loops for st in l.body for c in ast.walk(st) if isinstance(c, ast.Call) and call_name(c) == 'processModule']
    guarded = [c for c in in_loop if enclosing_trys(c, proc.node)]
    chk.ob('R01.2', 'System.process :: drain loop', bool(in_loop),
           'while self.unprocessed_modules: ... processModule(mod)' if in_loop else 'drain loop over unprocessed_modules not found',
           proc.loc)
    chk.require('R01.2', 11)

    # ---- R01.3 barrier census
    _REPO[:] = [repo]
    for q, partial in BARRIERS.items():
        f = repo.func(q)
        found = False
        for n in f.walk():
            if not isinstance(n, ast.Try):
                continue
            ca = [h for h in n.handlers if is_catch_all(h)]
            if not ca:
                continue
            body_calls = {_role(f, c) for st in n.body for c in ast.walk(st) if isinstance(c, ast.Call)}
            if not (set(partial) & body_calls):
                continue
            found = True
            h = ca[0]
            ok = not reraises(h)
            chk.ob('R01.3', f'{q} :: catch-all around {"/".join(sorted(set(partial) & body_calls))}', ok,
                   f'except {", ".join(handler_names(h))} does not re-raise' if ok else 'the catch-all handler re-raises',
                   f'{f.mod.relpath}:{h.lineno}')
            missing = [p for p in partial if p not in body_calls]
            # every partial call of the function must be inside this try
            outside = [c for c in calls_in(f, lambda c: _role(f, c) in partial)
                       if not any(t is n for t in enclosing_trys(c, f.node)) and
                       not any(isinstance(p, ast.ExceptHandler) for p in _parents_until(c, f.node))]
            chk.ob('R01.3', f'{q} :: no partial call outside the barrier', not outside and not missing,
                   'all partial calls are inside the try' if not outside and not missing else
                   f'partial call(s) outside the try: {[norm(c)[:40] for c in outside]} missing: {missing}',
                   f'{f.mod.relpath}:{n.lineno}')
        if not found:
            chk.ob('R01.3', f'{q} :: catch-all around {"/".join(partial)}', False,
                   f'no try with a catch-all handler (Exception/bare) around {partial} in {q}', f.loc)
    chk.require('R01.3', 8)

    # ---- R01.4 loops make progress (the narrow non-termination rule of sa/progress.py)
    from ..progress import stuck_loops
    n_loops = n_decided = 0
    for f in sorted(repo.funcs.values(), key=lambda f: f.qn):
        if '.test' in f.mod.name or f.mod.name in tables.OPAQUE_MODULES or f.mod.name.startswith('pydoctor.sphinx_ext'):
            continue
        k = 0
        for loop, verdict, why in stuck_loops(repo, f):
            n_loops += 1
            if verdict == 'not-analysed':
                continue
            n_decided += 1
            k += 1
            chk.ob('R01.4', f'{f.qn} :: while `{norm(loop.test)[:50]}` makes progress', verdict != 'stuck', why, repo.loc(f.mod, loop))
    from ..progress import pushback_loops
    n_pb = 0
    for f in sorted(repo.funcs.values(), key=lambda f: f.qn):
        if '.test' in f.mod.name or f.mod.name in tables.OPAQUE_MODULES or f.mod.name.startswith('pydoctor.sphinx_ext'):
            continue
        for st_, okp, whyp in pushback_loops(repo, f):
            n_pb += 1
            chk.ob('R01.4', f'{f.qn} :: push-back `{norm(st_)[:40]}` leaves the loop', okp, whyp, repo.loc(f.mod, st_))
    from ..progress import scan_loops
    n_scan = 0
    for f in sorted(repo.funcs.values(), key=lambda f: f.qn):
        if '.test' in f.mod.name or f.mod.name in tables.OPAQUE_MODULES or f.mod.name.startswith('pydoctor.sphinx_ext'):
            continue
        for k_, (lp_, oks, whys) in enumerate(scan_loops(repo, f)):
            n_scan += 1
            chk.ob('R01.4', f'{f.qn} :: scanning loop #{k_ + 1} moves its position on every way round', oks, whys, repo.loc(f.mod, lp_))
    if n_scan < 1:
        raise AnalysisError(f'R01.4: {n_scan} scanning loops found (epytext._colorize confirmed; doctest.subfunc has one too unless it splits the text instead)')
    chk.stats['scan_loops'] = n_scan
    chk.stats['pushback_sites'] = n_pb
    chk.stats['while_loops'] = n_loops
    chk.stats['while_loops_decided'] = n_decided
    if n_loops < 30:
        raise AnalysisError(f'R01.4: only {n_loops} while loops found (37 outside tests and the vendored sre parser)')
    chk.require('R01.4', 10)

    # ---- R01.5 source text that ends up on a page can be encoded
    # Python source may spell a lone surrogate ("\\udc80") in any string literal; the page writer encodes to UTF-8 and aborts on it.  Values go
    # through _pyval_repr._str_escape (backslashreplace), string annotations through ast.parse (F14); docstrings must be sanitised where
    # they enter the model.
    from ..owners import writers
    LOSSLESS_HANDLERS = ('backslashreplace', 'replace', 'xmlcharrefreplace', 'ignore', 'namereplace', 'surrogateescape', 'surrogatepass')

    def sanitises(g: Func, depth: int = 0) -> bool:
        for c in calls_in(g):
            if call_name(c) == 'encode' and any(isinstance(a, ast.Constant) and a.value in LOSSLESS_HANDLERS for a in list(c.args) + [k.value for k in c.keywords]):
                return True
        if depth < 2:
            for c in calls_in(g):
                cal, how = repo.callees(c, g)
                if len(cal) == 1 and how == 'direct' and cal[0].mod.name.startswith('pydoctor.') and cal[0] is not g and sanitises(cal[0], depth + 1):
                    return True
        return False

    def expr_sanitised(e: ast.AST, g: Func, depth: int = 0) -> bool:
        """The text denoted by e went through a sanitiser (call to a sanitising function, possibly wrapped in other calls / bound to a local)."""
        if depth > 4:
            return False
        if isinstance(e, ast.Call):
            cal, how = repo.callees(e, g)
            if any(sanitises(x) for x in cal):
                return True
            return any(expr_sanitised(a, g, depth + 1) for a in e.args)
        if isinstance(e, ast.Name):
            vals = [n.value for n in g.walk() if isinstance(n, (ast.Assign, ast.AnnAssign)) and n.value is not None and
                    any(e.id in [x.id for x in ast.walk(t) if isinstance(x, ast.Name)] for t in (n.targets if isinstance(n, ast.Assign) else [n.target]))]
            return bool(vals) and all(expr_sanitised(v, g, depth + 1) for v in vals)
        return False
    n_doc = 0
    for w in writers(repo, 'docstring', ['pydoctor.model.Documentable'], unknown_counts=False, skip_modules=('pydoctor.sphinx_ext', 'pydoctor.test')):
        v = w.node.value if isinstance(w.node, (ast.Assign, ast.AnnAssign)) else None
        if v is None or (isinstance(v, ast.Constant)) or (isinstance(v, ast.Attribute) and v.attr in ('__doc__', 'docstring')):
            continue     # constants, live __doc__ of introspected objects, copies of another object's docstring
        if isinstance(v, ast.Name) and v.id in [p_.arg for p_ in w.func.params()]:
            # a parameter (Documentable.setDocstring -> self.docstring = doc): judged at the value's producer below
            srcs = [n for n in w.func.walk() if isinstance(n, ast.Assign) and any(v.id in [x.id for x in ast.walk(t) if isinstance(x, ast.Name)] for t in n.targets)]
            if not srcs:
                continue
        n_doc += 1
        ok5 = expr_sanitised(v, w.func)
        chk.ob('R01.5', f'{w.func.qn} :: docstring <- {norm(v)[:40]} is made encodable', ok5,
               'unencodable characters (lone surrogates) are replaced where the text enters the model' if ok5 else
               f'`{norm(w.node)[:70]}` stores source text as is: a docstring spelling a lone surrogate ("\\udc80", e.g. when describing surrogateescape) makes '
               'the page writer raise UnicodeEncodeError (FlattenerError); the run aborts and no later page, index or inventory is written', w.loc)
    if n_doc < 2:
        raise AnalysisError(f'R01.5: {n_doc} docstring ingestion points found (2 confirmed: Documentable.setDocstring, ModuleVistor._handleDocstringUpdate)')
    chk.require('R01.5', 2)

    # ---- R01.6 what a name resolves to is not asserted
    # `assert isinstance(x, T)` aborts the run when it fails.  When x is whatever the registry holds under a *name* taken from the analysed
    # source (objForFullName(name), allobjects[name], contents[name], find_object, resolveName), nothing guarantees its class.
    NAME_LOOKUPS = ('objForFullName', 'find_object', 'resolveName')
    REGISTRIES = ('allobjects', 'contents')
    ASSERT_REASONED = {
        'pydoctor.model.System._addUnprocessedModule': 'modules are registered (addPackage/addModule) before any module is processed, so nothing but a module '
                                                       'can already hold a module name at that point',
        'pydoctor.model.SystemBuilder.addModule': 'programmatic builder API: the parent name is computed by the caller from the same path, not from analysed source',
        'pydoctor.model.SystemBuilder.addModuleString': 'programmatic builder API (tests, sphinx extension): parent_name is an argument of the caller',
        'pydoctor.extensions.deprecate.ModuleVisitor.depart_ClassDef': 'reads back contents[node.name] right after the main visitor built the class of that name; '
                                                                       'nothing can replace the entry in between (definitions nested in functions raise KeyError, handled)',
    }

    def _is_lookup(e: ast.AST) -> Optional[str]:
        for x in ast.walk(e):
            if isinstance(x, ast.Call) and call_name(x) in NAME_LOOKUPS:
                return norm(x)[:50]
            if isinstance(x, ast.Call) and call_name(x) == 'get' and isinstance(x.func, ast.Attribute) and isinstance(x.func.value, ast.Attribute) and x.func.value.attr in REGISTRIES:
                return norm(x)[:50]
            if isinstance(x, ast.Subscript) and isinstance(x.value, ast.Attribute) and x.value.attr in REGISTRIES and isinstance(x.ctx, ast.Load):
                return norm(x)[:50]
        return None
    n_as = 0
    for f in sorted(repo.funcs.values(), key=lambda f: f.qn):
        if '.test' in f.mod.name or f.mod.name in tables.OPAQUE_MODULES or f.mod.name.startswith('pydoctor.sphinx_ext'):
            continue
        for a in f.walk():
            if not isinstance(a, ast.Assert):
                continue
            if isinstance(a.test, ast.Call) and call_name(a.test) == 'isinstance' and a.test.args:
                subj = a.test.args[0]
            elif isinstance(a.test, ast.Compare) and isinstance(a.test.left, ast.Attribute) and a.test.left.attr == 'kind':
                subj = a.test.left.value        # `assert x.kind is K`: the kind of a looked-up object depends on the source just as much
            else:
                continue
            vals: List[ast.AST] = [subj]
            if isinstance(subj, ast.Name):
                vals = [n.value for n in f.walk() if isinstance(n, (ast.Assign, ast.AnnAssign)) and n.value is not None and
                        any(isinstance(t, ast.Name) and t.id == subj.id for t in (n.targets if isinstance(n, ast.Assign) else [n.target]))] or [subj]
            look = next((l for l in (_is_lookup(v) for v in vals) if l), None)
            if look is None:
                continue
            n_as += 1
            key = f'{f.qn} :: {norm(a.test)[:60]}'
            if f.qn in ASSERT_REASONED:
                chk.ob('R01.6', key, True, f'reasoned exception: {ASSERT_REASONED[f.qn]}', repo.loc(f.mod, a), kind='reasoned-exception')
                continue
            chk.ob('R01.6', key, False,
                   f'the class of `{look}` is asserted, not tested: when the name taken from the analysed source resolves to another kind of object the '
                   'AssertionError escapes and the run aborts', repo.loc(f.mod, a))
    chk.stats['asserts_on_name_lookups'] = n_as

    # ---- R01.7 module typestate
    # processModule leaves UNPROCESSED exactly once per module (`mod.state = PROCESSING`, then `unprocessed_modules.remove(mod)`: a second
    # removal raises ValueError and aborts the run).  Its entry asserts the state; a nested processing call made before the transition (the package
    # first) can process - or fail to parse - the very module, so the state has to be tested AGAIN after that call, and only `UNPROCESSED` may go on:
    # a module that does not parse stays PROCESSING for ever.
    pm = repo.func('pydoctor.model.System.processModule')
    cfpm = CFG(pm)
    modp = pm.params()[1].arg
    trans = [n for n in pm.walk() if isinstance(n, ast.Assign) and any(isinstance(t, ast.Attribute) and t.attr == 'state' and isinstance(t.value, ast.Name) and
                                                                      t.value.id == modp for t in n.targets) and norm(n.value).endswith('PROCESSING')]
    if not trans:
        raise AnalysisError('R01.7: the UNPROCESSED -> PROCESSING transition of System.processModule was not found')
    nested = [c for c in calls_in(pm) if call_name(c) in ('processModule', 'getProcessedModule', 'process') and
              id(cfpm.stmt_of(trans[0])) in cfpm.reachable(cfpm.stmt_of(c), no_exc=True) and cfpm.stmt_of(c) is not cfpm.stmt_of(trans[0])]
    def _is_unprocessed(t: ast.AST, pol: bool) -> bool:
        if isinstance(t, ast.Compare) and len(t.ops) == 1 and norm(t.left) == f'{modp}.state' and norm(t.comparators[0]).endswith('UNPROCESSED'):
            return (isinstance(t.ops[0], (ast.Is, ast.Eq)) and pol) or (isinstance(t.ops[0], (ast.IsNot, ast.NotEq)) and not pol)
        if isinstance(t, ast.UnaryOp) and isinstance(t.op, ast.Not):
            return _is_unprocessed(t.operand, not pol)
        if isinstance(t, ast.BoolOp):
            if isinstance(t.op, ast.And) and pol:
                return any(_is_unprocessed(x, True) for x in t.values)
            if isinstance(t.op, ast.Or) and not pol:
                return any(_is_unprocessed(x, False) for x in t.values)
        return False
    for c in nested:
        safe_edges = [(nid, id(t_), k) for nid, edges in cfpm.succ.items() for (t_, l, k) in edges if l is not None and _is_unprocessed(l[0], l[1])]
        leak = id(cfpm.stmt_of(trans[0])) in cfpm.reachable(cfpm.stmt_of(c), avoid_edges=safe_edges, no_exc=True)
        chk.ob('R01.7', f'pydoctor.model.System.processModule :: the state is tested again after the nested `{call_name(c)}` call', not leak,
               f'every path from `{norm(c)[:50]}` to the transition passes a test that establishes {modp}.state is UNPROCESSED' if not leak else
               f'after `{norm(c)[:50]}` the transition to PROCESSING can be reached without a test that the module is still UNPROCESSED: a module that its '
               'package imported and that does not parse (state PROCESSING for ever) is taken out of unprocessed_modules a second time - ValueError, the '
               'run aborts before any page is written', repo.loc(pm.mod, c))
    chk.stats['nested_processing_calls_before_transition'] = len(nested)
    if len(nested) < 1:
        raise AnalysisError('R01.7: no nested processing call precedes the state transition in processModule (1 confirmed: the package, since F64)')
    # ... the stack of names being processed: what is popped is compared with what was pushed - ONE evaluation kept in a local.  `mod.fullName()`
    # evaluated again after the builder ran can differ: a module that is re-exported by a module it imports is renamed while its own frame is active
    pm_nodes = [n_ for u_ in pm_units for n_ in u_.walk()]
    pushes = [c for u_ in pm_units for c in calls_in(u_) if call_name(c) == 'append' and isinstance(c.func, ast.Attribute) and 'processing_modules' in norm(c.func.value) and c.args]
    asserts_ = [a for a in pm_nodes if isinstance(a, ast.Assert) and isinstance(a.test, ast.Compare) and len(a.test.ops) == 1 and isinstance(a.test.ops[0], ast.Eq) and
                any(isinstance(x, ast.Name) for x in (a.test.left, a.test.comparators[0])) and
                any(isinstance(v, ast.Call) and call_name(v) == 'pop' for x in (a.test.left, a.test.comparators[0]) if isinstance(x, ast.Name)
                    for n_ in pm_nodes if isinstance(n_, ast.Assign) and any(isinstance(t, ast.Name) and t.id == x.id for t in n_.targets) for v in [n_.value])]
    if not pushes or not asserts_:
        raise AnalysisError('R01.7: the push / pop-and-compare pair on processing_modules was not found in processModule')
    pushed = {norm(c.args[0]) for c in pushes}
    # (a helper is handed the pushed name: at its call sites the argument is the local itself, not a second evaluation)
    for u_ in pm_units:
        if u_ is pm:
            continue
        up_ = [p_.arg for p_ in u_.params() if p_.arg not in ('self', 'cls')]
        for c_ in [c_ for v_ in pm_units for c_ in calls_in(v_) if call_name(c_) == u_.name]:
            for gp_, a_ in zip(up_, c_.args):
                if gp_ in pushed and not isinstance(a_, ast.Name):
                    pushed.discard(gp_)
    for a in asserts_:
        other = [x for x in (a.test.left, a.test.comparators[0]) if not (isinstance(x, ast.Name) and any(
            isinstance(n_, ast.Assign) and isinstance(n_.value, ast.Call) and call_name(n_.value) == 'pop' and any(isinstance(t, ast.Name) and t.id == x.id for t in n_.targets)
            for n_ in pm_nodes))]
        okp = bool(other) and all(isinstance(x, ast.Name) and norm(x) in pushed for x in other)
        chk.ob('R01.7', 'pydoctor.model.System.processModule :: the popped name is compared with the value that was pushed', okp,
               f'one evaluation, kept in `{norm(other[0])}`' if okp else
               f'`{norm(a.test)}` evaluates the name of the module again after it was processed: a module that is moved while its own frame is active (circular re-export: '
               '`pkg/a.py: from .sub import x`, `pkg/sub/__init__.py: from .. import a; __all__ = ["a", "x"]`) fails the assertion and the run aborts', repo.loc(pm.mod, a))
    # ... invariant behind the asserts at the entry of processModule: a module whose state is UNPROCESSED is in unprocessed_modules.  Every place
    # that creates a Module / Package either queues it (_addUnprocessedModule) or gives it another state; getProcessedModule() - any import of
    # that name - would otherwise try to process an object the queue does not hold (`assert mod in self.unprocessed_modules`)
    mm = repo.mod('pydoctor.model')
    n_new = 0
    for f in sorted((g for g in repo.funcs.values() if g.mod is mm), key=lambda g: g.qn):
        facts_ = {t.id for a_ in f.walk() if isinstance(a_, ast.Assign) and isinstance(a_.value, ast.IfExp) and all(isinstance(x, ast.Attribute) and x.attr in ('Package', 'Module')
                                                                                                               for x in (a_.value.body, a_.value.orelse))
                  for t in a_.targets if isinstance(t, ast.Name)}
        for a_ in f.walk():
            if not (isinstance(a_, ast.Assign) and isinstance(a_.value, ast.Call) and len(a_.targets) == 1 and isinstance(a_.targets[0], ast.Name)):
                continue
            fn_ = a_.value.func
            creates = (isinstance(fn_, ast.Attribute) and fn_.attr in ('Package', 'Module') and 'system' in norm(fn_.value).lower() or
                       isinstance(fn_, ast.Attribute) and fn_.attr in ('Package', 'Module') and norm(fn_.value) == 'self') or (isinstance(fn_, ast.Name) and fn_.id in facts_)
            if not creates:
                continue
            n_new += 1
            v = a_.targets[0].id
            queued = any(call_name(c) == '_addUnprocessedModule' and c.args and norm(c.args[0]) == v for c in calls_in(f))
            stated = any(isinstance(n_, ast.Assign) and any(isinstance(t, ast.Attribute) and t.attr == 'state' and norm(t.value) == v for t in n_.targets) for n_ in f.walk())
            chk.ob('R01.7', f'{f.qn} :: a module that is created is queued, or is not left UNPROCESSED', queued or stated,
                   'queued through _addUnprocessedModule' if queued else 'given a state of its own' if stated else
                   f'`{norm(a_)[:60]}` is registered without being queued and keeps the default state UNPROCESSED: `--prepend-package spam` with a source that says '
                   '`from spam import ham` makes getProcessedModule process it - AssertionError, the run aborts', repo.loc(f.mod, a_))
    # ... `import pkg.b as b; b.__doc__ = "..."` writes the docstring of ANOTHER module.  `import x.y` only records an alias: the target can still be
    # UNPROCESSED, and visit_Module later asserts that a module it starts on has no docstring yet.  The update has to process a Module target first
    # (at run time the module has run by then: the assignment overrides its own docstring, not the contrary)
    du = repo.func('pydoctor.astbuilder.ModuleVistor._handleDocstringUpdate')
    cfu = CFG(du)
    proc = [c for c in calls_in(du) if call_name(c) in ('getProcessedModule', 'processModule') and
            any(pol and isinstance(t, ast.Call) and call_name(t) == 'isinstance' and 'Module' in norm(t.args[1]) for t, pol in cfu.dominating_tests(cfu.stmt_of(c)))]
    chk.ob('R01.7', 'pydoctor.astbuilder.ModuleVistor._handleDocstringUpdate :: a module whose __doc__ is assigned from outside is processed first', bool(proc),
           f'`{norm(proc[0])[:50]}` under isinstance(obj, Module)' if proc else
           'the docstring is stored on a Module that may still be UNPROCESSED: when that module is visited later, `assert self.module.docstring is None` fails and the run '
           'aborts (`pkg/a.py: import pkg.b as b; b.__doc__ = "..."`)', du.loc)
    if n_new < 4:
        raise AnalysisError(f'R01.7: {n_new} module creation sites found in pydoctor.model (4 confirmed)')
    chk.require('R01.7', 7)


_REPO: List[Repo] = []


def _role(f: Func, c: ast.Call) -> str:
    """Name of the callee, or '<parser>' for a call of a local variable that holds a docstring parser."""
    if isinstance(c.func, ast.Name):
        from ..util import parser_valued
        if parser_valued(_REPO[0], f, c.func.id):
            return '<parser>'
    return call_name(c)


def _parents_until(node: ast.AST, stop: ast.AST):
    p = getattr(node, '_parent', None)
    while p is not None and p is not stop:
        yield p
        p = getattr(p, '_parent', None)
