"""
C15 - a displayed value or expression means the same as the source expression.
  R15.1 operator tables (class -> symbol) agree with CPython's own parser, exhaustively over ast.operator/unaryop/boolop
  R15.2 container siblings: live-value and AST branches agree on prefix/suffix and on count-dependence of the suffix
  R15.3 parenthesis decision depends on the operand side (slice of the decision in _OperatorDelimiter)
  R15.4 every expression class without a dedicated branch reaches the generic (astor) fallback, whose text has no line break of astor's own
  R15.5 truncation is always marked
  R15.6 control characters keep their value (shared with C10)
  R15.7 string arguments of Literal[...] are not unstringed, whatever the qualifier of Literal
  R15.10 regex display: every component the regex parser stores in a node is read by the serializer; a branch with siblings is delimited
  R15.9 an explicit (lowered) precedence is only forced onto positions where the grammar takes any expression unparenthesised; where nothing was forced the
        default is the highest precedence (or lowered under an identity test of the field)
  R15.8 the plain-text rendering of a parsed value collects the text leaf by leaf, never with document.astext()
Does not decide: precedence values (astor's table is trusted), string/number spelling, line-length arithmetic.
"""
from __future__ import annotations

import ast
from typing import Dict, List, Optional, Set, Tuple

from ..core import AnalysisError, Func, Repo, dotted, norm, parents
from ..cfg import CFG
from ..report import Check
from ..util import call_name, calls_in, enclosing_trys, handler_names, const_str, names_assigned_from

COL = 'pydoctor.epydoc.markup._pyval_repr.PyvalColorizer'
DELIM = 'pydoctor.epydoc.markup._pyval_repr._OperatorDelimiter'


def _op_chain(f: Func, attr_chain: str = 'pyval.op') -> Dict[str, str]:
    """`if isinstance(<x>.op, ast.K): self._output('sym', ...)` chains -> {K: sym}."""
    from ..cfg import if_branches
    out: Dict[str, str] = {}
    for n in f.walk():
        if not isinstance(n, ast.If):
            continue
        t, yes, _no = if_branches(n)
        if isinstance(t, ast.Call) and call_name(t) == 'isinstance' and len(t.args) == 2 and \
                isinstance(t.args[0], ast.Attribute) and t.args[0].attr == 'op':
            ks = t.args[1].elts if isinstance(t.args[1], ast.Tuple) else [t.args[1]]
            syms = [const_str(c.args[0]) for st in yes for c in ast.walk(st)
                    if isinstance(c, ast.Call) and call_name(c) == '_output' and c.args]
            syms = [s for s in syms if s is not None]
            if not syms:
                # the symbol chosen once and written later: `op_text = ' and '` ... `self._output(op_text, ...)`
                out_vars = {c.args[0].id for c in ast.walk(f.node) if isinstance(c, ast.Call) and call_name(c) == '_output' and c.args and isinstance(c.args[0], ast.Name)}
                syms = [const_str(a.value) for st in yes for a in ast.walk(st) if isinstance(a, ast.Assign) and const_str(a.value) is not None and
                        any(isinstance(t_, ast.Name) and t_.id in out_vars for t_ in a.targets)]
            for k in ks:
                d = dotted(k) or ''
                if d.startswith('ast.') and len(syms) == 1:
                    out[d[4:]] = syms[0]
    # the same table written as data: a class / module constant of (ast.K, 'sym') pairs or a {ast.K: 'sym'} mapping that the function (or a private helper
    # it calls) consults
    read = {x.id for x in f.walk() if isinstance(x, ast.Name)} | {x.attr for x in f.walk() if isinstance(x, ast.Attribute)}
    helpers = [g for g in (f.cls.methods.values() if f.cls is not None else []) if g.name in {call_name(c) for c in calls_in(f)} and g.name.startswith('_')]
    for g in helpers:
        read |= {x.id for x in g.walk() if isinstance(x, ast.Name)} | {x.attr for x in g.walk() if isinstance(x, ast.Attribute)}
    tables = [v for k, v in list(f.mod.assigns.items()) + (list(f.cls.aliases.items()) if f.cls is not None else []) if k in read]
    for tb in tables:
        if isinstance(tb, (ast.Tuple, ast.List)):
            for e in tb.elts:
                if isinstance(e, ast.Tuple) and len(e.elts) == 2 and (dotted(e.elts[0]) or '').startswith('ast.') and const_str(e.elts[1]) is not None:
                    out.setdefault((dotted(e.elts[0]) or '')[4:], const_str(e.elts[1]) or '')
        if isinstance(tb, ast.Dict):
            for k, v in zip(tb.keys, tb.values):
                if k is not None and (dotted(k) or '').startswith('ast.') and const_str(v) is not None:
                    out.setdefault((dotted(k) or '')[4:], const_str(v) or '')
    return out


def _parse_op(expr: str) -> Optional[str]:
    try:
        v = ast.parse(expr, mode='eval').body
    except SyntaxError:
        return None
    if isinstance(v, (ast.BinOp, ast.UnaryOp, ast.BoolOp)):
        return type(v.op).__name__
    return None


def run(repo: Repo, chk: Check, thorough: bool = False) -> None:
    chk.explanation = ('table extraction from the isinstance chains of the colorizer, compared with the classes CPython\'s parser produces '
                       'for each symbol (R15.1); sibling comparison of live-value and AST container branches (R15.2); backward slice of '
                       'the statement that enables parentheses (R15.3); shape of the dispatch chain (R15.4); must-pass-through of the '
                       'truncation markers (R15.5)')
    chk.assumptions = ['astor.op_util precedence values are trusted', 'the oracle for operator symbols is ast.parse of the running interpreter',
                       'string, bytes and number spelling and the wrapping arithmetic are not decided']

    # ------------------------------------------------------------------ R15.1
    families = {
        'operator': (f'{COL}._colorize_ast_binary_op', lambda s: f'a {s} b'),
        'unaryop': (f'{COL}._colorize_ast_unary_op', lambda s: f'{s}a'),
        'boolop': (f'{COL}._colorize_ast_bool_op', lambda s: f'a {s} b'),
    }
    for fam, (q, mk) in families.items():
        f = repo.func(q)
        table = _op_chain(f)
        classes = sorted(c.__name__ for c in getattr(ast, fam).__subclasses__())
        for k in classes:
            key = f'{q.split(".")[-1]} :: ast.{k}'
            if k not in table:
                chk.ob('R15.1', key, False, f'no branch renders ast.{k}: such expressions fall into the "unknown operator" path', f.loc)
                continue
            sym = table[k]
            got = _parse_op(mk(sym.strip() if fam != 'unaryop' else sym))
            chk.ob('R15.1', key, got == k,
                   f'{sym!r} parses back to ast.{k}' if got == k else
                   f'ast.{k} is rendered as {sym!r}, which Python parses as {("ast." + got) if got else "a syntax error"}', f.loc, symbol=sym)
        extra = sorted(set(table) - set(classes))
        for k in extra:
            chk.note(f'{q}: branch for unknown class ast.{k}')
    chk.require('R15.1', 19)

    # ------------------------------------------------------------------ R15.2
    live = repo.func(f'{COL}._colorize')
    astf = repo.func(f'{COL}._colorize_ast')

    def container_branches(f: Func, kind: str) -> Dict[str, Tuple[ast.AST, ast.AST, ast.If]]:
        out: Dict[str, Tuple[ast.AST, ast.AST, ast.If]] = {}
        for n in f.walk():
            if not isinstance(n, ast.If):
                continue
            name = None
            from ..cfg import if_branches as _ib
            t, _yes, _no2 = _ib(n)
            if kind == 'live' and isinstance(t, ast.Compare) and isinstance(t.ops[0], ast.Is) and isinstance(t.comparators[0], ast.Name):
                name = t.comparators[0].id
            if kind == 'ast' and isinstance(t, ast.Call) and call_name(t) == 'isinstance' and len(t.args) == 2:
                name = (dotted(t.args[1]) or '').replace('ast.', '').lower()
            if name not in ('tuple', 'list', 'set', 'dict', 'frozenset'):
                continue
            for st in _yes:
                for c in ast.walk(st):
                    if isinstance(c, ast.Call) and call_name(c) == '_multiline':
                        pre = next((k.value for k in c.keywords if k.arg == 'prefix'), None)
                        suf = next((k.value for k in c.keywords if k.arg == 'suffix'), None)
                        if pre is not None and suf is not None:
                            out[name] = (pre, suf, n)
        return out
    lb = container_branches(live, 'live')
    ab = container_branches(astf, 'ast')
    if len(lb) < 3 or len(ab) < 3:
        chk.error(f'R15.2: container branches not found (live {sorted(lb)}, ast {sorted(ab)})')

    def consts(e: ast.AST) -> List[str]:
        return [c.value for c in ast.walk(e) if isinstance(c, ast.Constant) and isinstance(c.value, str)]

    def depends_on_len(e: ast.AST) -> bool:
        return any(isinstance(c, ast.Call) and call_name(c) == 'len' for c in ast.walk(e))
    for name in sorted(set(lb) & set(ab)):
        lp, ls, _ = lb[name]
        ap, as_, an = ab[name]
        ok = consts(lp) == consts(ap)
        chk.ob('R15.2', f'{COL}._colorize_ast :: ast.{name.capitalize()} prefix', ok,
               f'{consts(ap)} in both branches' if ok else f'live branch {consts(lp)} vs AST branch {consts(ap)}', repo.loc(astf.mod, an))
        lmax = max(consts(ls), key=len, default='')
        amax = max(consts(as_), key=len, default='')
        ok = depends_on_len(ls) == depends_on_len(as_) and set(''.join(consts(ls))) == set(''.join(consts(as_)))
        chk.ob('R15.2', f'{COL}._colorize_ast :: ast.{name.capitalize()} suffix', ok,
               f'suffix agrees with the live-value branch ({norm(ls)[:40]})' if ok else
               f'live branch: suffix {norm(ls)} (depends on the element count: {depends_on_len(ls)}); AST branch: {norm(as_)} - '
               f'e.g. a one-element tuple written `(a,)` is displayed as `(a)`, which is not a tuple', repo.loc(astf.mod, an))
    chk.require('R15.2', 6)

    # a tuple used as an index may be written without parentheses only when it has two or more elements: `x[a, b]`; `x[()]` needs the
    # parentheses and `x[a,]` the comma, otherwise the text reads back as something else (`Tuple[]` is not even valid)
    sb = repo.func(f'{COL}._colorize_ast_subscript')
    cfsb = CFG(sb)
    bare = [c for c in calls_in(sb) if call_name(c) == '_multiline' and any(isinstance(a, ast.Attribute) and a.attr == 'elts' for a in c.args)]
    if not bare:
        raise AnalysisError('R15.2: the parenthesis-free rendering of a tuple index was not found in _colorize_ast_subscript')
    for c in bare:
        has_suffix = any(k.arg == 'suffix' and const_str(k.value) and ',' in (const_str(k.value) or '') for k in c.keywords)
        counted = any(isinstance(t, ast.Compare) and any(isinstance(x, ast.Call) and call_name(x) == 'len' and x.args and norm(x.args[0]).endswith('.elts') for x in ast.walk(t))
                      for t, pol in cfsb.dominating_tests(cfsb.stmt_of(c)))
        okc = counted
        chk.ob('R15.2', f'{COL}._colorize_ast_subscript :: bare tuple index only by element count #{bare.index(c) + 1}', okc,
               ('one element: trailing comma kept' if has_suffix else 'two or more elements') if okc else
               f'`{norm(c)[:60]}` drops the parentheses of every tuple index: `Tuple[()]` is displayed as `Tuple[]` (invalid), `m[0,]` as `m[0]` (an int index, '
               'not a tuple)', repo.loc(sb.mod, c))

    # ------------------------------------------------------------------ R15.3
    init = repo.func(f'{DELIM}.__init__')
    enable = [n for n in init.walk() if isinstance(n, ast.Assign) and any(dotted(t) == 'self.discard' for t in n.targets)
              and isinstance(n.value, ast.Constant) and n.value.value is False]
    if not enable:
        raise AnalysisError('_OperatorDelimiter.__init__: statement enabling the parentheses (self.discard = False) not found')
    sl = _slice(init, enable[0])
    # the decision may be computed by a private method of the delimiter (`precedence < self._get_parent_precedence(node, parent_node)`): what that
    # method returns depends on all of its statements - they belong to the slice
    dhelpers = [g for g in repo.funcs.values() if g.cls is init.cls and g is not init and g.name.startswith('_') and not g.name.startswith('__') and
                any(isinstance(n, ast.Call) and call_name(n) == g.name for x in sl for n in ast.walk(x))]
    for g in dhelpers:
        for r_ in [n for n in g.walk() if isinstance(n, ast.Return)]:
            sl |= _slice(g, r_)
    slice_txt = ' ; '.join(sorted({norm(x)[:60] for x in sl if isinstance(x, ast.stmt)}))
    # (a) Pow parent raises the threshold
    powtest = any(isinstance(n, ast.Call) and call_name(n) == 'isinstance' and 'Pow' in norm(n) for x in sl for n in ast.walk(x))
    chk.ob('R15.3', f'{DELIM}.__init__ :: right-associative ** handled', powtest,
           'the decision depends on an isinstance(parent.op, ast.Pow) test' if powtest else
           'no special case for **: (a**b)**c would be displayed as a**b**c', init.loc)
    # (b) operand side
    side = False
    how = ''
    for x in sl:
        for n in ast.walk(x):
            if isinstance(n, ast.Compare) and any(isinstance(o, (ast.Is, ast.IsNot)) for o in n.ops):
                txt = norm(n)
                if '.right' in txt or '.left' in txt:
                    side = True
                    how = f'identity test `{txt}`'
            if isinstance(n, ast.Compare) and any(isinstance(o, ast.LtE) for o in n.ops) and 'recedence' in norm(n):
                side = True
                how = f'non-strict comparison `{norm(n)}` (equal precedence always parenthesised)'
    if not side:
        # per-operand explicit precedence set by the binary-op renderer
        bo = repo.func(f'{COL}._colorize_ast_binary_op')
        if any(call_name(c) == '_set_precedence' and any('right' in norm(a) or 'left' in norm(a) for a in c.args) for c in calls_in(bo)):
            side = True
            how = 'per-operand explicit precedence set in _colorize_ast_binary_op'
    chk.ob('R15.3', f'{DELIM}.__init__ :: decision depends on the operand side', side,
           how if side else 'the parenthesis decision never looks at which operand of its parent the node is: for a left-associative '
           'operator `a-(b-c)`, `a/(b*c)`, `a<<(b<<c)` lose their parentheses and change meaning. slice: ' + slice_txt[:300], init.loc)
    # (b') the operand-side rule holds for every binary operator but **: no exemption by operator class
    opclasses = {c.__name__ for c in ast.operator.__subclasses__()} - {'Pow'}
    seen_conds: Set[str] = set()
    for x in sl:
        for n in ast.walk(x):
            if isinstance(n, ast.If) or isinstance(n, ast.BoolOp):
                cond = n.test if isinstance(n, ast.If) else n
                txt = norm(cond)
                if ('.right' in txt or '.left' in txt) and ' is ' in txt and txt not in seen_conds:
                    seen_conds.add(txt)
                    # operator classes named in the condition, directly or through a class / module constant (`self._ASSOCIATIVE_OPS`)
                    mentioned: List[ast.AST] = [cond]
                    dcls = repo.classes.get(DELIM)
                    for a in ast.walk(cond):
                        nm_ = a.attr if isinstance(a, ast.Attribute) and dotted(a.value) in ('self', 'cls', '_OperatorDelimiter') else a.id if isinstance(a, ast.Name) else None
                        if nm_ and dcls is not None and nm_ in dcls.aliases:
                            mentioned.append(dcls.aliases[nm_])
                        elif nm_ and nm_ in init.mod.assigns:
                            mentioned.append(init.mod.assigns[nm_])
                    exempt = sorted({d[4:] for m_ in mentioned for d in (dotted(a) or '' for a in ast.walk(m_)) if d.startswith('ast.') and d[4:] in opclasses})
                    chk.ob('R15.3', f'{DELIM}.__init__ :: operand-side rule applies to every operator', not exempt,
                           'no operator class is exempted' if not exempt else
                           f'the right-operand rule is switched off for {exempt}: operators of equal precedence are not interchangeable '
                           '(2*(7%4) would be displayed as 2*7%4)', repo.loc(init.mod, cond))
                    break
    # (c) BoolOp parents raise the threshold
    booltest = any(isinstance(n, ast.Call) and call_name(n) == 'isinstance' and 'BoolOp' in norm(n) for x in sl for n in ast.walk(x))
    chk.ob('R15.3', f'{DELIM}.__init__ :: nested boolean operators', booltest,
           'the decision depends on an isinstance(parent, ast.BoolOp) test' if booltest else 'no case for a BoolOp parent', init.loc)
    # the comparison itself: strictly-lower child precedence enables parentheses
    # child precedence: the local assigned from get_op_precedence(node.op); parent precedence: from get_op_precedence(parent.op)
    childv = names_assigned_from(init, lambda v: isinstance(v, ast.Call) and call_name(v) == 'get_op_precedence' and norm(v.args[0]) == 'node.op')
    parentv = names_assigned_from(init, lambda v: isinstance(v, ast.Call) and call_name(v) == 'get_op_precedence' and norm(v.args[0]) != 'node.op')

    def _is_parent_prec(e: ast.AST) -> bool:
        if norm(e) in parentv:
            return True
        for g in dhelpers:      # the value handed back by the helper that computes the parent's precedence
            if isinstance(e, ast.Call) and call_name(e) == g.name:
                gv = names_assigned_from(g, lambda v: isinstance(v, ast.Call) and call_name(v) == 'get_op_precedence' and norm(v.args[0]) != 'node.op')
                if any(isinstance(r_, ast.Return) and r_.value is not None and norm(r_.value) in gv for r_ in g.walk()):
                    return True
        return False
    cmp_ok = any(isinstance(n, ast.Compare) and len(n.ops) == 1 and isinstance(n.ops[0], (ast.Lt, ast.LtE)) and
                 norm(n.left) in childv and _is_parent_prec(n.comparators[0]) for x in sl for n in ast.walk(x))
    chk.ob('R15.3', f'{DELIM}.__init__ :: parentheses when the child binds weaker than its parent', cmp_ok,
           '`precedence < parent_precedence` enables the parentheses' if cmp_ok else 'comparison direction changed', init.loc)
    # the default parent precedence (non operator parents) is the highest unless set explicitly
    dflt = any(isinstance(n, ast.Call) and call_name(n) == 'get' and 'explicit_precedence' in norm(n) and 'highest' in norm(n)
               for x in sl for n in ast.walk(x))
    chk.ob('R15.3', f'{DELIM}.__init__ :: non-operator parents parenthesise by default', dflt,
           'explicit_precedence.get(node, Precedence.highest)' if dflt else
           'default precedence for non-operator parents (subscript value, call function, attribute base) is no longer the highest', init.loc)
    # a precedence chosen from the *type* of a non-operator parent cannot tell its children apart (subscripted value vs index,
    # called function vs argument): such an assignment must be control dependent on the position of the node in its parent
    parentv2 = names_assigned_from(init, lambda v: isinstance(v, ast.Call) and call_name(v) == 'get_op_precedence' and norm(v.args[0]) != 'node.op')
    for a in [n for n in init.walk() if isinstance(n, (ast.Assign, ast.AugAssign)) and
              any(isinstance(t, ast.Name) and t.id in parentv2 for t in (n.targets if isinstance(n, ast.Assign) else [n.target]))]:
        txt = norm(a.value)
        if isinstance(a, ast.AugAssign) or 'get_op_precedence' in txt or 'explicit_precedence' in txt:
            continue
        conds = [p.test for p in parents(a) if isinstance(p, ast.If)]
        positional = any(isinstance(c, ast.Compare) and any(isinstance(o, (ast.Is, ast.IsNot)) for o in c.ops) and 'parent_node.' in norm(c)
                         for t in conds for c in ast.walk(t))
        chk.ob('R15.3', f'{DELIM}.__init__ :: {norm(a)[:60]}', positional,
               'guarded by the position of the node in its parent' if positional else
               f'`{norm(a)}` lowers the parent precedence for every child of that parent type '
               f'({"; ".join(norm(t)[:50] for t in conds[:1])}): e.g. the subscripted value in `(a+b)[0]` loses its parentheses',
               repo.loc(init.mod, a))
    # __exit__ wraps with both delimiters
    ex = repo.func(f'{DELIM}.__exit__')
    outs = [const_str(c.args[0]) for c in calls_in(ex) if call_name(c) == '_output' and c.args]
    chk.ob('R15.3', f'{DELIM}.__exit__ :: balanced delimiters', outs == ['(', ')'], f'outputs {outs}', ex.loc)
    # every operator renderer is wrapped by the delimiter
    for q in ('_colorize_ast_unary_op', '_colorize_ast_binary_op', '_colorize_ast_bool_op'):
        f = repo.func(f'{COL}.{q}')
        withs = [n for n in f.walk() if isinstance(n, ast.With) and any(call_name(i.context_expr) == '_OperatorDelimiter'
                 for i in n.items if isinstance(i.context_expr, ast.Call))]
        outside = [c for c in calls_in(f) if call_name(c) in ('_colorize', '_output') and
                   not any(p in withs for p in parents(c))]
        chk.ob('R15.3', f'{COL}.{q} :: rendered inside the delimiter context', bool(withs) and not outside,
               'all output happens inside `with _OperatorDelimiter(...)`' if withs and not outside else
               'operator rendered outside the parenthesis context', f.loc)
    chk.require('R15.3', 9)

    # ------------------------------------------------------------------ R15.4
    # the generic renderer is what remains when every dedicated test fails: every fact dominating its call is negative
    cfga = CFG(astf)
    gcalls = [c for c in calls_in(astf) if call_name(c) == '_colorize_ast_generic']
    nbranches = 0
    ok = bool(gcalls)
    for c in gcalls:
        facts = cfga.dominating_tests(cfga.stmt_of(c))
        typed = [(t, pol) for t, pol in facts if isinstance(t, ast.Call) and call_name(t) in ('isinstance', '_is_ast_constant')]
        nbranches = max(nbranches, len(typed))
        if not typed or any(pol for t, pol in typed):
            ok = False
    chk.ob('R15.4', f'{COL}._colorize_ast :: unconditional generic fallback', ok,
           f'{nbranches} dedicated tests, the generic (astor) renderer is reached exactly when all of them fail' if ok else
           'the generic (astor) renderer is not the catch-all of the dispatch (it is missing or guarded by a positive test)', astf.loc)
    gen = repo.func(f'{COL}._colorize_ast_generic')
    ok = any(call_name(c) == 'to_source' for c in calls_in(gen)) and \
        all(enclosing_trys(c, gen.node) for c in calls_in(gen) if call_name(c) == 'to_source')
    chk.ob('R15.4', f'{COL}._colorize_ast_generic :: astor failure yields the unknown marker', ok,
           'astor.to_source inside try; failure appends UNKNOWN_REPR' if ok else 'astor.to_source is not guarded', gen.loc)
    # astor.to_source() runs its result through `pretty_source`, which WRAPS lines longer than ~100 columns (library fact, astor.source_repr).  The
    # colorizer treats a line break in the text as "the value continues on another line" and cuts the inline presentation (signatures) there - for a break
    # the expression never had.  The fallback has to switch the wrapping off (pretty_source=...) or remove the breaks it gets back
    for c in [c for c in calls_in(gen) if call_name(c) == 'to_source']:
        own_pretty = any(k.arg == 'pretty_source' for k in c.keywords)
        holder = {t.id for n in gen.walk() if isinstance(n, ast.Assign) and any(x is c for x in ast.walk(n.value)) for t in n.targets if isinstance(t, ast.Name)}
        rejoined = any(isinstance(x, ast.Call) and call_name(x) in ('replace', 'splitlines', 'split', 'join') and any(isinstance(y, ast.Name) and y.id in holder for y in ast.walk(x))
                       for x in gen.walk())
        chk.ob('R15.4', f'{COL}._colorize_ast_generic :: the text of the fallback has no line break the expression did not have', own_pretty or rejoined,
               'astor.to_source(..., pretty_source=...)' if own_pretty else 'the breaks are removed from the text' if rejoined else
               'astor.to_source() is called with its default pretty printer, which wraps at ~100 columns: a long lambda / comparison / comprehension as a default value is cut '
               'with `...` in the signature (`key=(lambda item, reverse, default_value, another_argument: (item.weight, it...)`) although no length limit applies there - the '
               'same expression made of operators and calls is shown in full', repo.loc(gen.mod, c))
    if nbranches < 10:
        chk.error(f'R15.4: only {nbranches} branches seen in _colorize_ast (15 confirmed by hand)')

    # ------------------------------------------------------------------ R15.5
    colz = repo.func(f'{COL}.colorize')
    trs = [n for n in colz.walk() if isinstance(n, ast.Try)]
    okm = False
    detail = 'no handler for _Maxlines/_Linebreak in colorize'
    for t in trs:
        for h in t.handlers:
            hn = set(x.split('.')[-1] for x in handler_names(h))
            if {'_Maxlines', '_Linebreak'} <= hn:
                cfg = CFG(colz)
                ell = [cfg.stmt_of(c) for st in h.body for c in ast.walk(st) if isinstance(c, ast.Call) and call_name(c) == 'append'
                       and c.args and 'ELLIPSIS' in norm(c.args[0])]
                # ... or calls a private method of the colorizer every path of which appends it (`self._mark_truncated(state.result)`)
                for c in [c for st in h.body for c in ast.walk(st) if isinstance(c, ast.Call)]:
                    for g in [g for g in repo.funcs.values() if g.cls is colz.cls and g is not colz and g.name == call_name(c) and g.name.startswith('_')]:
                        cg_ = CFG(g)
                        ge = [cg_.stmt_of(x) for x in calls_in(g) if call_name(x) == 'append' and x.args and 'ELLIPSIS' in norm(x.args[0])]
                        if ge and cg_.must_pass(cg_.ENTRY, cg_.EXIT, ge, no_exc=True):
                            ell.append(cfg.stmt_of(c))
                flagv = _complete_flag(colz)
                inc = [n for st in h.body for n in ast.walk(st) if isinstance(n, ast.Assign) and
                       any(isinstance(x, ast.Name) and x.id == flagv for x in n.targets) and
                       isinstance(n.value, ast.Constant) and n.value.value is False]
                after = cfg.successors(t)
                # every path through the handler appends the ellipsis and marks the result incomplete
                end = t.finalbody[0] if t.finalbody else None
                nxt = _next_after(colz, t)
                okm = bool(ell) and bool(inc) and nxt is not None and cfg.must_pass(h, nxt, ell, no_exc=True) and \
                    cfg.must_pass(h, nxt, [cfg.stmt_of(i) for i in inc], no_exc=True)
                detail = 'every path of the handler appends ELLIPSIS and sets is_complete = False' if okm else \
                    'a path through the _Maxlines/_Linebreak handler does not append the ellipsis marker or leaves is_complete True'
    chk.ob('R15.5', f'{COL}.colorize :: truncated output is marked', okm, detail, colz.loc)
    rets = [n for n in colz.walk() if isinstance(n, ast.Return) and isinstance(n.value, ast.Call)]
    ok = bool(rets) and _complete_flag(colz) is not None and \
        all(any(isinstance(a, ast.Name) and a.id == _complete_flag(colz) for a in r.value.args) for r in rets)  # type: ignore[attr-defined]
    chk.ob('R15.5', f'{COL}.colorize :: completeness flag handed to the result', ok,
           'ColorizedPyvalRepr(document, is_complete, warnings)' if ok else 'is_complete is not passed to the result', colz.loc)
    outp = repo.func(f'{COL}._output')
    wrap = [n for n in outp.walk() if isinstance(n, (ast.AugAssign, ast.Expr, ast.Assign)) and 'LINEWRAP' in norm(n) and 'result' in norm(n)]
    chk.ob('R15.5', f'{COL}._output :: wrapped lines carry the continuation mark', bool(wrap),
           'LINEWRAP appended in the wrapping branch' if wrap else 'the wrapping branch no longer appends LINEWRAP', outp.loc)
    # who raises / catches the control-flow exceptions
    for f in repo.funcs.values():
        for n in f.walk():
            if isinstance(n, ast.Raise) and n.exc is not None and ('_Maxlines' in norm(n.exc) or '_Linebreak' in norm(n.exc)):
                ok = f.qn == f'{COL}._output'
                chk.ob('R15.5', f'{f.qn} :: raises {norm(n.exc)}', ok, 'raised by _output only' if ok else
                       'truncation exception raised outside _output', repo.loc(f.mod, n))
            if isinstance(n, ast.ExceptHandler) and n.type is not None and ('_Maxlines' in norm(n.type) or '_Linebreak' in norm(n.type)):
                ok = f.qn in (f'{COL}.colorize', f'{COL}._multiline')
                if f.qn == f'{COL}._multiline':
                    ok = any(isinstance(r, ast.Raise) and r.exc is None for st in n.body for r in ast.walk(st))
                chk.ob('R15.5', f'{f.qn} :: catches {norm(n.type)}', ok,
                       'caught in colorize (marks truncation) / _multiline (retries or re-raises)' if ok else
                       'a truncation exception is swallowed here: the output would be shortened without a mark', repo.loc(f.mod, n))
    # catch-alls inside the colorizer must not swallow the control-flow exceptions
    for f in repo.funcs.values():
        if f.mod.name != 'pydoctor.epydoc.markup._pyval_repr' or f.cls is None or f.cls.name != 'PyvalColorizer':
            continue
        for n in f.walk():
            if isinstance(n, ast.ExceptHandler) and (n.type is None or norm(n.type) in ('Exception', 'BaseException')):
                tr = n._parent  # type: ignore[attr-defined]
                risky = [c for st in tr.body for c in ast.walk(st) if isinstance(c, ast.Call) and
                         call_name(c) in ('_output', '_colorize', '_colorize_ast', '_multiline', '_colorize_iter')]
                chk.ob('R15.5', f'{f.qn} :: catch-all does not enclose output calls', not risky,
                       'the try body makes no output call' if not risky else
                       f'`except {norm(n.type) if n.type else ""}` around {norm(risky[0])[:40]} would swallow _Maxlines/_Linebreak', repo.loc(f.mod, n))
    chk.require('R15.5', 8)

    # a value shown inline (defaults, annotations, decorators: maxlines=1) must not be allowed to break the line: with line breaks allowed a
    # string containing a newline is opened with ''' and cut after the first line - the displayed text is no expression any more
    ci = repo.func('pydoctor.epydoc.markup._pyval_repr.colorize_inline_pyval')
    mk = [c for c in calls_in(ci) if call_name(c) in ('colorize_pyval', 'PyvalColorizer')]
    if not mk:
        raise AnalysisError('R15.5: colorize_inline_pyval no longer builds its colorizer through colorize_pyval / PyvalColorizer')
    for c in mk:
        lb = next((k.value for k in c.keywords if k.arg == 'linebreakok'), None)
        oklb = isinstance(lb, ast.Constant) and lb.value is False
        chk.ob('R15.5', f'{COL.rsplit(".", 1)[0]}.colorize_inline_pyval :: inline values are colorized with linebreakok=False', oklb,
               norm(c)[:80] if oklb else
               f'`{norm(c)[:80]}` leaves linebreakok at its default (True) while maxlines is 1: the default `sep=\'\\n\'` is displayed as `sep=\'\'\'` + "..." '
               '- not valid Python', repo.loc(ci.mod, c))

    # the regular-expression colorizer prints a hard-coded `re.compile(r'...')` and binds the arguments to re.compile's signature: it may only be
    # used for calls whose callee is exactly re.compile
    cac = repo.func(f'{COL}._colorize_ast_call')
    cfc = CFG(cac)
    rec = [c for c in calls_in(cac) if call_name(c) == '_colorize_ast_re']
    if not rec:
        raise AnalysisError('R15.4: _colorize_ast_call no longer dispatches to _colorize_ast_re')
    for c in rec:
        exact_re = any(pol and isinstance(t, ast.Compare) and len(t.ops) == 1 and isinstance(t.ops[0], ast.Eq) and
                       any(isinstance(x, ast.List) and [const_str(e) for e in x.elts] == ['re', 'compile'] for x in (t.left, t.comparators[0])) and
                       not any(isinstance(x, ast.Subscript) for x in (t.left, t.comparators[0]))
                       for t, pol in cfc.dominating_tests(cfc.stmt_of(c)))
        chk.ob('R15.4', f'{COL}._colorize_ast_call :: the regex form is used for re.compile(...) only', exact_re,
               "node2dottedname(func) == ['re', 'compile']" if exact_re else
               'the test accepts other callees: `regex.compile(...)` or `env.compile(pattern=...)` is displayed as `re.compile(r\'...\')` - another callee, keyword '
               'arguments turned positional, the string re-spelled as a regex', repo.loc(cac.mod, c))

    # ------------------------------------------------------------------ R15.6 control characters keep their value
    check_control_escape(repo, chk, 'R15.6')

    # docutils uses NUL as its internal escape marker: nodes.Text.astext() / nodes.unescape() delete every \x00 from the text, so a NUL
    # that reaches a Text node never arrives at html2stan (which would write it as \x00).  The string escaper has to spell it out itself.
    se = repo.func('pydoctor.epydoc.markup._pyval_repr._str_escape')
    handled = {}
    for g in [se] + [h for h in repo.funcs.values() if h.qn.startswith(se.qn + '.')]:
        for n in g.walk():
            if isinstance(n, ast.If) and isinstance(n.test, ast.Compare) and len(n.test.comparators) == 1 and \
                    isinstance(n.test.comparators[0], ast.Constant) and isinstance(n.test.comparators[0].value, str):
                repl = [st.value.value for st in n.body if isinstance(st, ast.Assign) and isinstance(st.value, ast.Constant) and isinstance(st.value.value, str)]
                handled[n.test.comparators[0].value] = repl[0] if repl else None
        from ..util import scope_nodes as _scope_nodes
        for n in _scope_nodes(repo, g):      # the table may be a module constant (`_STR_ESCAPES.get(c, c)`)
            if isinstance(n, ast.Dict):
                for k_, v_ in zip(n.keys, n.values):
                    if isinstance(k_, ast.Constant) and isinstance(k_.value, str) and isinstance(v_, ast.Constant):
                        handled[k_.value] = v_.value
    if len(handled) < 5:
        raise AnalysisError(f'R15.6: only {len(handled)} character escapes found in _str_escape (7 confirmed)')
    oknul = handled.get('\x00') in ('\\x00', '\\0', '\\000')
    chk.ob('R15.6', '_pyval_repr._str_escape :: NUL is written as an escape before it reaches docutils', oknul,
           f"'\\x00' -> {handled.get(chr(0))!r}" if oknul else
           "a NUL inside a str value is handed to docutils raw; Text.astext() removes it: the default `'\\x00'` is displayed as `''`, `'a\\x00b'` as `'ab'` "
           '(bytes values are not affected, repr() escapes them)', se.loc)
    # and every escape it writes reads back as the character it replaces
    wrong = {k: v for k, v in handled.items() if v is not None and _reads_back(v) != k}
    chk.ob('R15.6', '_pyval_repr._str_escape :: every escape reads back as the character it replaces', not wrong,
           ', '.join(f'{k!r}->{v}' for k, v in sorted(handled.items()) if v is not None)[:150] if not wrong else
           f'{wrong}: the displayed text denotes another character', se.loc)

    # _colorize_str always wraps the escaped text in single quotes: both escapers must escape a single quote.  _bytes_escape takes
    # repr(b) without its quotes - but repr() switches to double quotes (and leaves ' unescaped) when the value contains ' and no "
    be = repo.func('pydoctor.epydoc.markup._pyval_repr._bytes_escape')
    from_repr = any(isinstance(n, ast.Call) and call_name(n) == 'repr' for n in be.walk())
    esc_quote = any(isinstance(n, ast.Call) and call_name(n) == 'replace' and n.args and const_str(n.args[0]) == "'" and
                    len(n.args) > 1 and const_str(n.args[1]) == "\\'" for n in be.walk())
    okq = (not from_repr) or esc_quote
    chk.ob('R15.6', "_pyval_repr._bytes_escape :: a single quote is escaped whatever quotes repr() chose", okq and (handled.get("'") == "\\'"),
           "repr-derived text with ' escaped; _str_escape maps ' to \\'" if okq else
           "the text between repr()'s own quotes is reused inside single quotes: for b\"it's\" repr() uses double quotes and leaves the ' bare, the value is "
           "displayed as b'it's' - not the same expression, not even valid Python", be.loc)

    # live numbers: a float is shown through str(); an overflowing literal (1e999) is the float `inf`, and str() gives `inf`, which reads back
    # as a name, not a number - the float branch must not print str(value) as is
    cz = repo.func(f'{COL}._colorize')
    cfz = CFG(cz)
    pv = cz.params()[1].arg
    n_fl = 0
    for c in calls_in(cz, lambda c: call_name(c) == '_output' and c.args):
        facts = cfz.dominating_tests(cfz.stmt_of(c))
        is_float_branch = any(pol and any(isinstance(x, ast.Name) and x.id in ('float', 'complex') for x in ast.walk(t)) for t, pol in facts)
        if not is_float_branch:
            continue
        n_fl += 1
        bare = isinstance(c.args[0], ast.Call) and call_name(c.args[0]) in ('str', 'repr') and len(c.args[0].args) == 1 and norm(c.args[0].args[0]) == pv
        chk.ob('R15.6', f'{COL}._colorize :: a non-finite float is not printed as a name', not bare,
               f'`{norm(c.args[0])[:60]}`' if not bare else
               f'`{norm(c.args[0])}` prints the float `inf` (what the literal 1e999 evaluates to) as `inf` / `-inf` / `infj`: read back, that is an undefined name', repo.loc(cz.mod, c))
    if n_fl < 1:
        raise AnalysisError('R15.6: the float branch of PyvalColorizer._colorize was not found')

    # regular expressions: a literal `-` between two members of a character set must stay escaped, or the set reads as a range
    rt = repo.func(f'{COL}._colorize_re_tree')
    esc_sets = [n for n in rt.walk() if isinstance(n, ast.Compare) and len(n.ops) == 1 and isinstance(n.ops[0], ast.In) and
                isinstance(n.comparators[0], ast.Constant) and isinstance(n.comparators[0].value, str) and '\\' in n.comparators[0].value and '[' in n.comparators[0].value]
    if not esc_sets:
        raise AnalysisError('R15.6: the list of characters _colorize_re_tree escapes in a LITERAL was not found')
    hy = any('-' in n.comparators[0].value for n in esc_sets) or \
        any(isinstance(n, ast.Compare) and len(n.ops) == 1 and isinstance(n.ops[0], ast.Eq) and const_str(n.comparators[0]) == '-' for n in rt.walk())
    chk.ob('R15.6', f'{COL}._colorize_re_tree :: a literal hyphen in a character set stays escaped', hy,
           'escaped (at least inside sets)' if hy else
           "`-` is not among the escaped characters and the same code renders set members: re.compile(r'[a\\-z]') is displayed as r'[a-z]' (26 letters "
           "instead of 3 characters), r'[+\\-*/]' as r'[\\+-\\*/]' (not a valid pattern)", rt.loc)

    # ------------------------------------------------------------------ R15.7 string arguments of Literal[...] stay strings
    # unstring_annotation turns 'X' into X everywhere except inside Literal[...]: there a string IS the value.  Literal is recognised
    # by its last component, whatever the qualifier (typing.Literal, typing_extensions.Literal, t.Literal)
    vs = repo.func('pydoctor.astutils._AnnotationStringParser.visit_Subscript')
    cfv = CFG(vs)
    np_ = vs.params()[1].arg
    raw = [n for n in vs.walk() if isinstance(n, ast.Assign) and norm(n.value) == f'{np_}.slice']
    if not raw:
        raise AnalysisError('R15.7: no branch of _AnnotationStringParser.visit_Subscript keeps the slice unparsed any more')
    name_ok = attr_ok = False
    restricted: List[str] = []
    from ..util import values_of as _values_of

    def _compared(e: ast.AST) -> List[ast.AST]:
        if isinstance(e, ast.Name):
            return [v for v in _values_of(vs, e.id) if not (isinstance(v, ast.Constant) and v.value is None)]
        return [e]
    def _helper_compares(t: ast.AST, word: str) -> List[ast.AST]:
        """`self._is_typing_form(value, 'Literal')`: the expressions the private helper compares with the parameter that receives `word`."""
        out: List[ast.AST] = []
        if isinstance(t, ast.Call) and call_name(t).startswith('_'):
            for g_ in [g for g in repo.funcs.values() if g.mod is vs.mod and g.name == call_name(t) and (g.cls is None or g.cls is vs.cls)]:
                gpar = [p_.arg for p_ in g_.params() if p_.arg not in ('self', 'cls')]
                recv = [gp_ for gp_, a_ in zip(gpar, t.args) if isinstance(a_, ast.Constant) and a_.value == word]
                for c_ in g_.walk():
                    if isinstance(c_, ast.Compare) and len(c_.ops) == 1 and isinstance(c_.ops[0], ast.Eq) and norm(c_.comparators[0]) in recv:
                        out.append(c_.left)
        return out
    for a in raw:
        facts = [(t, pol) for t, pol in cfv.dominating_tests(a) if pol]
        strs = {c.value for t, _ in facts for c in ast.walk(t) if isinstance(c, ast.Constant) and isinstance(c.value, str)}
        if 'Annotated' in strs and 'Literal' not in strs:
            continue        # a local alias of the slice inside the Annotated branch (`args = node.slice`): that branch has its own obligation below
        cmps = [t for t, _ in facts if isinstance(t, ast.Compare) and len(t.ops) == 1 and isinstance(t.ops[0], ast.Eq) and
                isinstance(t.comparators[0], ast.Constant) and t.comparators[0].value == 'Literal']
        for t, _ in facts:
            for lv in _helper_compares(t, 'Literal'):
                if isinstance(lv, ast.Attribute) and lv.attr == 'id':
                    name_ok = True
                if isinstance(lv, ast.Attribute) and lv.attr == 'attr':
                    attr_ok = True
        if strs - {'Literal'}:
            restricted.append(norm(facts[-1][0])[:80] if facts else '?')
            continue
        for t in cmps:
            # what is compared with 'Literal': `value.id` / `value.attr`, directly or through a local that receives them (`subscripted_name`)
            for lv in _compared(t.left):
                if isinstance(lv, ast.Attribute) and lv.attr == 'id':
                    name_ok = True
                if isinstance(lv, ast.Attribute) and lv.attr == 'attr':
                    attr_ok = True
                if isinstance(lv, ast.Subscript) and norm(lv.slice) == '-1':
                    name_ok = attr_ok = True
    if not (name_ok and attr_ok) and not restricted:
        raise AnalysisError('R15.7: the test recognising Literal[...] in visit_Subscript has an unknown shape (re-confirm by hand)')
    chk.ob('R15.7', 'astutils._AnnotationStringParser.visit_Subscript :: Literal[...] is recognised under any qualifier', name_ok and attr_ok,
           "bare name `Literal` and any `<qualifier>.Literal` keep their string arguments" if name_ok and attr_ok else
           f'Literal is only recognised under `{restricted[0] if restricted else "?"}`: for other spellings (typing_extensions.Literal, t.Literal) the string '
           "arguments are parsed as code, `Literal['a']` is displayed as `Literal[a]`", vs.loc)
    # Annotated[T, metadata...]: only T is a type; the metadata are arbitrary values, a string there IS a string
    ann_branch = False
    for n in vs.walk():
        if any(isinstance(lv, ast.Attribute) and lv.attr in ('id', 'attr') for lv in _helper_compares(n, 'Annotated')):
            ann_branch = True
        if isinstance(n, ast.Compare) and len(n.ops) == 1 and isinstance(n.ops[0], ast.Eq) and const_str(n.comparators[0]) == 'Annotated' and \
                any(isinstance(lv, ast.Attribute) and lv.attr in ('id', 'attr') for lv in _compared(n.left)):
            ann_branch = True
        if isinstance(n, ast.Compare) and isinstance(n.left, ast.Subscript) and norm(n.left.slice) == '-1' and any(const_str(c) == 'Annotated' for c in n.comparators):
            ann_branch = True
    first_only = any(isinstance(x, ast.Call) and call_name(x) == 'visit' and x.args and isinstance(x.args[0], ast.Subscript) and
                     isinstance(x.args[0].value, ast.Attribute) and x.args[0].value.attr == 'elts' and norm(x.args[0].slice) == '0' for x in vs.walk())
    chk.ob('R15.7', 'astutils._AnnotationStringParser.visit_Subscript :: the metadata of Annotated[...] keep their strings', ann_branch and first_only,
           'only the first argument of Annotated[...] is unstringed' if ann_branch and first_only else
           'Annotated is treated like any other subscript, every string in it is parsed as code: `Annotated[float, "meters"]` is displayed as '
           '`Annotated[float, meters]`, `Field(alias="id")` as `Field(alias=id)`', vs.loc)
    chk.require('R15.7', 2)

    # ------------------------------------------------------------------ R15.10
    # `re.compile(...)` values are displayed from the tree of the vendored regex parser (sre_parse36), not from the source text.  Writer/reader
    # agreement: for every node kind whose argument is a tuple of n components in the parser, the branch of `_colorize_re_tree` that handles that kind
    # reads all n of them (or iterates the tuple) - a component that is stored but never read is dropped from the display (`(?i:a)b` -> `(?:a)b`)
    sp_mod = repo.mod('pydoctor.epydoc.sre_parse36')
    arity: Dict[str, int] = {}
    for n in ast.walk(sp_mod.tree):
        if isinstance(n, ast.Call) and len(n.args) == 1 and isinstance(n.args[0], ast.Tuple) and \
                len(n.args[0].elts) == 2 and isinstance(n.args[0].elts[0], ast.Name) and n.args[0].elts[0].id.isupper() and isinstance(n.args[0].elts[1], ast.Tuple):
            arity[n.args[0].elts[0].id] = max(arity.get(n.args[0].elts[0].id, 0), len(n.args[0].elts[1].elts))
    if len(arity) < 4:
        raise AnalysisError(f'R15.10: {len(arity)} tuple-valued node kinds found in sre_parse36 (BRANCH, GROUPREF_EXISTS, RANGE, ASSERT, ASSERT_NOT, SUBPATTERN confirmed)')
    rt = repo.func(f'{COL}._colorize_re_tree')
    argv = None
    treep = rt.params()[1].arg
    elts = {lp.target.id for lp in rt.walk() if isinstance(lp, ast.For) and isinstance(lp.iter, ast.Name) and lp.iter.id == treep and isinstance(lp.target, ast.Name)}
    for n in rt.walk():
        if isinstance(n, ast.Assign) and isinstance(n.value, ast.Subscript) and isinstance(n.value.slice, ast.Constant) and n.value.slice.value == 1 and \
                isinstance(n.value.value, ast.Name) and n.value.value.id in elts and isinstance(n.targets[0], ast.Name):
            argv = n.targets[0].id
    if argv is None:
        raise AnalysisError('R15.10: the local holding the node argument (elt[1]) was not found in _colorize_re_tree')
    n510 = 0
    for n in rt.walk():
        if not isinstance(n, ast.If):
            continue
        kinds = {x.attr for x in ast.walk(n.test) if isinstance(x, ast.Attribute) and x.attr in arity}
        if not kinds:
            continue
        idx = {x.slice.value for st in n.body for x in ast.walk(st) if isinstance(x, ast.Subscript) and isinstance(x.value, ast.Name) and x.value.id == argv and
               isinstance(x.slice, ast.Constant) and isinstance(x.slice.value, int)}
        whole = any(isinstance(x, (ast.For, ast.comprehension)) and isinstance(x.iter, ast.Name) and x.iter.id == argv for st in n.body for x in ast.walk(st)) or \
            any(isinstance(x, ast.Call) and any(isinstance(a, ast.Name) and a.id == argv for a in x.args) for st in n.body for x in ast.walk(st))
        for k in sorted(kinds):
            n510 += 1
            missing = [i for i in range(arity[k]) if i not in idx]
            ok10 = whole or not missing
            chk.ob('R15.10', f'{COL}._colorize_re_tree :: every component of a {k} node is read', ok10,
                   f'{arity[k]} component(s), all read' if ok10 else
                   f'the parser stores {arity[k]} components in a {k} node, component(s) {missing} are never read: what they say is dropped from the displayed '
                   'expression (inline flags of a group: `(?i:a)b` is shown as `(?:a)b`, a different expression)', repo.loc(rt.mod, n))
    if n510 < 4:
        raise AnalysisError(f'R15.10: {n510} tuple-valued node kinds handled by _colorize_re_tree found (5 confirmed)')
    # the parser factors a common prefix out of the alternatives (`abc|ade` -> a, BRANCH(bc, de)): a BRANCH can have siblings in its sequence, and
    # `|` binds weaker than juxtaposition - so the serializer has to delimit a branch (a group opener emitted in the BRANCH case)
    brs = [n for n in rt.walk() if isinstance(n, ast.If) and any(isinstance(x, ast.Attribute) and x.attr == 'BRANCH' for x in ast.walk(n.test))]
    if not brs:
        raise AnalysisError('R15.10: the BRANCH case of _colorize_re_tree was not found')
    for n in brs:
        opens = any(isinstance(x, ast.Constant) and isinstance(x.value, str) and x.value.startswith('(') for st in n.body for x in ast.walk(st))
        chk.ob('R15.10', f'{COL}._colorize_re_tree :: a branch with siblings is delimited', opens,
               'a group opener is written in the BRANCH case' if opens else
               'the alternatives are written bare, joined with `|`: for `abc|ade` the parser yields `a` followed by BRANCH(bc, de), displayed as `abc|de`, which '
               'matches "de" and not "ade"', repo.loc(rt.mod, n))
    # the dedicated rendering of `re.compile(...)` shows the arguments that bind_args() binds (pattern, flags).  A `**mapping` argument is not bound to
    # anything and would vanish from the display: such a call has to be left to the generic call renderer
    cre = repo.func(f'{COL}._colorize_ast_re')
    nodep = cre.params()[1].arg
    kwtest = [n for n in cre.walk() if isinstance(n, ast.If) and any(isinstance(x, ast.Attribute) and x.attr == 'arg' for x in ast.walk(n.test)) and
              any(isinstance(x, ast.Attribute) and x.attr == 'keywords' for x in ast.walk(n.test)) and
              any(isinstance(c, ast.Call) and call_name(c) == '_colorize_ast_call_generic' for st in n.body for c in ast.walk(st))]
    chk.ob('R15.10', f'{COL}._colorize_ast_re :: a call with a ** argument is not rendered from the bound arguments', bool(kwtest),
           'handed to the generic call renderer' if kwtest else
           '`re.compile(r"[a-z]+", **OPTIONS)` is displayed as `re.compile(r"[a-z]+")`: the options disappear and nothing marks the value as incomplete', cre.loc)
    # expression classes without a dedicated branch are written by astor.  Two of astor's visit methods do not write what was read (confirmed by
    # the hunters against the interpreter): visit_JoinedStr quotes the source of the replacement fields as if it were literal text (`f'{"\n".join(N)}'`
    # -> doubled backslashes; a set display becomes escaped braces), visit_Slice gives the bounds a precedence below Tuple (`G[(0, 0):(2, 2)]` ->
    # `G[0, 0:2, 2]`).  The fallback has to go through a generator class that overrides both
    gen = repo.func(f'{COL}._colorize_ast_generic')
    ts = [c for c in calls_in(gen) if call_name(c) == 'to_source']
    if not ts:
        raise AnalysisError('R15.10: _colorize_ast_generic no longer calls astor.to_source')
    for c in ts:
        kw = next((k.value for k in c.keywords if k.arg == 'source_generator_class'), None)
        klass = repo.classes.get(f'{gen.mod.name}.{kw.id}') if isinstance(kw, ast.Name) else None
        have = set(klass.methods) if klass is not None else set()
        missing = [m_ for m_ in ('visit_JoinedStr', 'visit_Slice') if m_ not in have]
        chk.ob('R15.10', f'{COL}._colorize_ast_generic :: the two astor visit methods that do not write what was read are overridden', not missing,
               f'source_generator_class={kw.id} overrides both' if not missing and isinstance(kw, ast.Name) else
               f'{missing} are astor\'s own: an f-string default is displayed with doubled backslashes / escaped braces, `GRID[(0, 0):(2, 2)]` as `GRID[0, 0:2, 2]` - '
               'other expressions than the ones written', repo.loc(gen.mod, c))
    chk.require('R15.10', 7)

    # ------------------------------------------------------------------ R15.9
    # `_set_precedence(P, child)` tells the parenthesis decision that `child` sits in a delimited position, so operators down to precedence P are
    # written bare.  That is only right where the GRAMMAR accepts a full expression without parentheses (a dict value: `{k: a or b}`); behind a star
    # of a display it takes a `bitwise_or` only - `[*a or b]` is a syntax error, `(*a and b, c)` means something else.  Oracle: the interpreter's
    # parser, asked with every operator class (ast.boolop / unaryop / operator, a comparison) in that position.
    POSITION_TEMPLATES = {           # (node class, field) -> source templates with the child in that position
        ('Dict', 'values'): ['{{k: {e}}}', '{{k: {e}, j: 1}}'],
        ('Starred', 'value'): ['[*{e}]', '(*{e}, c)', '{{*{e}}}'],
        ('keyword', 'value'): ['f(k={e})'],
        ('Call', 'args'): ['f({e})', 'f({e}, 1)'],
        ('Subscript', 'slice'): ['x[{e}]'],
        ('List', 'elts'): ['[{e}, 1]'], ('Tuple', 'elts'): ['({e}, 1)'], ('Set', 'elts'): ['{{{e}, 1}}'],
    }
    def _op_samples() -> List[str]:
        out_ = ['a or b', 'a and b', 'not a', 'a < b', 'a if b else c']
        sym = {'Add': '+', 'Sub': '-', 'Mult': '*', 'MatMult': '@', 'Div': '/', 'Mod': '%', 'Pow': '**', 'LShift': '<<', 'RShift': '>>', 'BitOr': '|',
               'BitXor': '^', 'BitAnd': '&', 'FloorDiv': '//'}
        for k in ast.operator.__subclasses__():
            if k.__name__ in sym:
                out_.append(f'a {sym[k.__name__]} b')
        out_ += ['-a', '+a', '~a']
        return out_
    def _same_child(tmpl: str, e: str) -> bool:
        try:
            got = ast.parse(tmpl.format(e=e), mode='eval')
            want = ast.parse(tmpl.format(e='(' + e + ')'), mode='eval')
        except SyntaxError:
            return False
        return ast.dump(got) == ast.dump(want)
    n159 = 0
    for f in sorted((g for g in repo.funcs.values() if g.cls is not None and g.cls.qn == COL), key=lambda g: g.qn):
        cf9 = None
        for c in calls_in(f):
            if call_name(c) != '_set_precedence' or len(c.args) < 2 or norm(c.args[0]).endswith('highest'):
                continue
            for child in c.args[1:]:
                n159 += 1
                pos = None
                if isinstance(child, ast.Attribute) and isinstance(child.value, ast.Name):
                    cf9 = cf9 or CFG(f)
                    for t, pol in cf9.dominating_tests(cf9.stmt_of(c)):
                        if pol and isinstance(t, ast.Call) and call_name(t) == 'isinstance' and len(t.args) == 2 and norm(t.args[0]) == child.value.id and \
                                isinstance(t.args[1], ast.Attribute):
                            pos = (t.args[1].attr, child.attr)
                elif isinstance(child, ast.Name) and 'dict' in f.name:
                    # the (key, value) pairs handed to the dict renderer: zip(node.keys, node.values)
                    lp = [n for n in f.walk() if isinstance(n, ast.For) and any(isinstance(x, ast.Name) and x.id == child.id for x in ast.walk(n.target))]
                    if lp:
                        tg = [x for x in ast.walk(lp[0].target) if isinstance(x, ast.Tuple) and any(isinstance(e_, ast.Name) and e_.id == child.id for e_ in x.elts)]
                        if tg and [isinstance(e_, ast.Name) and e_.id == child.id for e_ in tg[0].elts].index(True) == 1:
                            pos = ('Dict', 'values')
                if pos is None or pos not in POSITION_TEMPLATES:
                    raise AnalysisError(f'R15.9: cannot tell the syntactic position of `{norm(child)}` in {f.qn} (`{norm(c)[:60]}`): re-confirm by reading')
                badp = [(tm, e) for tm in POSITION_TEMPLATES[pos] for e in _op_samples() if not _same_child(tm, e)]
                chk.ob('R15.9', f'{f.qn} :: a lowered precedence is forced onto ast.{pos[0]}.{pos[1]} only if that position takes any expression bare', not badp,
                       f'{len(POSITION_TEMPLATES[pos]) * len(_op_samples())} operator/position combinations read back as the same tree without parentheses' if not badp else
                       f'`{badp[0][0].format(e=badp[0][1])}` does not read back as `{badp[0][0].format(e="(" + badp[0][1] + ")")}` ({len(badp)} such combinations): the '
                       'displayed expression is a syntax error or a different expression', repo.loc(f.mod, c))
    if n159 < 1:
        raise AnalysisError('R15.9: no _set_precedence site with a lowered precedence found (1 confirmed: dict values)')
    chk.require('R15.9', 1)
    # the other end of the same mechanism: where nothing was forced, the operator is compared with the HIGHEST precedence (parenthesise unless told otherwise).
    # A lower default chosen from the CLASS of the parent (Call, Subscript) ignores which field holds the operator: arguments and indexes are delimited,
    # the callee and the subscripted value are not - `(a or b)[0]` would be shown as `a or b[0]`.  A lowered default needs an identity test of the field
    di = repo.func(f'{DELIM}.__init__')
    cfd = CFG(di)
    # (__init__ together with the private methods of the delimiter it computes the precedences in)
    from ..util import impl_funcs as _impl15
    di_units = _impl15(repo, di, depth=1)
    gets_u = [(u, c) for u in di_units for c in calls_in(u) if call_name(c) == 'get' and isinstance(c.func, ast.Attribute) and 'explicit_precedence' in norm(c.func.value)]
    gets = [c for _, c in gets_u]
    if not gets:
        raise AnalysisError('R15.9: _OperatorDelimiter.__init__ no longer reads explicit_precedence.get(node, <default>)')
    for k_, (u_, c) in enumerate(gets_u):
        cfu_ = cfd if u_ is di else CFG(u_)
        dflt = c.args[1] if len(c.args) > 1 else None
        high = dflt is not None and norm(dflt).endswith('Precedence.highest')
        field_test = any(pol and isinstance(t, ast.Compare) and len(t.ops) == 1 and isinstance(t.ops[0], ast.Is) and isinstance(t.comparators[0], ast.Attribute)
                         for t, pol in cfu_.dominating_tests(cfu_.stmt_of(c)))
        chk.ob('R15.9', f'{DELIM}.__init__ :: default precedence #{k_ + 1} of a position nothing was forced onto is the highest', high or field_test,
               'Precedence.highest' if high else 'lowered under an identity test of the field that holds the operator' if field_test else
               f'default `{norm(dflt) if dflt is not None else "None"}` chosen from the class of the parent alone: the operator may be the callee / the subscripted value, where no delimiter '
               'follows - `(a or b)[0]` is shown as `a or b[0]`, `(a+b)(c)` as `a+b(c)`, `(-a)[1:]` as `-a[1:]` (valid Python, another grouping)', repo.loc(di.mod, c))

    # ------------------------------------------------------------------ R15.8
    # the secondary (plain text) rendering of a colorized value shows the text of the whole document ParsedDocstring.to_node() returns.  docutils'
    # Element.astext() joins the children of an element with a blank line ('\n\n'): on a document that separates every token of the expression
    # (the quote, the text and the closing quote of a string end up on different lines).  The text has to be collected leaf by leaf (node2stan.gettext)
    n_txt = 0
    for f in sorted(repo.funcs.values(), key=lambda g: g.qn):
        docs = names_assigned_from(f, lambda v: isinstance(v, ast.Call) and call_name(v) == 'to_node')
        for c in calls_in(f):
            if call_name(c) == 'gettext' and c.args and ((isinstance(c.args[0], ast.Call) and call_name(c.args[0]) == 'to_node') or
                                                         (isinstance(c.args[0], ast.Name) and c.args[0].id in docs)):
                n_txt += 1
                chk.ob('R15.8', f'{f.qn} :: the text of the document is collected leaf by leaf', True, norm(c)[:80], repo.loc(f.mod, c))
            elif call_name(c) == 'astext' and isinstance(c.func, ast.Attribute) and \
                    ((isinstance(c.func.value, ast.Call) and call_name(c.func.value) == 'to_node') or (isinstance(c.func.value, ast.Name) and c.func.value.id in docs)):
                n_txt += 1
                chk.ob('R15.8', f'{f.qn} :: the text of the document is collected leaf by leaf', False,
                       f'`{norm(c)[:70]}`: Element.astext() separates the children of the document with blank lines - every token of a displayed expression '
                       'lands on a line of its own, string literals are cut at their quotes and the text no longer reads back as the source expression',
                       repo.loc(f.mod, c))
    if n_txt < 2:
        raise AnalysisError(f'R15.8: {n_txt} plain-text renderings of a to_node() document found (2 confirmed: colorized_pyval_fallback, _field_body_fallback)')
    chk.require('R15.8', 2)


def _reads_back(esc: str) -> Optional[str]:
    """The character a backslash escape denotes inside a single-quoted Python literal (the checker's own evaluation of the table entry)."""
    try:
        v = ast.literal_eval("'" + esc + "'")
    except Exception:
        return None
    return v if isinstance(v, str) else None


def check_control_escape(repo: Repo, chk: Check, rule: str) -> None:
    """html2stan replaces raw control characters by their Python hex escape (the text must still read as the same character)."""
    import re as _re
    f = repo.func('pydoctor.stanutils.html2stan')
    subs = [c for c in calls_in(f) if call_name(c) == 'sub' and '_RE_CONTROL' in norm(c.func)]
    if not subs:
        chk.error(f'{rule}: _RE_CONTROL.sub(...) not found in html2stan')
        return
    for c in subs:
        repl = c.args[0] if c.args else None
        # a replacement given by name: read the module-level function it names
        if isinstance(repl, ast.Name) and f'{f.mod.name}.{repl.id}' in repo.funcs:
            repl = repo.funcs[f'{f.mod.name}.{repl.id}'].node
        consts: List[str] = []
        for n in ast.walk(repl) if repl is not None else []:
            if isinstance(n, ast.Constant) and isinstance(n.value, (str, bytes)):
                consts.append(n.value.decode('latin1') if isinstance(n.value, bytes) else n.value)
        specs = [m for k in consts for m in _re.findall(r'%0?\d*[a-zA-Z]|\{[^}]*\}|^0?\d*[xXdob]$', k)]
        uses_ord = repl is not None and any(isinstance(n, ast.Call) and call_name(n) == 'ord' for n in ast.walk(repl))
        if not specs or not uses_ord:
            chk.error(f'{rule}: the control-character replacement in html2stan has a form this rule cannot read ({norm(repl)[:60] if repl is not None else "?"})')
            continue
        # every escape is written with the number of hex digits its prefix takes: \\xNN, \\uNNNN, \\UNNNNNNNN
        width = {'x': '02', 'u': '04', 'U': '08'}
        pairs = [(m.group(1), m.group(2)) for k in consts for m in _re.finditer(r'\\([xuU])%(0?\d*)[xX]', k)]
        hexok = bool(pairs) and all(width.get(p_) == w_ for p_, w_ in pairs) and len(pairs) == len(specs) or \
            (all(_re.fullmatch(r'%02[xX]|\{[^}]*:02[xX]\}|02[xX]', sp) for sp in specs) and any('\\x' in k for k in consts))
        chk.ob(rule, 'pydoctor.stanutils.html2stan :: control characters become \\xNN hex escapes', hexok,
               f'replacement {norm(c.args[0])[:50]} writes hex escapes of the right width' if hexok else
               f'replacement {norm(c.args[0])[:60]} does not write the two-digit *hex* code after \\x: e.g. \\x1b would be displayed as another character',
               repo.loc(f.mod, c))


def _complete_flag(colz: Func) -> Optional[str]:
    """The local that is passed as second argument of the ColorizedPyvalRepr(...) result (the completeness flag)."""
    for n in colz.walk():
        if isinstance(n, ast.Return) and isinstance(n.value, ast.Call) and call_name(n.value) == 'ColorizedPyvalRepr' and len(n.value.args) >= 2 \
                and isinstance(n.value.args[1], ast.Name):
            return n.value.args[1].id
    return None


def _next_after(f: Func, t: ast.stmt) -> Optional[ast.stmt]:
    body = f.node.body
    for i, s in enumerate(body):
        if s is t and i + 1 < len(body):
            return body[i + 1]
    return None


def _slice(f: Func, stmt: ast.stmt) -> Set[ast.AST]:
    """Intra-procedural backward slice (data + control) of `stmt`: the statements and tests it depends on."""
    out: Set[ast.AST] = set()
    seen_names: Set[str] = set()
    todo: List[ast.AST] = [stmt]
    while todo:
        x = todo.pop()
        if x in out:
            continue
        out.add(x)
        # control dependence: enclosing tests
        for p in parents(x):
            if p is f.node:
                break
            if isinstance(p, (ast.If, ast.While)) and p.test not in out:
                todo.append(p.test)
                out.add(p)
            if isinstance(p, ast.Try):
                out.add(p)
        # data dependence: assignments to the names read
        reads = {n.id for n in ast.walk(x) if isinstance(n, ast.Name) and isinstance(n.ctx, ast.Load)}
        if isinstance(x, (ast.If, ast.While)):
            reads = {n.id for n in ast.walk(x.test) if isinstance(n, ast.Name)}
        for nm in reads - seen_names:
            seen_names.add(nm)
            for a in f.walk():
                tg: List[ast.AST] = []
                if isinstance(a, ast.Assign):
                    tg = list(a.targets)
                elif isinstance(a, (ast.AugAssign, ast.AnnAssign)):
                    tg = [a.target]
                if any(isinstance(t, ast.Name) and t.id == nm for t in tg):
                    todo.append(a)
    return out
