"""
C16 - warnings are counted and drive the exit status.  Claimed for the COUNTING clause only:
  R16.1 System.msg counts every negative-threshold message, independently of verbosity, after the `once` de-duplication
  R16.2 the problem reporters named by the property report with the default (counting) threshold
  R16.3 exit status computation in driver.main; reportErrors records the object before it reports
and for the PROVENANCE part of the location clause:
  R16.4 a report names the file the object itself was read from (source_path set once, read from self), `<file>:<line>: <text>`;
        a type field keeps the line of its field
  R16.5 unit agreement: a docutils line (1-based) is converted where a ParseError (0-based) is built
  R16.7 the linker that reports a problem and the context object that locates it belong to the same object
  R16.6 the line of a field generated from a consolidated list item is the line where the item starts (its first node)
  R16.8 an element the reST parser builds itself around parsed content (directive argument paragraph, consolidated-field item) carries a line
Does not decide: any line arithmetic (offsets inside a docstring are runtime values).
"""
from __future__ import annotations

import ast
from typing import Dict, List, Optional, Set, Tuple

from ..core import AnalysisError, Func, Repo, dotted, norm, parents
from ..cfg import CFG
from ..report import Check
from ..util import call_name, calls_in, impl_funcs, origins

M = 'pydoctor.model'

# (function, what it reports): the reporters the property names
REPORTERS = [
    ('pydoctor.linker._EpydocLinker._resolve_identifier_xref', 'unresolvable cross-reference'),
    ('pydoctor.linker._EpydocLinker.look_for_name', 'ambiguous cross-reference'),
    ('pydoctor.epydoc2stan.reportErrors', 'markup error'),
    ('pydoctor.epydoc2stan.Field.report', 'unknown field / parameter problems'),
    ('pydoctor.epydoc2stan.reportWarnings', 'parser and colorizer warnings'),
]


def run(repo: Repo, chk: Check, thorough: bool = False) -> None:
    chk.explanation = ('statement-order and nesting rules on System.msg and driver.main (CFG dominance), default-argument and keyword census '
                       'of the report() calls of the named problem reporters')
    chk.assumptions = ['reported line numbers are arithmetic over runtime values and are not decided',
                       'a message is "counted" when it reaches System.msg with a negative threshold']
    # ------------------------------------------------------------------ R16.1
    msg = repo.func(f'{M}.System.msg')
    cfg = CFG(msg)
    incs = [n for n in msg.walk() if isinstance(n, ast.AugAssign) and dotted(n.target) == 'self.violations' and isinstance(n.op, ast.Add)]
    if len(incs) != 1:
        raise AnalysisError(f'System.msg: {len(incs)} increments of self.violations found (1 expected)')
    inc = incs[0]
    tests = cfg.dominating_tests(inc)
    neg = [t for t, pol in tests if pol and isinstance(t, ast.Compare) and norm(t.left) == 'thresh' and isinstance(t.ops[0], ast.Lt) and norm(t.comparators[0]) == '0']
    chk.ob('R16.1', f'{M}.System.msg :: negative threshold counts as a violation', bool(neg), 'if thresh < 0: self.violations += 1' if neg else
           'the violation counter is not incremented under `thresh < 0`', repo.loc(msg.mod, inc))
    verb = [t for t, pol in tests if 'verbosity' in norm(t)]
    chk.ob('R16.1', f'{M}.System.msg :: counting does not depend on the verbosity', not verb,
           'the increment is not nested under the verbosity test' if not verb else
           f'the counter is only incremented under `{norm(verb[0])}`: with -q problems are not counted and -W does not fail the build', repo.loc(msg.mod, inc))
    ok = isinstance(inc.value, ast.Constant) and inc.value.value == 1
    chk.ob('R16.1', f'{M}.System.msg :: one per message', ok, '+= 1', repo.loc(msg.mod, inc))
    once = [n for n in msg.walk() if isinstance(n, ast.If) and norm(n.test) == 'once']
    ok = bool(once) and cfg.dominates(once[0], inc, no_exc=True) and any(isinstance(s, ast.Return) for n in ast.walk(once[0]) for s in [n])
    chk.ob('R16.1', f'{M}.System.msg :: de-duplicated messages are counted once', ok,
           'the `once` filter returns before the counter' if ok else 'a message repeated with once=True is counted every time (or the filter moved after the counter)',
           msg.loc)
    prints = [c for c in calls_in(msg) if call_name(c) == 'print']
    early = [n for n in msg.walk() if isinstance(n, ast.Return) and not any(p in once for p in parents(n))]
    chk.ob('R16.1', f'{M}.System.msg :: no other early exit before the counter', not [r for r in early if cfg.dominates(r, inc)] and
           all(not cfg.dominates(cfg.stmt_of(p), inc) for p in prints), 'only the once-filter returns early', msg.loc)
    rep = repo.func(f'{M}.Documentable.report')
    a = rep.node.args
    dflt = dict(zip([x.arg for x in a.args][-len(a.defaults):], a.defaults))
    d = dflt.get('thresh')
    ok = d is not None and isinstance(d, ast.UnaryOp) and isinstance(d.op, ast.USub) and isinstance(d.operand, ast.Constant) and d.operand.value >= 1
    chk.ob('R16.1', f'{M}.Documentable.report :: default threshold counts', ok, f'thresh={norm(d)}' if ok else
           f'default thresh of Documentable.report is {norm(d) if d is not None else "?"}: reports are no longer counted by default', rep.loc)
    fw = [c for c in calls_in(rep) if call_name(c) == 'msg']
    ok = len(fw) == 1 and any(k.arg == 'thresh' and norm(k.value) == 'thresh' for k in fw[0].keywords)
    chk.ob('R16.1', f'{M}.Documentable.report :: threshold forwarded to System.msg', ok, 'self.system.msg(..., thresh=thresh)' if ok else
           'report() does not forward its threshold', rep.loc)
    chk.require('R16.1', 7)

    # ------------------------------------------------------------------ R16.2
    for q, what in REPORTERS:
        f = repo.funcs.get(q)
        if f is None:
            chk.error(f'R16.2: reporter {q} no longer exists: re-confirm the reporter table')
            continue
        # (the reporter with the private helpers the report may have been moved into: `self._report_unresolved_xref(...)`)
        reps = [c for g_ in impl_funcs(repo, f, depth=2) for c in calls_in(g_) if call_name(c) == 'report']
        if not reps:
            chk.ob('R16.2', f'{q} :: {what}', False, 'no report(...) call left: the problem is no longer reported', f.loc)
            continue
        for c in reps:
            th = next((k.value for k in c.keywords if k.arg == 'thresh'), None)
            star = [k for k in c.keywords if k.arg is None]
            ok = th is None or (isinstance(th, ast.UnaryOp) and isinstance(th.op, ast.USub))
            if star:
                # reportWarnings(obj, warns, **kwargs): callers must not pass a non-negative thresh
                bad = []
                for g in repo.funcs.values():
                    for cc in calls_in(g, lambda cc: call_name(cc) == f.name):
                        t2 = next((k.value for k in cc.keywords if k.arg == 'thresh'), None)
                        if t2 is not None and not (isinstance(t2, ast.UnaryOp) and isinstance(t2.op, ast.USub)):
                            bad.append(f'{g.qn}:{cc.lineno}')
                ok = ok and not bad
            chk.ob('R16.2', f'{q} :: {what} ({norm(c.func)})', ok,
                   'reported with the default (negative) threshold: counted' if ok else
                   f'`{norm(c)[:70]}` passes thresh={norm(th) if th is not None else "via **kwargs"}: the problem is printed but not counted, '
                   '--warnings-as-errors does not fail the build', repo.loc(f.mod, c))
    chk.require('R16.2', 5)

    # ------------------------------------------------------------------ R16.3
    mn = repo.func('pydoctor.driver.main')
    cfgm = CFG(mn)
    statusv = {n.value.id for n in mn.walk() if isinstance(n, ast.Return) and isinstance(n.value, ast.Name)}
    if len(statusv) != 1:
        raise AnalysisError(f'driver.main: the returned status variable is not unique ({statusv})')
    sv = next(iter(statusv))
    sets = [n for n in mn.walk() if isinstance(n, ast.Assign) and any(isinstance(t, ast.Name) and t.id == sv for t in n.targets)]
    by_val: Dict[object, List[ast.Assign]] = {}
    helper_conds: Dict[int, List[str]] = {}      # id(assign in main) -> for a status handed back by a private helper: the conditions of the `return 2` sites
    n_two_sites = 0

    def _const_of(v0: Optional[ast.AST], mod: object) -> Optional[ast.Constant]:
        if isinstance(v0, ast.Name) and v0.id in mn.mod.assigns:      # a named status (`EXIT_PARSE_ERRORS = 2`)
            v0 = mn.mod.assigns[v0.id]
        return v0 if isinstance(v0, ast.Constant) else None
    from ..util import expanded_text as _xt16
    for s in sets:
        c0 = _const_of(s.value, mn.mod)
        if c0 is not None:
            by_val.setdefault(c0.value, []).append(s)
            n_two_sites += c0.value == 2
        elif isinstance(s.value, ast.Call) and isinstance(s.value.func, ast.Name) and s.value.func.id.startswith('_') and f'{mn.mod.name}.{s.value.func.id}' in repo.funcs:
            # `exitcode = _report_parse_errors(system)`: the values are the constants the helper returns, each under the conditions that dominate the return
            hg = repo.funcs[f'{mn.mod.name}.{s.value.func.id}']
            chg = CFG(hg)
            for r in [x for x in hg.walk() if isinstance(x, ast.Return)]:
                cr = _const_of(r.value, hg.mod)
                if cr is None:
                    continue
                if cr.value != 0:
                    by_val.setdefault(cr.value, [])
                    if s not in by_val[cr.value]:
                        by_val[cr.value].append(s)
                if cr.value == 2:
                    n_two_sites += 1
                    helper_conds.setdefault(id(s), []).append(' '.join(_xt16(hg, t_) + f' [{pol_}]' for t_, pol_ in chg.dominating_tests(r)))
    ok0 = 0 in by_val and all(cfgm.dominates(by_val[0][0], s, no_exc=True) for v, l in by_val.items() if v != 0 for s in l)
    chk.ob('R16.3', 'driver.main :: exit status starts at 0', ok0, 'exitcode = 0 first', mn.loc)
    twos = by_val.get(2, [])
    ok2 = bool(twos)
    for s in twos:
        if id(s) in helper_conds:
            if not all('parse_errors' in c for c in helper_conds[id(s)]):
                ok2 = False
            continue
        conds = [norm(p.test) for p in parents(s) if isinstance(p, ast.If)]
        pe = {t.id for n in mn.walk() if isinstance(n, ast.Assign) and 'parse_errors' in norm(n.value) for t in n.targets if isinstance(t, ast.Name)}
        if not any('parse_errors' in c or any(v == c or f'{v} ' in c or f' {v}' in c for v in pe) for c in conds):
            ok2 = False
    chk.ob('R16.3', 'driver.main :: status 2 exactly under recorded parse errors', ok2 and n_two_sites == 2,
           "parse_errors['docstring'] non-empty, or any(parse_errors.values())" if ok2 else 'exit status 2 is set under another condition', mn.loc)
    threes = by_val.get(3, [])
    ok3 = len(threes) == 1
    if ok3:
        conds = [p.test for p in parents(threes[0]) if isinstance(p, ast.If)]
        ok3 = len(conds) == 1 and isinstance(conds[0], ast.BoolOp) and isinstance(conds[0].op, ast.And) and \
            sorted(v.attr for v in conds[0].values if isinstance(v, ast.Attribute)) == ['violations', 'warnings_as_errors'] and len(conds[0].values) == 2
        # 3 overrides 2: its statement comes after every `exitcode = 2` on all paths that reach it
        ok3 = ok3 and all(id(cfgm.stmt_of(threes[0])) in cfgm.reachable(t, no_exc=True) and id(t) not in cfgm.reachable(cfgm.stmt_of(threes[0]), no_exc=True) for t in twos)
    chk.ob('R16.3', 'driver.main :: status 3 iff violations and --warnings-as-errors, overriding 2', ok3,
           'if system.violations and options.warnings_as_errors: exitcode = 3 (after the parse-error branch)' if ok3 else
           'exit status 3 is not set exactly under `system.violations and options.warnings_as_errors`, or can be overwritten by 2', mn.loc)
    rets = [n for n in mn.walk() if isinstance(n, ast.Return)]
    ok = bool(rets) and all(norm(r.value) == sv for r in rets)
    chk.ob('R16.3', 'driver.main :: returns the computed status', ok, 'return exitcode', mn.loc)
    mk = [c for c in calls_in(mn) if call_name(c) == 'make']
    ok = bool(mk) and all(cfgm.dominates(cfgm.stmt_of(mk[0]), s, no_exc=True) for s in twos + threes)
    chk.ob('R16.3', 'driver.main :: status computed after the output was produced', ok, 'make(system) precedes the status computation' if ok else
           'the exit status is computed before rendering (rendering problems would not count)', mn.loc)
    # status 2 depends on System.parse_errors: every place that REPORTS a parse error records the object first.  In the function that turns
    # ParseErrors into reports, the recording dominates every report call (the only way past it is the early return for "no errors")
    re_ = repo.func('pydoctor.epydoc2stan.reportErrors')
    cfr = CFG(re_)
    adds = [cfr.stmt_of(c) for c in calls_in(re_) if call_name(c) in ('add', 'append', 'update') and 'parse_errors' in norm(c.func)] + \
        [n for n in re_.walk() if isinstance(n, (ast.Assign, ast.AugAssign)) and any('parse_errors' in norm(t) for t in (n.targets if isinstance(n, ast.Assign) else [n.target]))]
    reps = [c for c in calls_in(re_) if call_name(c) in ('report', 'msg')]
    if not reps:
        raise AnalysisError('R16.3: reportErrors no longer reports (no report()/msg() call found)')
    for c in reps:
        okr = any(cfr.dominates(a, cfr.stmt_of(c), no_exc=True) for a in adds)
        chk.ob('R16.3', f'{re_.qn} :: an object whose parse errors are reported is recorded in System.parse_errors', okr,
               'parse_errors[section].add(...) on every path to the report' if okr else
               'the report can be reached without the object having been recorded (the recording is missing or under a condition of its own, e.g. only for fatal '
               'errors): "bad docstring: ..." is printed for an unclosed `*emphasis` or a mal-formatted field item, yet the run ends with status 0 instead of 2',
               repo.loc(re_.mod, c))
    chk.require('R16.3', 6)

    # ------------------------------------------------------------------ R16.4  (provenance part of the location clause)
    from ..owners import writers
    ds = repo.func(f'{M}.Documentable.description')
    sp = [n for n in ds.walk() if isinstance(n, ast.Attribute) and n.attr == 'source_path']
    if not sp:
        raise AnalysisError('R16.4: Documentable.description no longer reads source_path')
    bad = [n for n in sp if dotted(n.value) != 'self']
    chk.ob('R16.4', f'{M}.Documentable.description :: names the file the object itself was read from', not bad,
           'self.source_path' if not bad else
           f'`{norm(bad[0])}`: after a re-export the object lives in another module than the file it was written in, so problems in its docstring '
           'are reported against a file that does not contain it', repo.loc(ds.mod, bad[0] if bad else sp[0]))
    ws = writers(repo, 'source_path', [f'{M}.Documentable'], unknown_counts=True, skip_modules=('pydoctor.test',))
    outside = [w for w in ws if w.func.qn != f'{M}.Documentable.__init__']
    chk.ob('R16.4', f'{M}.Documentable.source_path :: set once, at creation', bool(ws) and not outside,
           f'{len(ws)} write(s), all in Documentable.__init__' if ws and not outside else
           (f'`{norm(outside[0].node)[:60]}` in {outside[0].func.qn} rewrites the source file of an existing object' if outside else 'no writer found'),
           outside[0].loc if outside else ds.loc)
    rp_ = repo.func(f'{M}.Documentable.report')
    fs = [n for n in rp_.walk() if isinstance(n, ast.JoinedStr)]
    parts = [norm(v.value) for j in fs for v in j.values if isinstance(v, ast.FormattedValue)]
    lnv = {x.id for n in rp_.walk() if isinstance(n, (ast.Assign, ast.AugAssign, ast.AnnAssign))
           for t in (n.targets if isinstance(n, ast.Assign) else [n.target]) for x in (t.elts if isinstance(t, ast.Tuple) else [t]) if isinstance(x, ast.Name)}
    # the file part: self.description, or a local that only ever holds the description of an object (its own, or the module a docstring was assigned in)
    def _desc_locals(g: Func) -> Set[str]:
        dl = {t.id for n in g.walk() if isinstance(n, ast.Assign) and isinstance(n.value, ast.Attribute) and n.value.attr == 'description'
              for t in n.targets if isinstance(t, ast.Name)}
        return {d_ for d_ in dl if all(isinstance(n.value, ast.Attribute) and n.value.attr == 'description' for n in g.walk()
                                       if isinstance(n, ast.Assign) and any(isinstance(t, ast.Name) and t.id == d_ for t in n.targets))}
    desc_locals = _desc_locals(rp_)
    # ... or a local unpacked from a private helper of the class at a position where every returned tuple holds such a description
    # (`description, linenumber = self._report_location(section, lineno_offset)`)
    for a_ in rp_.walk():
        if isinstance(a_, ast.Assign) and isinstance(a_.targets[0], ast.Tuple) and isinstance(a_.value, ast.Call) and call_name(a_.value).startswith('_'):
            for g_ in [g for g in repo.funcs.values() if g.cls is rp_.cls and g.name == call_name(a_.value)]:
                gd = _desc_locals(g_)
                rets_ = [r.value for r in g_.walk() if isinstance(r, ast.Return) and isinstance(r.value, ast.Tuple)]
                for k_, t_ in enumerate(a_.targets[0].elts):
                    if isinstance(t_, ast.Name) and rets_ and all(len(r.elts) > k_ and (norm(r.elts[k_]) in gd or norm(r.elts[k_]) == 'self.description') for r in rets_):
                        desc_locals.add(t_.id)
    ok = ('self.description' in parts or any(p_ in desc_locals for p_ in parts)) and any(p_ in lnv - desc_locals for p_ in parts)
    chk.ob('R16.4', f'{M}.Documentable.report :: message is <file>:<line>: <text>', ok, "f'{self.description}:{linenumber}: {descr}'" if ok else
           f'the message is built from {parts}', rp_.loc)
    # a field body re-parsed as a type keeps the line of its field (link problems inside it are reported from that line)
    n_pt = 0
    for f in sorted(repo.funcs.values(), key=lambda f: f.qn):
        if '.test' in f.mod.name:
            continue
        for c in calls_in(f, lambda c: call_name(c) == 'ParsedTypeDocstring'):
            loop = next((p_ for p_ in parents(c) if isinstance(p_, ast.For) and isinstance(p_.target, ast.Name)), None)
            if loop is None:
                continue
            n_pt += 1
            kw = next((k.value for k in c.keywords if k.arg == 'lineno'), c.args[2] if len(c.args) > 2 else None)
            if isinstance(kw, ast.Name):            # a named intermediate: `lineno = field.lineno`
                from ..util import values_of as _vo16
                vals_ = _vo16(f, kw.id)
                if len(vals_) == 1:
                    kw = vals_[0]
            ok = isinstance(kw, ast.Attribute) and kw.attr == 'lineno' and isinstance(kw.value, ast.Name) and kw.value.id == loop.target.id
            chk.ob('R16.4', f'{f.qn} :: a type field keeps the line of its field', ok, f'lineno={norm(kw)}' if ok else
                   f'`{norm(c)[:70]}` drops the field\'s line: an unresolvable name in @type/@rtype is reported at the first line of the docstring '
                   'instead of the line that contains it', repo.loc(f.mod, c))
    if n_pt < 1:
        raise AnalysisError('R16.4: the per-field ParsedTypeDocstring(...) construction in processtypes was not found')
    chk.require('R16.4', 6)

    # whoever replaces the text of a docstring from source also records where the new text is: problems found in it are reported relative to
    # docstring_lineno
    for w in writers(repo, 'docstring', [f'{M}.Documentable'], unknown_counts=False, skip_modules=('pydoctor.sphinx_ext', 'pydoctor.test')):
        v = w.node.value if isinstance(w.node, (ast.Assign, ast.AnnAssign)) else None
        if v is None or isinstance(v, ast.Constant) or (isinstance(v, ast.Attribute) and v.attr in ('__doc__', 'docstring')):
            continue     # constants, live __doc__ of introspected objects (no source line), copies
        recv = norm(w.receiver) if hasattr(w, 'receiver') else norm(w.node.targets[0].value) if isinstance(w.node, ast.Assign) else ''
        ln = [n for n in w.func.walk() if isinstance(n, ast.Assign) and any(isinstance(t, ast.Attribute) and t.attr == 'docstring_lineno' and norm(t.value) == recv for t in n.targets)]
        chk.ob('R16.4', f'{w.func.qn} :: the line of a docstring is recorded together with its text', bool(ln),
               f'{norm(ln[0])[:60]}' if ln else
               f'`{norm(w.node)[:50]}` replaces the text but leaves docstring_lineno as it was: problems in a docstring assigned through `x.__doc__ = ...` are '
               'reported at the line of the old docstring (or of the def), outside the docstring at fault', w.loc)

    # ------------------------------------------------------------------ R16.5  (unit agreement, not arithmetic)
    # ParseError counts lines from 0 ("The linenum of the first line is 0", linenum() adds one); docutils counts from 1.  A line taken from a
    # docutils node / system message must be converted where the ParseError is built.
    n_pe = 0
    for f in sorted(repo.funcs.values(), key=lambda f: f.qn):
        if not f.mod.name.startswith('pydoctor.epydoc.markup') or '.test' in f.mod.name:
            continue
        for c in calls_in(f, lambda c: call_name(c) == 'ParseError'):
            arg = next((k.value for k in c.keywords if k.arg == 'linenum'), c.args[1] if len(c.args) > 1 else None)
            if arg is None:
                continue
            exprs = [arg]
            keyf = f
            if isinstance(arg, ast.Name):
                exprs = [n.value for n in f.walk() if isinstance(n, (ast.Assign, ast.AnnAssign, ast.AugAssign)) and n.value is not None and
                         any(isinstance(t, ast.Name) and t.id == arg.id for t in (n.targets if isinstance(n, ast.Assign) else [n.target]))] or [arg]
                if exprs == [arg] and arg.id in [p_.arg for p_ in f.params()] and f.name.startswith('_'):
                    # the construction sits in a private helper that is handed the line: the docutils line is read at the call sites, and the
                    # obligation belongs to the function that reads it (`self._report_unsplit(tagname, node.line, e)` in visit_field)
                    og = [(g_, e_) for g_, e_ in origins(repo, f, arg.id, depth=1)]
                    if og:
                        keyf = og[0][0]
                        exprs = [arg] + [e_ for _, e_ in og]
            docutils_line = any((isinstance(x, ast.Attribute) and x.attr == 'line') or
                                (isinstance(x, ast.Call) and call_name(x) == 'get' and x.args and isinstance(x.args[0], ast.Constant) and x.args[0].value == 'line')
                                for e in exprs for x in ast.walk(e))
            if not docutils_line:
                continue
            n_pe += 1
            converted = any(isinstance(x, ast.BinOp) and isinstance(x.op, ast.Sub) and isinstance(x.right, ast.Constant) and x.right.value == 1 for e in exprs for x in ast.walk(e)) or \
                any(isinstance(n, ast.AugAssign) and isinstance(n.op, ast.Sub) and isinstance(n.value, ast.Constant) and n.value.value == 1 and
                    isinstance(n.target, ast.Name) and isinstance(arg, ast.Name) and n.target.id == arg.id for n in f.walk())
            chk.ob('R16.5', f'{keyf.qn} :: ParseError line taken from docutils is converted to the 0-based convention', converted,
                   '1-based docutils line - 1' if converted else
                   f'`{norm(c)[:60]}` hands docutils\' 1-based line to ParseError, which counts from 0: the problem is reported one line below the block that contains it '
                   '(past the end of the file for an error on the last line)', repo.loc(f.mod, c))
    if n_pe < 2:
        raise AnalysisError(f'R16.5: {n_pe} ParseError constructions fed from a docutils line found (2 confirmed: _EpydocReader.report, _SplitFieldsTranslator.visit_field)')
    chk.require('R16.5', 2)
    # line numbers inside a docstring count LINE FEEDs (that is what docstring_lineno + offset means in the source file): the epytext tokenizer
    # must split at '\n' only - str.splitlines() also breaks at U+2028, U+0085, FS, VT ..., which are not line ends of the source
    tk = repo.func('pydoctor.epydoc.markup.epytext._tokenize')
    tparam = tk.params()[0].arg
    sp16 = [c for c in calls_in(tk) if call_name(c) in ('split', 'splitlines') and isinstance(c.func, ast.Attribute) and norm(c.func.value) == tparam]
    if not sp16:
        raise AnalysisError('R16.5: epytext._tokenize no longer splits its text into lines')
    for c in sp16:
        oks = call_name(c) == 'split' and len(c.args) == 1 and isinstance(c.args[0], ast.Constant) and c.args[0].value == '\n'
        chk.ob('R16.5', 'epydoc.markup.epytext._tokenize :: lines are what a LINE FEED separates', oks,
               norm(c) if oks else
               f'`{norm(c)}`: every U+2028 / U+0085 / form-feed-like character inside an epytext docstring shifts all later warnings of that docstring one line down',
               repo.loc(tk.mod, c))
    chk.require('R16.5', 3)


    # ------------------------------------------------------------------ R16.6
    # a consolidated field (`:Parameters:` + bullet or definition list) is split into one field per item; problems of that field ("documented parameter
    # does not exist") are reported at the line handed to _add_field.  The item starts at its FIRST node (the term / the paragraph carrying the marked
    # name); the line of its last node (the description) is one or more lines further down
    from ..util import values_of as _vo16
    n66 = 0
    for f in sorted(repo.funcs.values(), key=lambda g: g.qn):
        if not (f.cls is not None and f.name.startswith('handle_consolidated_') and f.name.endswith('_list')):
            continue
        for c in calls_in(f):
            if call_name(c) != '_add_field' or len(c.args) < 4:
                continue
            n66 += 1
            la = c.args[3]
            srcs = _vo16(f, la.id) if isinstance(la, ast.Name) else [la]
            bad66 = None
            for v in srcs:
                lines_ = [x for x in ast.walk(v) if isinstance(x, ast.Attribute) and x.attr == 'line']
                if not lines_:
                    bad66 = f'`{norm(v)[:50]}` is not the line of a node'
                    continue
                for x in lines_:
                    recv = x.value
                    # follow one local (fbody = item[-1]; lineno = fbody.line)
                    while isinstance(recv, ast.Name) and _vo16(f, recv.id) and not any(isinstance(n, (ast.For,)) and isinstance(n.target, ast.Name) and n.target.id == recv.id for n in f.walk()):
                        vs = _vo16(f, recv.id)
                        if len(vs) != 1 and not all(isinstance(v_, ast.Subscript) for v_ in vs):
                            break
                        recv = vs[0]
                    first = isinstance(recv, ast.Subscript) and isinstance(recv.slice, ast.Constant) and recv.slice.value == 0
                    if not first:
                        bad66 = f'`{norm(x)}` is the line of `{norm(recv)[:40]}`, not of the first node of the item'
            chk.ob('R16.6', f'{f.qn} :: `{norm(c.args[0])[:20]}` field reported at the line where its item starts', bad66 is None,
                   f'line of the first node ({", ".join(norm(v)[:40] for v in srcs)})' if bad66 is None else
                   bad66 + ': problems of a parameter documented in a consolidated definition list are reported at its description, one or more lines below the entry',
                   repo.loc(f.mod, c))
    if n66 < 3:
        raise AnalysisError(f'R16.6: {n66} _add_field calls found in the consolidated-list handlers (3 confirmed)')
    chk.require('R16.6', 3)

    # ------------------------------------------------------------------ R16.7
    # safe_to_stan(parsed, linker, ctx): unresolved references are reported by the linker's object (its docstring_lineno + the offset in the docstring),
    # rendering failures by ctx.  Both must be the object the docstring is written on: a linker of another object adds that object's docstring_lineno to
    # an offset that is not relative to it (an attribute documented by an `@ivar` field of its class: the field offset is counted twice)
    n67 = 0
    for f in sorted(repo.funcs.values(), key=lambda g: g.qn):
        if '.test' in f.mod.name:
            continue
        for c in calls_in(f):
            if call_name(c) != 'safe_to_stan' or len(c.args) < 3 or f.name == 'safe_to_stan':
                continue
            ln, ctx = c.args[1], c.args[2]
            owners_: List[str] = []
            for v in (_vo16(f, ln.id) if isinstance(ln, ast.Name) else [ln]):
                if isinstance(v, ast.Attribute) and v.attr == 'docstring_linker':
                    owners_.append(norm(v.value))
                elif isinstance(v, ast.Call) and call_name(v).endswith('Linker') and v.args:
                    owners_.append(norm(v.args[0]))
                else:
                    owners_.append('?' + norm(v)[:30])
            if not owners_ or any(o_.startswith('?') for o_ in owners_):
                continue      # a linker handed in as a parameter: judged at the caller
            n67 += 1
            same = all(o_ == norm(ctx) for o_ in owners_)
            chk.ob('R16.7', f'{f.qn} :: linker and context of `{norm(c.args[0])[:30]}` are the same object', same,
                   f'both `{norm(ctx)}`' if same else
                   f'the linker belongs to `{owners_[0]}`, the context is `{norm(ctx)}`: when the two differ (a variable documented by a field of its class or '
                   'module) an unresolvable reference is reported with the wrong object\'s line added - usually past the end of the docstring', repo.loc(f.mod, c))
    if n67 < 8:
        raise AnalysisError(f'R16.7: {n67} safe_to_stan calls with a known linker owner found (10 confirmed by reading)')
    chk.require('R16.7', 8)

    # ------------------------------------------------------------------ R16.4 (addition): a new docstring text invalidates the parse of the old one
    # an attribute documented by an `@ivar` field of its class gets that field body as parsed_docstring (extract_fields); when the attribute's own inline
    # docstring is met later, setDocstring() replaces text and line - the parse has to go too, or the FIELD's text is rendered and its problems are reported
    # with offsets of the class docstring added to the line of the inline docstring (`m.py:15` in an 11-line file)
    sd = repo.func('pydoctor.model.Documentable.setDocstring')
    sets_text = any(isinstance(n, ast.Assign) and any(isinstance(t, ast.Attribute) and t.attr == 'docstring' and dotted(t.value) == 'self' for t in n.targets) for n in sd.walk())
    resets = any(isinstance(n, ast.Assign) and any(isinstance(t, ast.Attribute) and t.attr == 'parsed_docstring' and dotted(t.value) == 'self' for t in n.targets) and
                 isinstance(n.value, ast.Constant) and n.value.value is None for n in sd.walk())
    if not sets_text:
        raise AnalysisError('R16.4: Documentable.setDocstring no longer assigns self.docstring')
    chk.ob('R16.4', 'pydoctor.model.Documentable.setDocstring :: the parse of a previous text is dropped with it', resets,
           'self.parsed_docstring = None' if resets else
           'text and line are replaced, the parsed form is kept: for an attribute that is documented both by an `@ivar` field of its class and by an inline docstring the field '
           'is rendered, and its problems are reported at <line of the inline docstring> + <offset inside the class docstring>', sd.loc)

    # ------------------------------------------------------------------ R16.4 (addition, restating "names the file that contains it")
    # `from pkg.impl import f; f.__doc__ = """..."""` in pkg/docs.py: the text of the docstring is in docs.py, the object lives in impl.py.  A problem of that
    # docstring is reported with the line inside docs.py (F48) - the FILE has to be docs.py as well.  (This rule used to say "the object's own source
    # file", which is what the code did.)  _handleDocstringUpdate has to record the module it is visiting on the object, and report() has to use it
    du = repo.func('pydoctor.astbuilder.ModuleVistor._handleDocstringUpdate')
    recs = [n for n in du.walk() if isinstance(n, ast.Assign) and any(isinstance(t, ast.Attribute) and isinstance(t.value, ast.Name) for t in n.targets) and
            any(isinstance(x, ast.Attribute) and x.attr in ('currentMod', 'module') for x in ast.walk(n.value))]
    rp = repo.func('pydoctor.model.Documentable.report')
    attrs = {t.attr for n in recs for t in n.targets if isinstance(t, ast.Attribute)}
    from ..util import scope_nodes as _scope16
    used = any(isinstance(x, ast.Attribute) and x.attr in attrs and dotted(x.value) == 'self' for x in _scope16(repo, rp))
    chk.ob('R16.4', 'pydoctor.astbuilder.ModuleVistor._handleDocstringUpdate :: a docstring assigned from another module is reported against that module\'s file', bool(recs) and used,
           f'recorded in {sorted(attrs)} and read by Documentable.report' if recs and used else
           'the text and its line are stored on the object, the file is not: a problem in `f.__doc__ = """... L{bad_one} ..."""` written in pkg/docs.py is reported as '
           '`pkg/impl.py:5`, a file that has 5 lines and no such text', du.loc)


    check_r16_8_built_nodes(repo, chk)


def check_r16_8_built_nodes(repo: Repo, chk: Check) -> None:
    """R16.8: a docutils element that the reST docstring parser builds itself around PARSED content carries a line."""
    # get_lineno() locates a problem (an unresolvable reference) by walking up from its node to the first ancestor that has a `line`.  The elements docutils
    # builds have one; an element pydoctor's own directives / field splitter build with `nodes.<element>(raw, text, *children)` has none unless it is given
    # one - the walk then runs past it and the problem is reported at the line of some enclosing construct (the end of the directive, the start of the docstring).
    # Instances: constructor calls whose children are parsed nodes (a starred sequence, or a name that is not itself a freshly built, located element)
    rm = repo.mod('pydoctor.epydoc.markup.restructuredtext')
    n_inst = 0
    for f in repo.funcs.values():
        if f.mod is not rm:
            continue
        ctor = [c for c in calls_in(f) if isinstance(c.func, ast.Attribute) and norm(c.func.value) == 'nodes' and c.func.attr[:1].islower() and c.func.attr != 'Text']
        if not ctor:
            continue
        # names bound to freshly built elements, and the names whose `.line` (or source info) is set in this function
        built_l = [(t.id, n.value) for n in f.walk() if isinstance(n, ast.Assign) and n.value in ctor for t in n.targets if isinstance(t, ast.Name)]
        built = {k for k, _ in built_l}
        located: Set[str] = set()
        for n in f.walk():
            if isinstance(n, ast.Assign):
                for t in n.targets:
                    for tt in (t.elts if isinstance(t, ast.Tuple) else [t]):
                        if isinstance(tt, ast.Attribute) and tt.attr == 'line' and isinstance(tt.value, ast.Name):
                            located.add(tt.value.id)
            if isinstance(n, ast.Call) and call_name(n) in ('set_source_info', 'set_node_attributes') and n.args and isinstance(n.args[0], ast.Name):
                if call_name(n) == 'set_source_info' or any(k.arg == 'lineno' for k in n.keywords):
                    located.add(n.args[0].id)

        def parsed_child(a: ast.expr) -> bool:
            if isinstance(a, ast.Starred):
                return True
            if isinstance(a, ast.Call) and a in ctor:
                return any(parsed_child(x) for x in a.args[2:])
            if isinstance(a, ast.Name):
                return not (a.id in built and a.id in located)
            return not isinstance(a, ast.Constant)
        ordn: Dict[str, int] = {}
        for c in ctor:
            kids = [a for a in c.args[2:] if parsed_child(a)]
            if not kids:
                continue
            par = getattr(c, '_parent', None)
            if isinstance(par, ast.Call) and par in ctor:
                continue                      # judged with the enclosing construction
            n_inst += 1
            holder = next((k for k, v in built_l if v is c), None)
            via_helper = isinstance(par, ast.Call) and call_name(par) == 'set_node_attributes' and any(k.arg == 'lineno' for k in par.keywords)
            okl = via_helper or (holder is not None and holder in located)
            ordn[c.func.attr] = ordn.get(c.func.attr, 0) + 1
            chk.ob('R16.8', f'{f.qn} :: nodes.{c.func.attr} #{ordn[c.func.attr]} built around parsed content carries a line', okl,
                   f'`{holder}.line` is set' if okl else
                   f'the element is built around `{norm(kids[0])[:30]}` and never given a line: a problem inside it (an unresolvable `reference`) is located from the next '
                   'ancestor that has one - the line after the end of a `.. deprecated::` block, or the first line of the docstring for a `:Parameters:` list item',
                   repo.loc(f.mod, c))
    if n_inst < 1:
        raise AnalysisError(f'R16.8: {n_inst} element constructions around parsed content found in the reST parser (VersionChange.run confirmed)')
