"""
C20 - options mean the same whether given on the command line or in a config file.  Claimed narrowly:
  R20.1 single ingestion path (one ArgumentParser, config parsers only as its config_file_parser_class, validator installed)
  R20.2 unknown keys are warned about and dropped (the INI parser hands them on before any skip or evaluation); known keys are forwarded under the
        spelling that was looked up
  R20.3 dest / attrs-field agreement
  R20.4 format siblings (TOML and INI parsers stringify alike, turn parser errors into ConfigFileParserException); a TOML value is left out only when it is None
  R20.5 quoting: a quoted INI value is never split into a list; quotes are evaluated by unquote_str
  R20.6 TOML is tried before INI, *.ini / *.cfg by name the other way round; the shared parser list is written by the constructor only
Does not decide: that any particular value survives quoting (a function of runtime strings).
"""
from __future__ import annotations

import ast
from typing import Dict, List, Optional, Set, Tuple

from ..core import AnalysisError, Func, Repo, dotted, norm, parents
from ..cfg import CFG, normalise_facts
from ..report import Check
from ..util import call_name, calls_in, const_str, enclosing_trys, handler_names, is_catch_all

CP = 'pydoctor._configparser'
OPT = 'pydoctor.options'


def _quote_alternatives(pat: str) -> Optional[List[object]]:
    """The top-level alternatives of a regex with the quote characters abstracted (re._parser AST); None if it is not a top-level branch."""
    try:
        import re._parser as sp          # type: ignore[import-not-found]
        import re._constants as sc       # type: ignore[import-not-found]
    except ImportError:  # pragma: no cover
        import sre_parse as sp           # type: ignore[no-redef]
        import sre_constants as sc       # type: ignore[no-redef]
    try:
        parsed = sp.parse(pat)
    except Exception:
        return None

    def dump(x: object) -> object:
        if isinstance(x, sp.SubPattern):
            return [dump(i) for i in x]
        if isinstance(x, tuple):
            if len(x) == 2 and x[0] in (sc.LITERAL, sc.NOT_LITERAL) and x[1] in (34, 39):
                return (str(x[0]), 'QUOTE')
            if len(x) == 2 and x[0] == sc.SUBPATTERN:
                return ('SUBPATTERN',) + tuple(dump(i) for i in x[1][1:])    # group numbers differ between the alternatives
            return tuple(dump(i) for i in x)
        if isinstance(x, list):
            return [dump(i) for i in x]
        return str(x) if not isinstance(x, (int, str, type(None))) else x
    items = list(parsed)
    if len(items) != 1 or items[0][0] != sc.BRANCH:
        return None
    return [dump(a) for a in items[0][1][1]]


def _escape_ambiguities(pat: str) -> Optional[Tuple[int, List[str]]]:
    """(number of branches that have the escape alternative `\\.`, descriptions of sibling alternatives that can also start with a backslash)."""
    try:
        import re._parser as sp          # type: ignore[import-not-found]
        import re._constants as sc       # type: ignore[import-not-found]
    except ImportError:  # pragma: no cover
        import sre_parse as sp           # type: ignore[no-redef]
        import sre_constants as sc       # type: ignore[no-redef]
    try:
        parsed = sp.parse(pat)
    except Exception:
        return None
    BS = 92
    n_br = 0
    bad: List[str] = []

    def first_accepts_bs(alt: object) -> bool:
        items = list(alt)      # type: ignore[call-overload]
        if not items:
            return False
        op, av = items[0]
        if op == sc.LITERAL:
            return av == BS               # (the escape alternative itself is recognised separately, by is_escape)
        if op == sc.NOT_LITERAL:
            return av != BS
        if op == sc.ANY:
            return True
        if op == sc.IN:
            neg = any(o == sc.NEGATE for o, _ in av)
            hit = any((o == sc.LITERAL and a == BS) or (o == sc.RANGE and a[0] <= BS <= a[1]) or (o == sc.CATEGORY and 'NOT' in str(a)) for o, a in av if o != sc.NEGATE)
            return (not hit) if neg else hit
        if op == sc.SUBPATTERN:
            return first_accepts_bs(av[3])
        if op == sc.BRANCH:
            return any(first_accepts_bs(a) for a in av[1])
        if op in (sc.MAX_REPEAT, sc.MIN_REPEAT):
            return first_accepts_bs(av[2])
        return False

    def is_escape(alt: object) -> bool:
        items = list(alt)      # type: ignore[call-overload]
        return len(items) == 2 and items[0] == (sc.LITERAL, BS) and items[1][0] == sc.ANY

    def walk(sub: object) -> None:
        nonlocal n_br
        for op, av in list(sub):      # type: ignore[call-overload]
            if op == sc.BRANCH:
                alts = av[1]
                if any(is_escape(a) for a in alts):
                    n_br += 1
                    for a in alts:
                        if not is_escape(a) and first_accepts_bs(a):
                            bad.append(''.join(str(x) for x in list(a))[:60])
                for a in alts:
                    walk(a)
            elif op == sc.SUBPATTERN:
                walk(av[3])
            elif op in (sc.MAX_REPEAT, sc.MIN_REPEAT):
                walk(av[2])
            elif op in (sc.ASSERT, sc.ASSERT_NOT):
                walk(av[1])
    walk(parsed)
    return n_br, bad


def run(repo: Repo, chk: Check, thorough: bool = False) -> None:
    chk.explanation = ('who-may-call census of the config parsers and of Options construction; path rule on ValidatorParser.parse; set '
                       'comparison of the add_argument dest names with the attrs fields of Options; sibling comparison of the TOML and INI '
                       'parsers; dominance of the quote test over the multi-line split; order of the composite parser list')
    chk.assumptions = ['configargparse merges config-file values into the same argparse actions as command-line values (trusted library)',
                       'quoting round trips are functions of runtime strings and are not decided']
    om = repo.mod(OPT)
    # ------------------------------------------------------------------ R20.1
    parser_classes = {'TomlConfigParser', 'IniConfigParser', 'CompositeConfigParser', 'ValidatorParser'}
    uses = []
    for f in list(repo.funcs.values()):
        if f.mod.name.startswith(('pydoctor.sphinx_ext',)) or f.mod.name == CP:
            continue
        for c in calls_in(f, lambda c: call_name(c) in parser_classes):
            uses.append((f.qn, call_name(c), c))
    mod_level = [n for n in ast.walk(om.tree) if isinstance(n, ast.Call) and call_name(n) in parser_classes and repo.enclosing_func(n) is None]
    gp = repo.func(f'{OPT}.get_parser')
    aps = [c for c in calls_in(gp) if call_name(c) == 'ArgumentParser']
    ok = len(aps) == 1 and any(k.arg == 'config_file_parser_class' and norm(k.value) == 'PydoctorConfigParser' for k in aps[0].keywords)
    enc_fn = next((k.value for k in aps[0].keywords if k.arg == 'config_file_open_func'), None) if aps else None
    enc_ok = False
    if isinstance(enc_fn, ast.Name) and f'{OPT}.{enc_fn.id}' in repo.funcs:
        enc_ok = any(isinstance(c, ast.Call) and call_name(c) == 'open' and any(k.arg == 'encoding' for k in c.keywords) for c in calls_in(repo.funcs[f'{OPT}.{enc_fn.id}']))
    elif isinstance(enc_fn, ast.Lambda):
        enc_ok = any(isinstance(c, ast.Call) and call_name(c) == 'open' and any(k.arg == 'encoding' for k in c.keywords) for c in ast.walk(enc_fn))
    chk.ob('R20.1', f'{OPT}.get_parser :: config files are decoded as UTF-8, not with the encoding of the locale', enc_ok,
           'config_file_open_func opens with an explicit encoding' if enc_ok else
           'configargparse opens the files with a bare open(): `project-name = "Café"` aborts under LC_ALL=C (or is read as `CafÃ©` under a legacy 8-bit locale), while '
           'the same value on the command line is fine - TOML is UTF-8 by definition', gp.loc)
    chk.ob('R20.1', f'{OPT}.get_parser :: one ArgumentParser with the composite config parser', ok,
           'config_file_parser_class=PydoctorConfigParser' if ok else 'the argument parser is not built with the pydoctor config parser', gp.loc)
    for q, nm, c in uses:
        ok = q == f'{OPT}.get_parser' and nm == 'ValidatorParser'
        chk.ob('R20.1', f'{q} :: {nm}(...)', ok, 'validator installed on the one parser' if ok else
               'a config parser is instantiated outside options.get_parser: values read through it bypass the argparse types and converters',
               repo.loc(repo.funcs[q].mod, c))
    vp = [c for _, nm, c in uses if nm == 'ValidatorParser']
    pv = {t.id for n in gp.walk() if isinstance(n, ast.Assign) and isinstance(n.value, ast.Call) and call_name(n.value) == 'ArgumentParser'
          for t in n.targets if isinstance(t, ast.Name)}
    ok = len(vp) == 1 and len(vp[0].args) == 2 and '_config_file_parser' in norm(vp[0].args[0]) and norm(vp[0].args[1]) in pv and \
        any(isinstance(n, ast.Assign) and any('_config_file_parser' in norm(t) for t in n.targets) and n.value is vp[0] for n in gp.walk())
    chk.ob('R20.1', f'{OPT}.get_parser :: validator wraps the configured parser', ok,
           'parser._config_file_parser = ValidatorParser(parser._config_file_parser, parser)' if ok else 'the validator is not installed on the parser', gp.loc)
    ctor = []
    for f in repo.funcs.values():
        if f.mod.name.startswith('pydoctor.sphinx_ext'):
            continue
        for c in calls_in(f):
            if (isinstance(c.func, ast.Name) and c.func.id == 'Options') or (isinstance(c.func, ast.Name) and c.func.id == 'cls' and f.cls is not None and f.cls.name == 'Options'):
                ctor.append((f, c))
    ok = bool(ctor) and all(f.qn == f'{OPT}.Options.from_namespace' for f, _ in ctor)
    chk.ob('R20.1', f'{OPT}.Options :: built only by from_namespace', ok, 'cls(**vars(namespace)) in from_namespace' if ok else
           f'Options constructed in {sorted({f.qn for f, _ in ctor})}', repo.cls(f'{OPT}.Options').loc)
    fa = repo.func(f'{OPT}.Options.from_args')
    ok = any(call_name(c) == 'parse_args' for c in calls_in(fa)) and any(call_name(c) == 'from_namespace' for c in calls_in(fa))
    chk.ob('R20.1', f'{OPT}.Options.from_args :: strings -> argparse -> from_namespace', ok, 'cls.from_namespace(parse_args(args))', fa.loc)
    # configargparse decides "this option was given on the command line, ignore the file" by looking for the option's exact strings in argv;
    # argparse also accepts unambiguous prefixes (--priv for --privacy).  With abbreviations on, an abbreviated option is not recognised as
    # an override: the file value is kept and the command-line value is applied on top of it
    apc = [c for c in calls_in(gp) if call_name(c) == 'ArgumentParser']
    if not apc:
        raise AnalysisError('R20.1: the ArgumentParser(...) construction was not found in get_parser')
    ab = next((k.value for k in apc[0].keywords if k.arg == 'allow_abbrev'), None)
    okab = isinstance(ab, ast.Constant) and ab.value is False
    chk.ob('R20.1', f'{OPT}.get_parser :: an abbreviated option cannot slip past the command-line-overrides-file test', okab,
           'allow_abbrev=False' if okab else
           'argparse abbreviations are on: with `privacy = [...]` in the config file, `--priv=PUBLIC:pkg.secret` does not override the file (both are '
           'applied), whereas `--privacy=...` does; same for --html-subj, --template-d, --add-pack, --verb', repo.loc(gp.mod, apc[0]))
    chk.require('R20.1', 6)

    # ------------------------------------------------------------------ R20.2
    vpp = repo.func(f'{CP}.ValidatorParser.parse')
    cfg = CFG(vpp)
    loop = next((n for n in vpp.walk() if isinstance(n, ast.For) and call_name(n.iter) == 'items' if isinstance(n.iter, ast.Call)), None)
    if loop is None or not isinstance(loop.target, ast.Tuple):
        raise AnalysisError('ValidatorParser.parse: loop over the parsed items not found')
    kv = norm(loop.target.elts[0])
    look = [c for c in calls_in(vpp) if call_name(c) == 'get' and 'known_config_keys' in norm(c.func)]
    retv = {n.value.id for n in vpp.walk() if isinstance(n, ast.Return) and isinstance(n.value, ast.Name)}
    store = [n for n in vpp.walk() if isinstance(n, ast.Assign) and any(isinstance(t, ast.Subscript) and norm(t.value) in retv for t in n.targets)]
    warn = [c for c in calls_in(vpp) if call_name(c) == 'warn']
    ok = len(look) == 1 and len(store) == 1 and norm(look[0].args[0]) == norm(store[0].targets[0].slice)  # type: ignore[attr-defined]
    chk.ob('R20.2', f'{CP}.ValidatorParser.parse :: a key is forwarded under the spelling that was validated', ok,
           f'looked up and stored as `{kv}`' if ok else
           f'the key is looked up as `{norm(look[0].args[0]) if look else "?"}` but forwarded as `{norm(store[0].targets[0].slice) if store else "?"}`: '  # type: ignore[attr-defined]
           'a key that only passes the validator in its normalised form is handed to argparse as an unknown argument (abort instead of warning)', vpp.loc)
    ok = bool(warn) and bool(store)
    if ok:
        tw = cfg.dominating_tests(cfg.stmt_of(warn[0]))
        ts = cfg.dominating_tests(store[0])
        act = {t.id for n in vpp.walk() if isinstance(n, ast.Assign) and n.value in look for t in n.targets if isinstance(t, ast.Name)}

        def is_known(t: ast.AST) -> bool:          # the lookup result, held in a local or tested directly
            return norm(t) in act or t in look
        ok = any((not pol) and is_known(t) for t, pol in tw) and any(pol and is_known(t) for t, pol in ts)
    chk.ob('R20.2', f'{CP}.ValidatorParser.parse :: unknown key -> warning, not forwarded', ok,
           'if not action: warnings.warn(...) else: new_data[key] = value' if ok else 'unknown keys are no longer warned about and dropped', vpp.loc)
    rets = [n for n in vpp.walk() if isinstance(n, ast.Return)]
    filtered = {norm(t.value) for s_ in store for t in s_.targets if isinstance(t, ast.Subscript)}
    ok = bool(rets) and bool(filtered) and all(norm(r.value) in filtered for r in rets)
    chk.ob('R20.2', f'{CP}.ValidatorParser.parse :: returns the filtered mapping', ok, 'return new_data' if ok else 'the unfiltered data is returned', vpp.loc)
    # the table of known keys: a comprehension, or nested loops, over `parser._actions` x `get_possible_config_keys(action)`
    from ..util import scope_nodes as _scope20
    vpp_nodes = _scope20(repo, vpp)     # parse() and the private methods it calls (`known = self._get_known_config_keys()`)
    kk: List[ast.AST] = [n for n in vpp_nodes if isinstance(n, ast.DictComp) and 'get_possible_config_keys' in norm(n)]
    kk += [n for n in vpp_nodes if isinstance(n, ast.For) and norm(n.iter).endswith('._actions') and
           any(isinstance(x, ast.Call) and call_name(x) == 'get_possible_config_keys' for st in n.body for x in ast.walk(st))]
    chk.ob('R20.2', f'{CP}.ValidatorParser.parse :: known keys come from the argument parser itself', bool(kk),
           'argument_parser.get_possible_config_keys(action) for every action' if kk else 'known keys are no longer derived from the parser', vpp.loc)
    for n in kk:
        if isinstance(n, ast.DictComp):
            conds = [c for g in n.generators for c in g.ifs]
            over_actions = any(norm(g.iter).endswith('._actions') for g in n.generators)
        else:
            assert isinstance(n, ast.For)
            conds = [x.test for st in n.body for x in ast.walk(st) if isinstance(x, ast.If)]
            over_actions = True
        chk.ob('R20.2', f'{CP}.ValidatorParser.parse :: every action of the parser contributes its config keys', over_actions and not conds,
               'all of argument_parser._actions, unfiltered (which keys an action answers to is decided by get_possible_config_keys)' if over_actions and not conds else
               f'the known keys are restricted by `{norm(conds[0]) if conds else "?"}`: an option the command line accepts is reported as "No such config '
               'option" and dropped when it is written in a config file', repo.loc(vpp.mod, n))
    chk.require('R20.2', 5)

    # ------------------------------------------------------------------ R20.3
    dests: Set[str] = set()
    for c in calls_in(gp, lambda c: call_name(c) == 'add_argument'):
        d = next((const_str(k.value) for k in c.keywords if k.arg == 'dest'), None)
        if d is None:
            flags = [const_str(a) for a in c.args if const_str(a)]
            longs = [x for x in flags if x.startswith('--')]
            if longs:
                d = longs[0][2:].replace('-', '_')
            elif flags and not flags[0].startswith('-'):
                d = flags[0]
        act = next((const_str(k.value) for k in c.keywords if k.arg == 'action'), None)
        if act in ('version', 'help'):
            continue
        if d:
            dests.add(d)
    fn = repo.func(f'{OPT}.Options.from_namespace')
    popped = {const_str(c.args[0]) for c in calls_in(fn) if call_name(c) == 'pop' and c.args and const_str(c.args[0])}
    oc = repo.cls(f'{OPT}.Options')
    fields = {k for k, v in oc.aliases.items() if isinstance(v, ast.Call) and call_name(v) == 'ib'} | \
        {k for k, v in oc.attr_ann.items() if k in oc.aliases and isinstance(oc.aliases[k], ast.Call) and call_name(oc.aliases[k]) == 'ib'}
    missing = sorted((dests - popped) - fields)
    extra = sorted(fields - (dests - popped))
    chk.ob('R20.3', f'{OPT} :: every parser destination is an Options field', not missing,
           f'{len(dests - popped)} destinations' if not missing else f'parser destination(s) {missing} have no Options field: Options(**vars(ns)) raises TypeError', oc.loc)
    chk.ob('R20.3', f'{OPT} :: every Options field has a parser destination', not extra,
           f'{len(fields)} fields' if not extra else f'Options field(s) {extra} are not produced by any option: construction fails', oc.loc)
    if len(fields) < 30:
        chk.error(f'R20.3: only {len(fields)} attrs fields of Options found')

    # ------------------------------------------------------------------ R20.4
    tp = repo.func(f'{CP}.TomlConfigParser.parse')
    ip = repo.func(f'{CP}.IniConfigParser.parse')
    for f, libcall in ((tp, 'load'), (ip, 'read_string')):
        cs = [c for c in calls_in(f) if call_name(c) == libcall]
        ok = bool(cs) and all(any(is_catch_all(h) and any(isinstance(n, ast.Raise) and 'ConfigFileParserException' in norm(n) for st in h.body for n in ast.walk(st))
                                  for t in enclosing_trys(c, f.node) for h in t.handlers) for c in cs)
        chk.ob('R20.4', f'{f.qn} :: parser errors become ConfigFileParserException', ok,
               f'{libcall}() inside try/except -> ConfigFileParserException' if ok else
               f'an error of {libcall}() escapes with its own type: the composite parser / configargparse does not report it as a config error', f.loc)
    for f in (tp, ip):
        from ..util import scope_nodes
        lists = [n for n in scope_nodes(repo, f) if isinstance(n, ast.ListComp) and isinstance(n.elt, ast.Call) and call_name(n.elt) == 'str'] + \
            [n for n in scope_nodes(repo, f) if isinstance(n, ast.Call) and call_name(n) == 'map' and n.args and norm(n.args[0]) == 'str']
        chk.ob('R20.4', f'{f.qn} :: list elements are converted to str', bool(lists), '[str(i) for i in ...]' if lists else
               'list values keep their parsed type: argparse receives non-string items', f.loc)
    ok = any(isinstance(n, ast.Assign) and isinstance(n.value, ast.Call) and call_name(n.value) == 'str' and 'result' in norm(n.targets[0]) for n in tp.walk())
    chk.ob('R20.4', f'{tp.qn} :: scalars are converted to str', ok, 'result[key] = str(value)' if ok else 'TOML scalars are not stringified like INI values', tp.loc)
    # a TOML value is left out only when it IS None: every other value of the table (0, false, '', 0.0) reaches argparse as its string, exactly as
    # `--opt=0` does.  Path rule on the per-key loop: an iteration that stores nothing passes the true edge of an identity test against None
    tl = [n for n in tp.walk() if isinstance(n, ast.For) and isinstance(n.target, ast.Tuple) and len(n.target.elts) == 2 and
          isinstance(n.iter, ast.Call) and call_name(n.iter) == 'items']
    if not tl:
        raise AnalysisError('R20.4: the per-key loop of TomlConfigParser.parse was not found')
    cft = CFG(tp)
    for lp in tl:
        vname = norm(lp.target.elts[1])  # type: ignore[attr-defined]
        stores_t = [n for n in ast.walk(lp) if isinstance(n, ast.Assign) and any(isinstance(t, ast.Subscript) for t in n.targets)]
        none_edges = []
        for nid, edges in cft.succ.items():
            for (t, l, k) in edges:
                if l is None:
                    continue
                for fact, pol in normalise_facts([l]):
                    if isinstance(fact, ast.Compare) and len(fact.ops) == 1 and norm(fact.left) == vname and isinstance(fact.comparators[0], ast.Constant) \
                            and fact.comparators[0].value is None and ((isinstance(fact.ops[0], ast.Is) and pol) or (isinstance(fact.ops[0], ast.IsNot) and not pol)):
                        none_edges.append((nid, id(t), k))
        first = lp.body[0]
        r = cft.reachable(first, avoid_nodes=stores_t, avoid_edges=none_edges, no_exc=True)
        silent = id(lp) in r
        chk.ob('R20.4', f'{tp.qn} :: a value of the table is left out only when it is None', not silent,
               f'every iteration stores `{vname}` or passes `{vname} is None`' if not silent else
               f'an iteration can end without storing `{vname}` although it is not None (a membership or equality test such as `{vname} in (None, False)` also holds for 0 and 0.0): '
               '`sidebar-toc-depth = 0` in pyproject.toml is dropped and the default applies, while `--sidebar-toc-depth=0` and the same line in setup.cfg give 0',
               repo.loc(tp.mod, lp))
    cpp = repo.func(f'{CP}.CompositeConfigParser.parse')
    # the loop runs over self.parsers, directly or through a method of the class that returns (a re-ordering of) them
    sel = {h.name for h in repo.funcs.values() if h.cls is cpp.cls and any(isinstance(x, ast.Attribute) and x.attr == 'parsers' for x in h.walk())}
    ok = any(isinstance(n, ast.For) and ('self.parsers' in norm(n.iter) or (isinstance(n.iter, ast.Call) and call_name(n.iter) in sel)) for n in cpp.walk()) and \
        any(call_name(c) == 'seek' for c in calls_in(cpp)) and any(isinstance(n, ast.Raise) and 'ConfigFileParserException' in norm(n) for n in cpp.walk())
    chk.ob('R20.4', f'{cpp.qn} :: tries each format on the rewound stream', ok, 'for p in parsers: try p.parse(stream) except: stream.seek(0)' if ok else
           'the composite parser no longer rewinds the stream / reports all errors', cpp.loc)
    chk.require('R20.4', 7)

    check_r20_2_unknown_values(repo, chk)
    # ------------------------------------------------------------------ R20.5
    cfgi = CFG(ip)
    splits = [n for n in ip.walk() if isinstance(n, ast.Assign) and any(isinstance(t, ast.Subscript) for t in n.targets) and
              any(isinstance(c, ast.Call) and call_name(c) in ('split', 'splitlines') for c in ast.walk(n.value))]
    if not splits:
        chk.error('R20.5: the multi-line split was not found in IniConfigParser.parse')
    for s_ in splits:
        sc = [c for c in ast.walk(s_.value) if isinstance(c, ast.Call) and call_name(c) in ('split', 'splitlines')][0]
        exact_nl = call_name(sc) == 'split' and len(sc.args) == 1 and isinstance(sc.args[0], ast.Constant) and sc.args[0].value == '\n'
        chk.ob('R20.5', f'{ip.qn} :: one list item per LINE FEED, nothing else', exact_nl,
               "split('\\n')" if exact_nl else
               f'`{norm(sc)[:40]}` also breaks at ' + ('ANY white space: an item with a blank in it (`template-dir = my templates`, `privacy = PRIVATE: pack.impl*`)' if
               call_name(sc) == 'split' and not sc.args else 'form feed, vertical tab, FS/GS/RS, U+0085, U+2028 and U+2029: an item containing one of them') +
               ' is cut apart in an INI file, '
               'while the same value repeated on the command line or written in TOML stays whole', repo.loc(ip.mod, s_))
    # list literals: `[...]` is only evaluated when the value both starts with `[` and ends with `]`
    lev = [c for c in calls_in(ip) if call_name(c) == 'literal_eval']
    for c in lev:
        tests_l = cfgi.dominating_tests(cfgi.stmt_of(c))
        sw = any(pol and isinstance(t, ast.Call) and call_name(t) == 'startswith' and t.args and const_str(t.args[0]) == '[' for t, pol in tests_l)
        ew = any(pol and isinstance(t, ast.Call) and call_name(t) == 'endswith' and t.args and const_str(t.args[0]) == ']' for t, pol in tests_l)
        chk.ob('R20.5', f'{ip.qn} :: only a complete [...] value is evaluated as a list', sw and ew,
               "value.startswith('[') and value.endswith(']')" if sw and ew else
               'a plain value that merely starts with `[` (`project-name = [WIP] My Project`) is evaluated as a list literal and aborts the run, while the same text on the '
               'command line or in TOML is accepted', repo.loc(ip.mod, c))
    for s_ in splits:
        tests = cfgi.dominating_tests(s_)
        ok = any((not pol) and isinstance(t, ast.Call) and call_name(t) == 'is_quoted' for t, pol in tests)
        chk.ob('R20.5', f'{ip.qn} :: a quoted value is never split into a list', ok,
               'the split is only reached when is_quoted(value) is false' if ok else
               'the multi-line split can apply to a quoted value: a triple-quoted multi-line string becomes a list of lines with its quotes kept',
               repo.loc(ip.mod, s_))
        ok = any(pol and 'split_ml_text_to_list' in norm(t) for t, pol in tests)
        chk.ob('R20.5', f'{ip.qn} :: splitting only when enabled', ok, 'under self.split_ml_text_to_list', repo.loc(ip.mod, s_))
    uq = [c for c in calls_in(ip) if call_name(c) == 'unquote_str']
    ok = bool(uq) and all(any(pol and isinstance(t, ast.Call) and call_name(t) == 'is_quoted' for t, pol in cfgi.dominating_tests(cfgi.stmt_of(c))) for c in uq)
    chk.ob('R20.5', f'{ip.qn} :: quoted values are evaluated by unquote_str', ok, 'if is_quoted(value): result[k] = unquote_str(value)', ip.loc)
    us = repo.func(f'{CP}.unquote_str')
    ok = any(call_name(c) == 'literal_eval' for c in calls_in(us)) and \
        all(any('Exception' in handler_names(h) or is_catch_all(h) or 'SyntaxError' in handler_names(h) for t in enclosing_trys(c, us.node) for h in t.handlers)
            for c in calls_in(us) if call_name(c) == 'literal_eval')
    # the double-quote and single-quote alternatives of the quoting regexes are siblings: same grammar, only the quote character differs
    n_rx = 0
    n_esc = 0
    cpm = repo.mod(CP)
    for nm_, v in sorted(cpm.assigns.items()):
        if not (isinstance(v, ast.Call) and call_name(v) == 'compile' and v.args):
            continue
        try:
            pat = ast.literal_eval(v.args[0])
        except Exception:
            continue
        if not isinstance(pat, str) or ('"' not in pat or "'" not in pat):
            continue
        alts = _quote_alternatives(pat)
        if alts is None:
            continue
        n_rx += 1
        same = len(alts) == 2 and alts[0] == alts[1]
        chk.ob('R20.5', f'{CP}.{nm_} :: double- and single-quoted forms have the same grammar', same,
               'the two alternatives are equal up to the quote character' if same else
               'the alternatives for "..." and \'...\' differ in more than the quote character: a value that is recognised (and unquoted) with one kind of '
               'quotes is passed on raw, quotes included, with the other', f'{cpm.relpath}:{v.lineno}')
        # where a branch has the escape alternative `\\.` (a backslash and the character it protects), no sibling alternative may match a backslash
        # itself: otherwise the regex can also read the backslash as an ordinary character and the quote after it as the END of the string
        # (by backtracking) - `"C:\docs\"` is then classified as quoted, although its last quote is escaped, and evaluating it fails
        amb = _escape_ambiguities(pat)
        if amb is None:
            raise AnalysisError(f'R20.5: cannot parse the regex {nm_}')
        if amb[0]:
            n_esc += 1
            chk.ob('R20.5', f'{CP}.{nm_} :: a backslash can only be read as the start of an escape', not amb[1],
                   f'{amb[0]} branch(es) with an escape alternative; no sibling alternative accepts a backslash' if not amb[1] else
                   f'next to the escape alternative `\\\\.` the alternative `{amb[1][0]}` also accepts a backslash: a value whose closing quote is escaped (`"C:\\docs\\"`, '
                   '`\'a\\\'`) is taken for a quoted string and handed to literal_eval, which rejects it - the run aborts where the command line takes the text as written',
                   f'{cpm.relpath}:{v.lineno}')
    if n_esc < 2:
        raise AnalysisError(f'R20.5: {n_esc} quoting regexes with an escape alternative found (2 confirmed)')
    if n_rx < 2:
        raise AnalysisError(f'R20.5: {n_rx} two-quote regexes found in _configparser (_QUOTED_STR_REGEX, _TRIPLE_QUOTED_STR_REGEX confirmed)')
    # configparser's default BasicInterpolation gives `%` a meaning (`%(key)s`, `%%`): a value with a percent sign - any percent-encoded URL -
    # is rejected or rewritten, while the command line and TOML take it literally
    n_cp = 0
    for f in repo.funcs.values():
        if f.mod is not cpm:
            continue
        for c in calls_in(f, lambda c: call_name(c) in ('ConfigParser', 'RawConfigParser', 'SafeConfigParser') and 'configparser' in norm(c.func)):
            n_cp += 1
            interp = next((k.value for k in c.keywords if k.arg == 'interpolation'), None)
            oki = call_name(c) == 'RawConfigParser' or (isinstance(interp, ast.Constant) and interp.value is None)
            chk.ob('R20.5', f'{f.qn} :: {norm(c.func)}(...) takes `%` literally', oki,
                   'interpolation disabled' if oki else
                   f'`{norm(c)[:60]}` keeps the default interpolation: `project-url = https://example.org/My%20Project/` aborts with an '
                   "InterpolationSyntaxError, `a%%b` is read back as `a%b`, `%(docformat)s` is replaced by another key's value", repo.loc(f.mod, c))
    if n_cp < 1:
        raise AnalysisError('R20.5: no configparser.ConfigParser(...) construction found in _configparser')
    chk.ob('R20.5', f'{CP}.unquote_str :: evaluation errors become ValueError', ok, 'literal_eval in try -> ValueError', us.loc)
    chk.require('R20.5', 4)

    # ------------------------------------------------------------------ R20.6
    pcp = om.assigns.get('PydoctorConfigParser')
    order = []
    if isinstance(pcp, ast.Call) and pcp.args and isinstance(pcp.args[0], (ast.List, ast.Tuple)):
        order = [call_name(e) for e in pcp.args[0].elts if isinstance(e, ast.Call)]
    ok = order == ['TomlConfigParser', 'IniConfigParser']
    chk.ob('R20.6', f'{OPT}.PydoctorConfigParser :: TOML is tried before INI', ok,
           ' then '.join(order) if ok else f'order {order}: a pyproject.toml that also reads as INI is interpreted with INI rules (comments and '
           'escapes become part of the values)', 'pydoctor/options.py')
    # ... but a file that IS an INI file (pydoctor.ini, setup.cfg) must be read with INI rules first: the text of a simple INI file is often valid TOML with
    # another meaning (`project-version = 1.10` -> the float 1.1 -> '1.1'; `0x10` -> 16; `'a\\tb'` keeps its backslash) - the format is decided by what the
    # file is, not by which parser happens to accept its text
    cpar = repo.func(f'{CP}.CompositeConfigParser.parse')
    by_name = any(isinstance(x, ast.Constant) and isinstance(x.value, (str, tuple)) and ('.ini' in x.value or '.cfg' in x.value) for g in [cpar] +
                  [h for h in repo.funcs.values() if h.cls is cpar.cls and any(call_name(c) == h.name for c in calls_in(cpar))] for x in g.walk())
    chk.ob('R20.6', f'{CP}.CompositeConfigParser.parse :: *.ini and *.cfg files are read with the INI rules first', by_name,
           'the order of the parsers depends on the name of the file' if by_name else
           'every file is offered to the TOML parser first: `project-version = 1.10` in pydoctor.ini (or a `[pydoctor]` section of setup.cfg whose lines all happen to be '
           'valid TOML) is read as the float 1.1, the command line and `[tool:pydoctor]` give \'1.10\'', cpar.loc)
    # ... and that choice is made per FILE: the parser list belongs to the module-level singleton, so nothing but the constructor may write or
    # re-order it - an in-place sort for setup.cfg would leave INI first for the pyproject.toml read next (and for every later run in the process)
    MUT = {'sort', 'reverse', 'insert', 'append', 'remove', 'pop', 'extend', 'clear'}
    n_w = 0
    for h in repo.funcs.values():
        if h.cls is not cpar.cls:
            continue
        for x in h.walk():
            w = None
            if isinstance(x, ast.Call) and isinstance(x.func, ast.Attribute) and x.func.attr in MUT and norm(x.func.value) == 'self.parsers':
                w = f'self.parsers.{x.func.attr}(...)'
            elif isinstance(x, (ast.Assign, ast.AugAssign, ast.AnnAssign, ast.Delete)):
                tg = x.targets if isinstance(x, (ast.Assign, ast.Delete)) else [x.target]
                for t in tg:
                    base = t.value if isinstance(t, ast.Subscript) else t
                    if norm(base) == 'self.parsers':
                        w = f'`{norm(x)[:50]}`'
            if w is None:
                continue
            n_w += 1
            okw = h.name == '__init__'
            chk.ob('R20.6', f'{h.qn} :: {w} - the order of the parsers is fixed at construction', okw,
                   'written by the constructor only' if okw else
                   f'{w} changes the shared parser list while files are being read: once a *.cfg / *.ini file has been seen the INI parser stays first, and the '
                   "pyproject.toml next to it is read with INI rules (`'C:\\new\\docs'` gets Python escapes, a value followed by `# comment` keeps quotes and comment)",
                   repo.loc(h.mod, x))
    if n_w < 1:
        raise AnalysisError('R20.6: no write of self.parsers found in CompositeConfigParser (the constructor assigns it)')
    # ... and the name it decides by is the `.name` of the stream the opener hands to configargparse: the opener has to return the file object itself (or a
    # stream it gives a name) - an in-memory copy (StringIO) has none, and every pydoctor.ini / setup.cfg is offered to the TOML parser first again
    reads_name = any(isinstance(x, ast.Constant) and x.value == 'name' for g in [cpar] + [h for h in repo.funcs.values() if h.cls is cpar.cls] for c in calls_in(g)
                     if call_name(c) == 'getattr' for x in c.args[1:2]) or \
        any(isinstance(x, ast.Attribute) and x.attr == 'name' for h in repo.funcs.values() if h.cls is cpar.cls for x in h.walk())
    opener = repo.funcs.get(f'{OPT}.{enc_fn.id}') if isinstance(enc_fn, ast.Name) else None
    if reads_name and opener is not None:
        rets_o = [r for r in opener.walk() if isinstance(r, ast.Return) and r.value is not None]
        named = {t.value.id for n in opener.walk() if isinstance(n, ast.Assign) for t in n.targets if isinstance(t, ast.Attribute) and t.attr == 'name' and isinstance(t.value, ast.Name)}
        bad_r = [r for r in rets_o if not ((isinstance(r.value, ast.Call) and call_name(r.value) == 'open' and isinstance(r.value.func, ast.Name)) or
                                           (isinstance(r.value, ast.Name) and (r.value.id in named or any(
                                               isinstance(n, ast.Assign) and isinstance(n.value, ast.Call) and call_name(n.value) == 'open' and isinstance(n.value.func, ast.Name) and
                                               any(isinstance(t, ast.Name) and t.id == r.value.id for t in n.targets) for n in opener.walk()))))]
        chk.ob('R20.6', f'{opener.qn} :: the stream handed to the parsers carries the name of the file', bool(rets_o) and not bad_r,
               'returns the file object open(...) gives' if rets_o and not bad_r else
               f'`{norm(bad_r[0])[:60] if bad_r else "?"}` returns a stream without `.name`: CompositeConfigParser cannot tell pydoctor.ini / setup.cfg from a TOML file any more - '
               "`project-version = 1.10` becomes '1.1', a bare `true` becomes 'True', `'C:\\\\docs'` keeps both backslashes", opener.loc)
    secs = om.assigns.get('CONFIG_SECTIONS')
    ok = isinstance(secs, ast.List) and [const_str(e) for e in secs.elts] == ['tool.pydoctor', 'tool:pydoctor', 'pydoctor'] and \
        isinstance(pcp, ast.Call) and all('CONFIG_SECTIONS' in norm(e) for e in pcp.args[0].elts)  # type: ignore[attr-defined]
    chk.ob('R20.6', f'{OPT}.CONFIG_SECTIONS :: both formats read the same sections', ok, "['tool.pydoctor', 'tool:pydoctor', 'pydoctor']", 'pydoctor/options.py')


def check_r20_2_unknown_values(repo: Repo, chk: Check) -> None:
    # "an unknown key is warned about rather than aborting": ValidatorParser drops unknown keys AFTER the file parser returned - but the INI parser
    # evaluates every value while it reads the file (`[...]` lists, quoted strings) and raises ConfigFileParserException on a value it cannot evaluate.
    # A key that means nothing to pydoctor (`exclude = [tests]/*.py [docs]` of another tool in the same section) then aborts the run.  The evaluation
    # that can raise has to be skipped for keys that are not known (or its error contained for them)
    ip = repo.func(f'{CP}.IniConfigParser.parse')
    cfi = CFG(ip)
    raises_ = [r for r in ip.walk() if isinstance(r, ast.Raise) and 'ConfigFileParserException' in norm(r)]
    if not raises_:
        raise AnalysisError('R20.2: IniConfigParser.parse no longer raises ConfigFileParserException for a value it cannot evaluate')
    loops = [lp for lp in ip.walk() if isinstance(lp, ast.For) and any(r_ in list(ast.walk(lp)) for r_ in raises_)]
    # the KEY variable: first name of the target of the innermost loop that contains the evaluation (`for k, value in config[section].items()`)
    inner = [lp for lp in loops if not any(o is not lp and any(x is o for x in ast.walk(lp)) for o in loops)]
    keyvars = {next(t.id for t in ast.walk(lp.target) if isinstance(t, ast.Name)) for lp in inner if isinstance(lp.target, (ast.Tuple, ast.List))}
    # a statement inside the loop that leaves the iteration for unknown keys: `if <known> is not None and k not in <known>: ...; continue`
    skips = [i for lp in loops for i in ast.walk(lp) if isinstance(i, ast.If) and any(isinstance(x, ast.Continue) for x in i.body) and
             any(isinstance(c, ast.Compare) and isinstance(c.ops[0], ast.NotIn) and isinstance(c.left, ast.Name) and c.left.id in keyvars for c in ast.walk(i.test))]
    # ... and every key that means nothing is HANDED ON (the validator that warns runs after this parser): an iteration may leave a key out of the result
    # only after the unknown-key branch has been passed - a skip of empty values placed before it hides `no-such-option =` from the validator
    unknown_ifs = [i for lp in inner for i in ast.walk(lp) if isinstance(i, ast.If) and
                   any(isinstance(c, ast.Compare) and isinstance(c.ops[0], ast.NotIn) and isinstance(c.left, ast.Name) and c.left.id in keyvars for c in ast.walk(i.test))]
    for lp in inner:
        stores_i = [n for n in ast.walk(lp) if isinstance(n, ast.Assign) and any(isinstance(t, ast.Subscript) for t in n.targets)]
        if not lp.body:
            continue
        plain = cfi.reachable(lp.body[0], avoid_nodes=stores_i, no_exc=True)
        for c in [x for x in ast.walk(lp) if isinstance(x, ast.Continue) and id(x) in plain]:
            okc = any(cfi.dominates(u, c, no_exc=True) for u in unknown_ifs)
            chk.ob('R20.2', f'{CP}.IniConfigParser.parse :: a key is left out of the result only after the unknown keys have been handed on', okc,
                   'the skip comes after the unknown-key branch' if okc else
                   f'the `continue` at line {c.lineno} drops the key before the test for unknown keys: `no-such-option =` (an empty value) in setup.cfg / pydoctor.ini never reaches '
                   'the validator and gets no "No such config option" warning, while the same key in pyproject.toml does', repo.loc(ip.mod, c))
    per_key = [r for r in raises_ if any(r in list(ast.walk(st)) for lp in ip.walk() if isinstance(lp, ast.For) for st in lp.body)]
    if not per_key:
        raise AnalysisError('R20.2: no per-key evaluation error found in IniConfigParser.parse')
    for r in per_key:
        guarded = any(cfi.before(i, r) for i in skips)
        chk.ob('R20.2', f'{CP}.IniConfigParser.parse :: a value is only evaluated for keys that mean something', guarded,
               'unknown keys leave the iteration before any evaluation' if guarded else
               f'`{norm(r)[:60]}` can be reached for ANY key of the section: `exclude = [tests]/*.py [docs]` or `banner = "C:\\Users\\me\\x"` - neither is a pydoctor option - '
               'ends the run with "Error evaluating list" / "Error trying to unquote" instead of the warning "No such config option"', repo.loc(ip.mod, r))
