"""
C13 - privacy rules mean what the manual says.
  R13.1 metacharacter table of qnmatch.translate: each emitted regex fragment denotes the documented language (re._parser oracle)
  R13.2 precedence shape of System.privacyClass (exact before pattern, newest first, default, cache key)
  R13.3 rule parsing
Does not decide: the bracket-expression index arithmetic, equivalence of translate() with the documented matcher on all strings.
"""
from __future__ import annotations

import ast
import re
from typing import Dict, List, Optional, Set, Tuple

from ..core import AnalysisError, Func, Repo, dotted, norm, parents
from ..cfg import CFG
from ..report import Check
from ..util import call_name, calls_in, const_str

try:
    import re._parser as sre_parse  # type: ignore[import-not-found]
    import re._constants as sre_c   # type: ignore[import-not-found]
except ImportError:  # pragma: no cover
    import sre_parse  # type: ignore[no-redef]
    import sre_constants as sre_c  # type: ignore[no-redef]


def classify_fragment(frag: str) -> str:
    """Abstract language of a regex fragment (under DOTALL): 'any*', 'nodot*', 'any1', 'literal:<c>', or 'other:<dump>'."""
    try:
        p = sre_parse.parse(frag, re.DOTALL)
    except re.error as e:
        return f'invalid:{e}'
    items = list(p)
    if len(items) != 1:
        if all(op == sre_c.LITERAL for op, _ in items):
            return 'literal:' + ''.join(chr(a) for _, a in items)
        return f'other:{items}'
    op, av = items[0]
    if op == sre_c.ANY:
        return 'any1'
    if op == sre_c.LITERAL:
        return f'literal:{chr(av)}'
    if op in (sre_c.MAX_REPEAT, sre_c.MIN_REPEAT):
        lo, hi, sub = av
        sub = list(sub)
        if lo == 0 and hi == sre_c.MAXREPEAT and len(sub) == 1:
            sop, sav = sub[0]
            if sop == sre_c.ANY:
                return 'any*'
            if sop == sre_c.IN:
                if list(sav) == [(sre_c.NEGATE, None), (sre_c.LITERAL, ord('.'))]:
                    return 'nodot*'
                return f'other-set*:{list(sav)}'
            if sop == sre_c.NOT_LITERAL and sav == ord('.'):
                return 'nodot*'
        return f'other-repeat:{lo},{hi},{sub}'
    return f'other:{items}'


_CONSTS: Dict[str, ast.AST] = {}     # module-level constants of qnmatch (a fragment may be named: `res + _ANY_RUN`)


def _appended_constants(stmts: List[ast.stmt], var: str) -> List[str]:
    out = []
    for st in stmts:
        if isinstance(st, (ast.Assign, ast.AugAssign)):
            tgt = st.targets[0] if isinstance(st, ast.Assign) else st.target
            if isinstance(tgt, ast.Name) and tgt.id == var:
                for c in ast.walk(st.value):
                    if isinstance(c, ast.Name) and c.id in _CONSTS:
                        c = _CONSTS[c.id]
                    s = const_str(c)
                    if s is not None and s != '':
                        out.append(s)
    return out


def run(repo: Repo, chk: Check, thorough: bool = False) -> None:
    chk.explanation = ('branch-table extraction from qnmatch.translate and classification of every emitted regex fragment with CPython\'s own '
                       'regex parser (re._parser) into an abstract language; CFG precedence/ordering rules on System.privacyClass; shape of '
                       'parse_privacy_tuple')
    chk.assumptions = ['the regex fragments are classified by the parser of the interpreter running the check',
                       'index arithmetic of the [seq] branch and whole-string equivalence need enumeration of executions: not decided']
    tr = repo.func('pydoctor.qnmatch.translate')
    # ------------------------------------------------------------------ R13.1
    table: Dict[str, Dict[str, List[str]]] = {}
    _CONSTS.clear()
    _CONSTS.update(tr.mod.assigns)
    patp = tr.params()[0].arg
    # the character variable: the local assigned from pat[i]; the result variable: the local that is returned inside the wrapper
    cvars = {t.id for n in tr.walk() if isinstance(n, ast.Assign) and isinstance(n.value, ast.Subscript) and norm(n.value.value) == patp
             and not isinstance(n.value.slice, ast.Slice) for t in n.targets if isinstance(t, ast.Name)}
    rvars = {x.id for n in tr.walk() if isinstance(n, ast.Return) and n.value is not None for x in ast.walk(n.value) if isinstance(x, ast.Name)}
    if len(cvars) != 1 or len(rvars) != 1:
        raise AnalysisError(f'qnmatch.translate: character variable {cvars} / result variable {rvars} not identified')
    cvar, rvar = next(iter(cvars)), next(iter(rvars))
    from ..cfg import if_branches
    last_else_stmts: List[ast.stmt] = []
    for n in tr.walk():
        if not isinstance(n, ast.If):
            continue
        t0, yes, no = if_branches(n)
        if isinstance(t0, ast.Compare) and isinstance(t0.left, ast.Name) and t0.left.id == cvar and isinstance(t0.ops[0], ast.Eq):
            ch = const_str(t0.comparators[0])
            if ch is None:
                continue
            entry: Dict[str, List[str]] = {}
            inner = [s for s in yes if isinstance(s, ast.If)]
            if ch == '*' and inner:
                i0 = inner[0]
                ti, iyes, ino = if_branches(i0)
                dbl = any(isinstance(c, ast.Compare) and const_str(c.comparators[0]) == '*' for c in ast.walk(ti))
                if dbl:
                    entry['double'] = _appended_constants(iyes, rvar)
                    entry['single'] = _appended_constants(ino, rvar)
                    entry['advances'] = [norm(s) for s in iyes if isinstance(s, (ast.Assign, ast.AugAssign)) and not norm(s).startswith(rvar)]
            else:
                entry['frag'] = _appended_constants(yes, rvar)
            table[ch] = entry
            if ch == '[':
                last_else_stmts = no
    if '*' not in table or '?' not in table or '[' not in table:
        raise AnalysisError(f'qnmatch.translate: branch table not recognised (found {sorted(table)})')
    star = table['*']
    d = star.get('double', [])
    s1 = star.get('single', [])
    cd = classify_fragment(d[0]) if len(d) == 1 else f'{d}'
    cs = classify_fragment(s1[0]) if len(s1) == 1 else f'{s1}'
    chk.ob('R13.1', "qnmatch.translate :: '**' denotes any run of characters", cd == 'any*',
           f'emits {d[0]!r} = Σ* under DOTALL' if cd == 'any*' else f"'**' emits {d} which denotes {cd}, not any run of characters (dots included)", tr.loc)
    chk.ob('R13.1', "qnmatch.translate :: '*' denotes any run without a dot", cs == 'nodot*',
           f'emits {s1[0]!r} = (Σ \\ {{.}})*' if cs == 'nodot*' else f"'*' emits {s1} which denotes {cs}, not a run of non-dot characters", tr.loc)
    chk.ob('R13.1', "qnmatch.translate :: '**' consumes both stars", bool(star.get('advances')),
           'i advances past the second star' if star.get('advances') else "after '**' the second star is re-read as a single '*'", tr.loc)
    q = table['?'].get('frag', [])
    cq = classify_fragment(q[0]) if len(q) == 1 else f'{q}'
    chk.ob('R13.1', "qnmatch.translate :: '?' denotes exactly one character", cq == 'any1',
           f'emits {q[0]!r}' if cq == 'any1' else f"'?' emits {q} which denotes {cq}", tr.loc)
    # other characters are escaped
    esc = [c for c in calls_in(tr) if call_name(c) == 'escape' and c.args and norm(c.args[0]) == cvar]
    last_else = any(isinstance(c, ast.Call) and call_name(c) == 'escape' for st in last_else_stmts for c in ast.walk(st))
    chk.ob('R13.1', 'qnmatch.translate :: every other character matches itself', bool(esc) and last_else,
           'final else: res + re.escape(c)' if esc and last_else else 'ordinary characters are not escaped (a "." in a pattern would match any character)', tr.loc)
    # anchoring: wrapper has the DOTALL group and \Z, and matching starts at the beginning
    rets = [n for n in tr.walk() if isinstance(n, ast.Return)]
    wrap = ''
    for r_ in rets:
        for c in ast.walk(r_.value):
            s = const_str(c)
            if s and '%s' in s:
                wrap = s
            if isinstance(c, ast.JoinedStr):       # the same wrapper as an f-string
                wrap = ''.join(str(v.value) if isinstance(v, ast.Constant) else '%s' for v in c.values)
    ok = wrap.startswith('(?s:') and wrap.rstrip().endswith('\\Z') and '%s' in wrap
    chk.ob('R13.1', 'qnmatch.translate :: whole-name match, dot matches everything', ok,
           f'wrapper {wrap!r}' if ok else f'wrapper {wrap!r} lost the DOTALL group or the end anchor: a pattern would match a prefix of the name', tr.loc)
    cp = repo.func('pydoctor.qnmatch._compile_pattern')
    m = [n for n in cp.walk() if isinstance(n, ast.Attribute) and n.attr in ('match', 'fullmatch', 'search')]
    ok = bool(m) and all(x.attr in ('match', 'fullmatch') for x in m)
    chk.ob('R13.1', 'qnmatch._compile_pattern :: anchored at the start', ok, f're.compile(...).{m[0].attr}' if ok and m else
           'the compiled pattern is used with search(): it would match anywhere in the name', cp.loc)
    # [seq]: leading ! negates, leading ^ or [ is escaped
    br = None
    for n in tr.walk():
        if isinstance(n, ast.If):
            tb, _, _ = if_branches(n)
            if isinstance(tb, ast.Compare) and norm(tb.left) == cvar and const_str(tb.comparators[0]) == '[':
                br = n
    neg = esc2 = False
    from ..util import scope_nodes
    # the [seq] branch together with the private helpers it hands the set to (`res += _translate_seq(pat[i:j])`)
    br_nodes: List[ast.AST] = []
    if br is not None:
        br_nodes = list(ast.walk(br))
        called = {call_name(c) for c in br_nodes if isinstance(c, ast.Call)}
        for g_ in repo.funcs.values():
            if g_.mod is tr.mod and g_ is not tr and g_.name in called:
                br_nodes += scope_nodes(repo, g_, depth=2)
    if br is not None:
        for n in br_nodes:
            if isinstance(n, ast.If):
                tn, nyes, nno = if_branches(n)
                if isinstance(tn, ast.Compare) and isinstance(tn.left, ast.Subscript) and norm(tn.left.slice) == '0':
                    if const_str(tn.comparators[0]) == '!' and any("'^'" in norm(s) for s in nyes):
                        neg = True
                    if "'^'" in norm(tn.comparators[0]) and any('\\\\' in norm(s) for s in nyes):
                        esc2 = True
    if br is not None and not neg:
        # the test kept in a local first: `negated = stuff[0] == '!'` ... `if negated: stuff = '^' + stuff`
        flags = {t.id for a in br_nodes if isinstance(a, ast.Assign) and isinstance(a.value, ast.Compare) and isinstance(a.value.left, ast.Subscript) and
                 norm(a.value.left.slice) == '0' and const_str(a.value.comparators[0]) == '!' for t in a.targets if isinstance(t, ast.Name)}
        for n in br_nodes:
            if isinstance(n, ast.If):
                tn, nyes, nno = if_branches(n)
                if isinstance(tn, ast.Name) and tn.id in flags and any("'^'" in norm(s_) for s_ in nyes):
                    neg = True
    chk.ob('R13.1', "qnmatch.translate :: '[!seq]' negates the set", neg, "leading '!' becomes '^'" if neg else "'[!seq]' is no longer translated to a negated set", tr.loc)
    chk.ob('R13.1', "qnmatch.translate :: a literal leading '^' in a set is escaped", esc2, "'^' / '[' at the start of the set get a backslash" if esc2 else
           "'[^x]' written by the user would silently become a negated set", tr.loc)
    # scanner index discipline: in `IDX < n and pat[K] ...` the character read is the one whose position was bounds-checked
    prm0 = tr.params()[0].arg
    n_guard = 0
    for n in tr.walk():
        if isinstance(n, ast.BoolOp) and isinstance(n.op, ast.And) and isinstance(n.values[0], ast.Compare) and \
                isinstance(n.values[0].left, ast.Name) and len(n.values[0].ops) == 1 and isinstance(n.values[0].ops[0], ast.Lt):
            idx = n.values[0].left.id
            reads = [x for v in n.values[1:] for x in ast.walk(v)
                     if isinstance(x, ast.Subscript) and isinstance(x.value, ast.Name) and x.value.id == prm0 and isinstance(x.slice, ast.Name)]
            if not reads:
                continue
            n_guard += 1
            bad = [x for x in reads if x.slice.id != idx]  # type: ignore[attr-defined]
            chk.ob('R13.1', f'qnmatch.translate :: guarded read #{n_guard} looks at the position it bounds-checked', not bad,
                   f'`{norm(n)}`' if not bad else
                   f'`{norm(n)}`: the cursor that is bounds-checked and advanced is not the one the character is read from - the bracket / star scan decides on the wrong character', repo.loc(tr.mod, n))
    if n_guard < 4:
        raise AnalysisError(f'R13.1: {n_guard} guarded cursor reads found in translate (4 confirmed by hand)')
    # the text between the brackets is pasted into a regex character class: `a-z` becomes a regex range, and a reversed range (`z-a`), which is
    # just an empty set for the documented matcher, is an error for the regex compiler - unless translate() looks at the hyphens itself
    hyphen = any(isinstance(n, ast.Constant) and isinstance(n.value, str) and n.value == '-' for n in scope_nodes(repo, tr, depth=3))
    chk.ob('R13.1', "qnmatch.translate :: ranges inside [seq] are validated before they reach the regex compiler", hyphen,
           'translate() handles `-` inside a set' if hyphen else
           "the set text is inserted verbatim (only backslashes are escaped): `--privacy='PRIVATE:pkg.[z-a]*'` (or `[a-Z]`) makes re.compile raise "
           "`bad character range` the first time a privacy is computed - a traceback while the first page is written instead of a pattern that matches nothing", tr.loc)
    # a ']' directly after the opening bracket is a member of the set - also after the '!' of a negated set ([!]] matches anything but ']'):
    # the test for the leading ']' must be reached whether or not the '!' test succeeded
    cft = CFG(tr)
    def _reads_const(test: ast.AST, ch: str) -> bool:
        return any(isinstance(x, ast.Compare) and isinstance(x.left, ast.Subscript) and isinstance(x.left.value, ast.Name) and x.left.value.id == prm0 and
                   any(const_str(c) == ch for c in x.comparators) and isinstance(x.ops[0], ast.Eq) for x in ast.walk(test))
    bang = [n for n in tr.walk() if isinstance(n, ast.If) and _reads_const(n.test, '!')]
    close = [n for n in tr.walk() if isinstance(n, ast.If) and _reads_const(n.test, ']')]
    if not bang or not close:
        raise AnalysisError("R13.1: the tests for a leading '!' / ']' of a bracket set were not found in translate")
    dep = [(t, pol) for t, pol in cft.dominating_tests(close[0], raw=True) if t is bang[0].test]
    chk.ob('R13.1', "qnmatch.translate :: a leading ']' is literal in a negated set too", not dep,
           "the ']' test follows the '!' test on both of its outcomes" if not dep else
           f"the ']' test is only reached when `{norm(bang[0].test)}` is {dep[0][1]}: `[!]...]` closes the set at the first ']' and matches something else", repo.loc(tr.mod, close[0]))
    chk.require('R13.1', 15)

    # the verdict of qnmatch() is the verdict of the translated expression: every return hands back the result of the compiled matcher applied to the
    # name.  A shortcut in front of it (a "cheap" depth or prefix filter) is a second, hand-written matcher that has to agree with the documented
    # meaning of `?`, `[seq]` and `[!seq]` as well (they match a dot) - the table checked above says nothing about it
    qm = repo.func('pydoctor.qnmatch.qnmatch')
    qn_name = qm.params()[0].arg
    from ..util import values_of as _vo13
    matchers = {t.id for n in qm.walk() if isinstance(n, ast.Assign) and isinstance(n.value, ast.Call) and call_name(n.value) in ('_compile_pattern', 'compile', 'translate')
                for t in n.targets if isinstance(t, ast.Name)}
    rets = [r for r in qm.walk() if isinstance(r, ast.Return)]
    if not rets:
        raise AnalysisError('R13.1: qnmatch.qnmatch has no return statement')
    for r in rets:
        through = r.value is not None and any(isinstance(c, ast.Call) and ((isinstance(c.func, ast.Name) and c.func.id in matchers) or
                                                                           call_name(c) in ('match', 'fullmatch') or
                                                                           (isinstance(c.func, ast.Call) and call_name(c.func) == '_compile_pattern')) and
                                              any(isinstance(a, ast.Name) and a.id == qn_name for a in c.args) for c in ast.walk(r.value))
        chk.ob('R13.1', 'qnmatch.qnmatch :: every verdict is the verdict of the translated expression', through,
               f'`{norm(r)}`' if through else
               f'`{norm(r)}` decides without asking the translated expression: e.g. a depth pre-filter (same number of dots in name and pattern) makes `a?b`, '
               '`a[!x]b` stop matching `a.b`, although `?` and `[!seq]` stand for any one character', repo.loc(qm.mod, r))
    # ------------------------------------------------------------------ R13.2
    # Role-based: the RULE FUNCTIONS are privacyClass and the private helpers of System it calls; a HIT is the first statement executed under the test that
    # recognises a rule inside a loop over `options.privacy` - `privacy = priv` or `return priv` - exact when the test is an equality with the qualified
    # name, pattern when it calls qnmatch.  All ordering statements are reachability statements on the CFG of the function that holds the hits.
    pc = repo.func('pydoctor.model.System.privacyClass')
    from ..util import scope_nodes, expanded_text
    rule_funcs = [pc] + [g for g in repo.funcs.values() if g.cls is pc.cls and g is not pc and g.name.startswith('_') and any(call_name(c) == g.name for c in calls_in(pc))]
    resv = {n.value.id for n in pc.walk() if isinstance(n, ast.Return) and isinstance(n.value, ast.Name)}
    resv -= {t.id for n in pc.walk() if isinstance(n, ast.Assign) and 'Cache' in norm(n.value) for t in n.targets if isinstance(t, ast.Name)}
    assigns = [n for g in rule_funcs for n in g.walk() if isinstance(n, ast.Assign) and any(isinstance(t, ast.Name) and t.id in resv for t in n.targets) and 'Cache' not in norm(n.value)]
    hits: List[Tuple[str, Func, ast.For, ast.If, ast.stmt]] = []
    for g in rule_funcs:
        gps = {p_.arg for p_ in g.params()}
        fnv_g = {t.id for n in g.walk() if isinstance(n, ast.Assign) and norm(n.value).endswith('.fullName()') for t in n.targets if isinstance(t, ast.Name)}
        for lp in [n for n in g.walk() if isinstance(n, ast.For) and 'options.privacy' in expanded_text(g, n.iter)]:
            # the tests of THIS loop: its body only (an `else:` clause runs after the loop), nested rule loops excluded
            inner_nodes = {id(y) for st in lp.body for z in ast.walk(st) if isinstance(z, ast.For) and 'options.privacy' in expanded_text(g, z.iter) for y in ast.walk(z)}
            for i in [x for st in lp.body for x in ast.walk(st) if isinstance(x, ast.If) and id(x) not in inner_nodes]:
                kind = None
                if any(isinstance(c, ast.Call) and call_name(c) == 'qnmatch' for c in ast.walk(i.test)):
                    kind = 'pattern'
                elif any(isinstance(t, ast.Compare) and len(t.ops) == 1 and isinstance(t.ops[0], ast.Eq) and
                         any(norm(x) in fnv_g or 'fullName' in norm(x) or (isinstance(x, ast.Name) and x.id in gps and 'name' in x.id.lower()) for x in [t.left] + t.comparators)
                         for t in ast.walk(i.test)):
                    kind = 'exact'
                if kind and i.body:
                    hits.append((kind, g, lp, i, i.body[0]))
    exact = [h for h in hits if h[0] == 'exact']
    patt = [h for h in hits if h[0] == 'pattern']
    if not exact:
        # exact rules collected into a mapping {pattern text: level}: with duplicates the LAST pair inserted stays, so the rules have to be
        # inserted in the order they were given (forward) for the last given rule to win
        maps = [n for g in rule_funcs for n in g.walk() if isinstance(n, ast.DictComp) and 'options.privacy' in norm(n.generators[0].iter)] + \
               [c for g in rule_funcs for c in calls_in(g) if call_name(c) == 'dict' and c.args and 'options.privacy' in norm(c.args[0])]
        if maps:
            m0 = maps[0]
            it = m0.generators[0].iter if isinstance(m0, ast.DictComp) else m0.args[0]
            rev = isinstance(it, ast.Call) and call_name(it) == 'reversed'
            chk.ob('R13.2', 'model.System.privacyClass :: the last given exact rule wins', not rev,
                   'mapping filled in the order the rules were given: the last one stays' if not rev else
                   f'`{norm(m0)[:70]}`: a mapping keeps the pair inserted LAST, and the rules are inserted in reverse: of two exact rules for the same name the '
                   'one given first wins', repo.loc(pc.mod, m0))
    mapping_form = any(o.rule == 'R13.2' and 'exact rule wins' in o.key for o in chk.obligations)
    if (not exact and not mapping_form) or not patt:
        raise AnalysisError('System.privacyClass: exact / pattern assignments not recognised')
    cfgs: Dict[str, CFG] = {}

    def cfg_of(g: Func) -> CFG:
        if g.qn not in cfgs:
            cfgs[g.qn] = CFG(g)
        return cfgs[g.qn]

    def _leaves(g: Func, lp: ast.For, i: ast.If) -> bool:
        """after the hit the loop is left on every path (break / return)"""
        cg_ = cfg_of(g)
        r = cg_.reachable(i.body[0], avoid_nodes=[x for st in i.body for x in ast.walk(st) if isinstance(x, (ast.Break, ast.Return))], no_exc=True)
        return id(lp) not in r
    # pattern rules apply only when no exact rule matched: no pattern hit is reachable from an exact hit (boolean flags set next to the hit propagated)
    for kind_p, gp, lp_p, ip, hp in patt:
        reach_from_exact = False
        for kind_e, ge, lp_e, ie, he in exact:
            if ge is not gp:
                continue
            cg_ = cfg_of(ge)
            flags = {t.id: n.value.value for st in ie.body for n in ast.walk(st) if isinstance(n, ast.Assign) and isinstance(n.value, ast.Constant) and
                     isinstance(n.value.value, bool) for t in n.targets if isinstance(t, ast.Name)}

            def known(e: ast.AST) -> Optional[bool]:
                if isinstance(e, ast.Name) and e.id in flags:
                    return flags[e.id]
                if isinstance(e, ast.UnaryOp) and isinstance(e.op, ast.Not):
                    k = known(e.operand)
                    return None if k is None else not k
                return None
            dead = [(nid, id(t), k) for nid, edges in cg_.succ.items() for (t, l, k) in edges if l is not None and known(l[0]) is not None and known(l[0]) != l[1]]
            # the hit itself stays in the loop only through the loop head: start after the statements of the hit block
            r = cg_.reachable(he, avoid_edges=dead, avoid_nodes=[lp_e] if _leaves(ge, lp_e, ie) else [], no_exc=True)
            if id(hp) in r:
                reach_from_exact = True
        if mapping_form and not exact:
            tests = cfg_of(gp).dominating_tests(hp)
            reach_from_exact = not any(isinstance(t, ast.Compare) and len(t.ops) == 1 and isinstance(t.ops[0], ast.In) and not pol for t, pol in tests)
        chk.ob('R13.2', 'model.System.privacyClass :: pattern rules apply only when no exact rule matched', not reach_from_exact,
               'no pattern hit is reachable once an exact rule has matched' if not reach_from_exact else
               'a pattern rule can override a rule whose pattern equals the qualified name', repo.loc(gp.mod, hp))
    for kind, g, lp, i, h in hits:
        rev = 'reversed(' in expanded_text(g, lp.iter)     # directly or through a named list (`rules = list(reversed(...))`)
        brk = _leaves(g, lp, i)
        ok = (rev and brk) or (not rev and not brk)
        chk.ob('R13.2', f'model.System.privacyClass :: the last given {kind} rule wins', ok,
               'reversed(...) and the loop is left at the first hit (first hit from the end)' if rev and brk else 'forward scan, last hit wins' if ok else
               ('forward scan left at the first hit: the FIRST given rule wins' if brk else 'reversed scan that goes on after a hit: the FIRST given rule wins'),
               repo.loc(g.mod, lp))
        src = expanded_text(g, lp.iter)
        chk.ob('R13.2', f'model.System.privacyClass :: {kind} scan covers all --privacy rules', 'options.privacy' in src and '[' not in src,
               src, repo.loc(g.mod, lp))
    for kind, g, lp, ifn, h in patt:
        if not isinstance(lp.target, ast.Tuple):
            continue
        only_match = isinstance(ifn.test, ast.Call) and call_name(ifn.test) == 'qnmatch'
        chk.ob('R13.2', 'model.System.privacyClass :: a pattern rule applies exactly when it matches the name', bool(only_match),
               f'if {norm(ifn.test)[:60]}' if only_match else
               f'`{norm(ifn.test)[:90]}` adds a condition to the match: a later rule that matches but restates the current level is skipped, '
               'so an earlier matching rule decides ("the rule given last wins" fails)', repo.loc(g.mod, ifn))
        mv_ = lp.target.elts[1].id if len(lp.target.elts) == 2 and isinstance(lp.target.elts[1], ast.Name) else None
        skips = [x for st in lp.body for x in ast.walk(st) if isinstance(x, ast.If) and x is not ifn and mv_ is not None and
                 any(isinstance(y, ast.Name) and y.id == mv_ for y in ast.walk(x.test)) and any(isinstance(z, (ast.Continue, ast.Break)) for z in x.body)]
        chk.ob('R13.2', 'model.System.privacyClass :: every rule goes through the matcher', not skips,
               'no rule is filtered out by its text before qnmatch' if not skips else
               f'`if {norm(skips[0].test)[:70]}: continue` decides from the text of the rule whether it is a pattern: rules whose only wildcard is a `[seq]` set '
               'are never matched', repo.loc(g.mod, skips[0] if skips else lp))
    # default
    dflt_ = [(n, expanded_text(g, n.test)) for g in rule_funcs for n in g.walk() if isinstance(n, ast.If) and "startswith('_')" in expanded_text(g, n.test)]
    dflt = [n for n, _ in dflt_]
    dtxt = dflt_[0][1] if dflt_ else ''
    ok = bool(dflt) and "startswith('__')" in dtxt and "endswith('__')" in dtxt and 'not' in norm(dflt[0].test) and \
        any('PRIVATE' in norm(s) for s in dflt[0].body)
    init = [a for a in assigns if 'PUBLIC' in norm(a.value)] + [r for g in rule_funcs for r in g.walk() if isinstance(r, (ast.Return, ast.Assign)) and r.value is not None and 'PUBLIC' in norm(r.value)]
    chk.ob('R13.2', 'model.System.privacyClass :: default privacy from the name', ok and bool(init),
           "PUBLIC, PRIVATE for a leading underscore unless dunder" if ok and init else 'default rule changed', pc.loc)
    # cache keyed by the full name
    sets = [n for n in pc.walk() if isinstance(n, ast.Assign) and any(isinstance(t, ast.Subscript) and '_privacyClassCache' in norm(t.value) for t in n.targets)]
    gets = [c for c in calls_in(pc) if call_name(c) == 'get' and '_privacyClassCache' in norm(c.func)]
    fn = {t.id for n in pc.walk() if isinstance(n, ast.Assign) and norm(n.value).endswith('.fullName()') for t in n.targets if isinstance(t, ast.Name)}
    ok = bool(sets) and bool(gets) and all(norm(t.slice) in fn for s in sets for t in s.targets if isinstance(t, ast.Subscript)) and \
        all(norm(c.args[0]) in fn for c in gets)
    chk.ob('R13.2', 'model.System.privacyClass :: cache keyed by the qualified name', ok, 'get/set with ob.fullName()' if ok else
           'the privacy cache is keyed by something else than the full name (stale after a re-export)', pc.loc)
    # the value cached is the value returned
    rets = [n for n in pc.walk() if isinstance(n, ast.Return) and isinstance(n.value, ast.Name) and n.value.id in resv]
    ok = bool(rets) and all(norm(s.value) in resv for s in sets)
    chk.ob('R13.2', 'model.System.privacyClass :: returns what it caches', ok, 'cache[...] = privacy; return privacy', pc.loc)
    # the rules are consulted for every object: no class answers its privacy without going through System.privacyClass
    n_ov = 0
    for f in sorted(repo.funcs.values(), key=lambda f: f.qn):
        if f.name != 'privacyClass' or f.cls is None or not f.mod.name.startswith('pydoctor.') or '.test' in f.mod.name or f.cls.qn == 'pydoctor.model.System':
            continue
        n_ov += 1
        rets = [n for n in f.walk() if isinstance(n, ast.Return) and n.value is not None]
        def _arms(e: ast.AST) -> List[ast.AST]:
            return _arms(e.body) + _arms(e.orelse) if isinstance(e, ast.IfExp) else [e]

        def _consults(e: ast.AST) -> bool:
            return any((isinstance(x, ast.Call) and call_name(x) == 'privacyClass') or
                       (isinstance(x, ast.Attribute) and x.attr == 'privacyClass' and 'super()' in norm(x.value)) for x in ast.walk(e))
        consults = [r for r in rets if all(_consults(a) for a in _arms(r.value))]
        chk.ob('R13.2', f'{f.qn} :: every answer comes from the rule evaluation', bool(rets) and len(consults) == len(rets),
               'defers to System.privacyClass / the inherited property on every path' if rets and len(consults) == len(rets) else
               f'`{norm([r for r in rets if r not in consults][0])}` answers without looking at the --privacy rules: a HIDDEN: (or PUBLIC:) rule naming such an object '
               'has no effect', f.loc)
    if n_ov < 1:
        raise AnalysisError('R13.2: the Documentable.privacyClass property was not found')
    chk.require('R13.2', 9)

    # ------------------------------------------------------------------ R13.3
    pp = repo.func('pydoctor.utils.parse_privacy_tuple')
    look = [n for n in pp.walk() if isinstance(n, ast.Subscript) and 'PrivacyClass' in norm(n.value)]
    # which piece of the split value an expression reads: `parts[k]`, or a name bound at position k by `a, b = parts`
    unpacked = {t.id: k for a in pp.walk() if isinstance(a, ast.Assign) and isinstance(a.targets[0], ast.Tuple) and isinstance(a.value, (ast.Name, ast.Call))
                for k, t in enumerate(a.targets[0].elts) if isinstance(t, ast.Name)}

    from ..util import single_value as _sv13, expanded_text as _xt13

    def piece(e: ast.AST, depth: int = 3) -> Set[int]:
        out = set()
        for x in ast.walk(e):
            if isinstance(x, ast.Subscript) and isinstance(x.slice, ast.Constant) and isinstance(x.slice.value, int):
                out.add(x.slice.value)
            if isinstance(x, ast.Name) and x.id in unpacked:
                out.add(unpacked[x.id])
            elif isinstance(x, ast.Name) and depth > 0:
                v_ = _sv13(pp, x.id)        # a named intermediate: `level_name = parts[0].strip().upper()`
                if v_ is not None:
                    out |= piece(v_, depth - 1)
        return out
    ok = bool(look) and '.upper()' in _xt13(pp, look[0].slice, 3) and 'strip()' in _xt13(pp, look[0].slice, 3) and piece(look[0].slice) == {0}
    chk.ob('R13.3', 'utils.parse_privacy_tuple :: level looked up case-insensitively', ok, norm(look[0]) if look else 'lookup not found', pp.loc)
    rets = [n for n in pp.walk() if isinstance(n, ast.Return) and isinstance(n.value, ast.Tuple)]
    ok = bool(rets) and piece(rets[0].value.elts[1]) == {1}
    chk.ob('R13.3', 'utils.parse_privacy_tuple :: pattern is the text after the colon', ok, norm(rets[0].value) if rets else 'return not found', pp.loc)
    sp = [c for c in calls_in(pp) if call_name(c) == 'split']
    ok = bool(sp) and any(isinstance(n, ast.Compare) and 'len(' in norm(n.left) and norm(n.comparators[0]) == '2' for n in pp.walk())
    chk.ob('R13.3', 'utils.parse_privacy_tuple :: exactly <privacy>:<pattern>', ok, "split(':') and len(parts) != 2 -> error", pp.loc)

    cpv = repo.func('pydoctor.options._convert_privacy')
    lossy = [n for n in cpv.walk() if isinstance(n, (ast.Dict, ast.Set, ast.DictComp, ast.SetComp)) or
             (isinstance(n, ast.Call) and isinstance(n.func, ast.Name) and n.func.id in ('dict', 'set', 'frozenset', 'sorted', 'reversed')) or
             (isinstance(n, ast.Call) and call_name(n) in ('fromkeys', 'unique', 'unique_everseen', 'Counter', 'OrderedDict', 'sort', 'reverse', 'groupby')) or
             (isinstance(n, ast.Subscript) and isinstance(n.slice, ast.Slice) and n.slice.step is not None) or
             (isinstance(n, ast.Assign) and any(isinstance(t, ast.Subscript) for t in n.targets))]
    prm = [p.arg for p in cpv.params()]
    per_elem = any(isinstance(n, ast.Call) and call_name(n) == 'map' and len(n.args) == 2 and norm(n.args[1]) == prm[0] for n in cpv.walk()) or \
        any(isinstance(n, (ast.ListComp, ast.For)) and norm(n.generators[0].iter if isinstance(n, ast.ListComp) else n.iter) == prm[0] for n in cpv.walk())
    chk.ob('R13.3', 'options._convert_privacy :: rules keep their command-line order and multiplicity', per_elem and not lossy,
           'one (privacy, pattern) per --privacy value, in order' if per_elem and not lossy else
           f'the rule list is rebuilt through `{norm(lossy[0])[:40] if lossy else "?"}`: repeated patterns lose their position, so "the rule given '
           'last wins" no longer holds between overlapping rules', cpv.loc)
    op = repo.func('pydoctor.options.get_parser')
    pa = [c for c in calls_in(op) if call_name(c) == 'add_argument' and any(isinstance(a, ast.Constant) and a.value == '--privacy' for a in c.args)]
    ok = bool(pa) and any(k.arg == 'action' and isinstance(k.value, ast.Constant) and k.value.value == 'append' for k in pa[0].keywords)
    chk.ob('R13.3', 'options.get_parser :: --privacy accumulates in order', ok, "action='append'" if ok else '--privacy no longer appends', op.loc)
