"""
C05 - inheritance is computed as Python computes it.  Decides consumers and the failure path:
  R05.1 who-uses: member lookup / docstring inheritance / override notes walk the linearisation, not allbases/baseobjects
  R05.2 failure path: an inconsistent hierarchy is reported against the class and the class is still documented;
        linearisations are computed in post-processing only
  R05.3 mro() hands out the stored linearisation starting with the class itself
  R05.4 bases are resolved in the scope enclosing the class, in both resolution passes; generic subscripts are stripped
  R05.5 masking of inherited members ignores documentation privacy (templatewriter.util.unmasked_attrs)
  R05.6 class-private names (__x) are not matched across classes (Python's name mangling)
  R05.7 an empty docstring ends the docstring search; sibling branches do not share the cycle-detection path
  R05.8 the class page drops the first inheritance chain only when it is the class itself
  R05.10 class-body scoping: a name a class does not bind is looked up outside ALL enclosing classes; "overridden in" lists a subclass once
  R05.11 C3 shape clause: after a head is taken, mro._merge restarts the search at the first list
  R05.9 the documentation sources of a member are searched along the whole linearisation of ITS class (no exit, no hand-over to a base member's own search)
Does not decide: that mro._merge is C3 as a whole (an algorithmic equality with type.__mro__).
"""
from __future__ import annotations

import ast
from typing import Dict, List, Optional, Set, Tuple

from ..core import AnalysisError, Func, Repo, dotted, norm, parents
from ..cfg import CFG
from ..report import Check
from ..util import call_name, calls_in, enclosing_trys, handler_names, impl_funcs

M = 'pydoctor.model'

# functions that attribute members along the hierarchy: they must iterate Class.mro()
MRO_CONSUMERS = [
    f'{M}.Class.find', f'{M}.Inheritable.docsources', f'{M}.is_exception',
    'pydoctor.templatewriter.pages.get_override_info', 'pydoctor.templatewriter.util.nested_bases',
    'pydoctor.templatewriter.pages.ZopeInterfaceClassPage.interfaceMeth',
    'pydoctor.extensions.zopeinterface._inheritedDocsources',
]
# who may call allbases(): the pre-post-processing fallback of mro(), the error fallback of _init_mro, and itself
ALLBASES_CALLERS = {
    f'{M}.Class.mro': 'before post-processing no linearisation exists yet: documented fallback',
    f'{M}.Class._init_mro': 'fallback when the hierarchy is inconsistent (reported)',
    f'{M}.Class.allbases': 'its own recursion',
}
# direct-base purposes: iterating baseobjects is about the *direct* bases only
BASEOBJECTS_USERS = {
    f'{M}.compute_mro.localbases': 'direct bases handed to the C3 merge',
    f'{M}.defaultPostProcess': 'inverse relation subclasses',
    f'{M}.Class.allbases': 'transitive closure used by the fallbacks',
    f'{M}.Class.baseobjects': 'the property itself',
    'pydoctor.templatewriter.pages.format_class_signature': 'class signature shows the direct bases',
    'pydoctor.templatewriter.summary.findRootClasses': 'class index is built from direct bases',
    'pydoctor.extensions.zopeinterface.ZopeInterfaceClass.allImplementedInterfaces': 'interfaces accumulate over direct bases recursively',
    'pydoctor.extensions.zopeinterface.ZopeInterfaceModuleVisitor.depart_ClassDef': 'schema-field detection on direct bases',
    'pydoctor.epydoc2stan.FieldHandler._handle_param_not_found': 'only asks whether some direct base is unresolved',
}


def _localbases_func(repo: Repo) -> Func:
    """The function that turns the direct bases of a class into what the C3 merge is fed (historically the closure `compute_mro.localbases`): found by
    what it does - it lives in compute_mro or next to it as a private module-level function, and walks `.bases` alongside `.baseobjects`."""
    cm = repo.func(f'{M}.compute_mro')
    cands = [g for g in repo.funcs.values() if g.mod is cm.mod and (g.outer is cm or (g.outer is None and g.cls is None and g.name.startswith('_'))) and
             any(isinstance(n, ast.Attribute) and n.attr == 'baseobjects' for n in g.walk()) and
             any(isinstance(n, ast.Attribute) and n.attr == 'bases' for n in g.walk())]
    if len(cands) != 1:
        raise AnalysisError(f'anchor vanished: the function that feeds the direct bases to the C3 merge was not found in {M} ({[g.qn for g in cands]})')
    return cands[0]


def run(repo: Repo, chk: Check, thorough: bool = False) -> None:
    chk.explanation = ('who-uses census of Class.mro()/allbases()/baseobjects against tables of consumers; exception classes raised by the '
                       'linearisation code and handler shape of Class._init_mro; call-site census of _init_mro/compute_mro; receiver of the '
                       'two base-resolution passes')
    chk.assumptions = ['mro._merge implements C3 (not decided: needs execution against type.__mro__)',
                       'consumers are identified by iterating <x>.mro(...) / <x>.allbases(...) / <x>.baseobjects syntactically']
    # ------------------------------------------------------------------ R05.1
    lbf = _localbases_func(repo)
    for q in MRO_CONSUMERS:
        f = repo.funcs.get(q)
        if f is None:
            chk.error(f'R05.1: consumer {q} no longer exists: re-confirm the consumer table')
            continue
        # (the consumer together with the private helpers it delegates the walk to: `overridden = _find_overridden(cls, name)`)
        impl = impl_funcs(repo, f, depth=2)
        uses_mro = [c for g_ in impl for c in calls_in(g_) if call_name(c) == 'mro' and isinstance(c.func, ast.Attribute)]
        uses_all = [c for g_ in impl for c in calls_in(g_) if call_name(c) == 'allbases']
        uses_bo = [n for g_ in impl for n in g_.walk() if isinstance(n, ast.Attribute) and n.attr in ('baseobjects', '_finalbaseobjects', '_initialbaseobjects')]
        ok = bool(uses_mro) and not uses_all and not uses_bo
        chk.ob('R05.1', f'{q} :: walks the linearisation', ok,
               f'iterates {norm(uses_mro[0])}' if ok else
               (f'uses {norm((uses_all or uses_bo)[0])[:40]} (depth-first, not the MRO): an inherited member is attributed to another class than '
                'attribute lookup yields at run time' if (uses_all or uses_bo) else 'no longer iterates Class.mro()'), f.loc)
    for f in repo.funcs.values():
        if f.mod.name.startswith('pydoctor.sphinx_ext'):
            continue
        for c in calls_in(f, lambda c: call_name(c) == 'allbases' and isinstance(c.func, ast.Attribute)):
            ok = f.qn in ALLBASES_CALLERS
            chk.ob('R05.1', f'{f.qn} :: {norm(c)[:40]}', ok, ALLBASES_CALLERS.get(f.qn, '') if ok else
                   'allbases() (not MRO order) used outside the documented fallbacks', repo.loc(f.mod, c))
        for n in f.walk():
            if isinstance(n, ast.Attribute) and n.attr == 'baseobjects' and isinstance(n.ctx, ast.Load):
                par = getattr(n, '_parent', None)
                iterated = isinstance(par, (ast.For, ast.comprehension)) and par.iter is n or \
                    (isinstance(par, ast.Call) and call_name(par) in ('zip', 'enumerate', 'reversed', 'list'))
                if not iterated and not isinstance(par, ast.Compare):
                    continue
                ok = f.qn in BASEOBJECTS_USERS or f is lbf
                chk.ob('R05.1', f'{f.qn} :: uses baseobjects', ok, BASEOBJECTS_USERS.get(f.qn, 'direct bases handed to the C3 merge') if ok else
                       'direct bases iterated by a new consumer: members must be attributed along mro(), baseobjects is for direct-base purposes only',
                       repo.loc(f.mod, n))
    chk.require('R05.1', 18)

    # ------------------------------------------------------------------ R05.2
    for q in ('pydoctor.mro._merge', 'pydoctor.mro.mro', f'{M}.compute_mro', f'{M}.compute_mro.init_finalbaseobjects'):
        f = repo.func(q)
        # (with the private helpers a raise may have been moved into: `_next_candidate(...)` of `_merge`)
        seen_r = set()
        for n in [x for g_ in impl_funcs(repo, f, depth=2) for x in g_.walk()]:
            if id(n) in seen_r:
                continue
            seen_r.add(id(n))
            if isinstance(n, ast.Raise) and n.exc is not None:
                ok = 'ValueError' in norm(n.exc)
                chk.ob('R05.2', f'{q} :: raises {norm(n.exc)[:30]}', ok, 'ValueError (what Class._init_mro handles)' if ok else
                       'the linearisation code raises a class that _init_mro does not handle: an inconsistent hierarchy aborts the run', repo.loc(f.mod, n))
    im = repo.func(f'{M}.Class._init_mro')
    cm = [c for c in calls_in(im) if call_name(c) == 'compute_mro']
    if not cm:
        chk.error('R05.2: compute_mro(...) not called from Class._init_mro')
    for c in cm:
        hs = [h for t in enclosing_trys(c, im.node) for h in t.handlers if 'ValueError' in handler_names(h) or h.type is None or 'Exception' in handler_names(h)]
        ok = bool(hs)
        chk.ob('R05.2', f'{M}.Class._init_mro :: handles ValueError', ok, 'try: compute_mro except ValueError' if ok else 'inconsistent hierarchies are not handled', im.loc)
        if hs:
            h = hs[0]
            rep = any(isinstance(x, ast.Call) and call_name(x) == 'report' and dotted(x.func) == 'self.report' and
                      any(isinstance(a, ast.Constant) and a.value == 'mro' for a in list(x.args) + [k.value for k in x.keywords])
                      for st in h.body for x in ast.walk(st))
            asg = any(isinstance(x, ast.Assign) and any(dotted(t) == 'self._mro' for t in x.targets) for st in h.body for x in ast.walk(st))
            chk.ob('R05.2', f'{M}.Class._init_mro :: inconsistency reported against the class', rep,
                   "self.report(str(e), 'mro')" if rep else 'the inconsistent hierarchy is not reported (section mro)', f'{im.mod.relpath}:{h.lineno}')
            chk.ob('R05.2', f'{M}.Class._init_mro :: class still documented', asg,
                   'self._mro gets the fallback order' if asg else 'no linearisation is stored on the failing path: the class loses its members', f'{im.mod.relpath}:{h.lineno}')
    # linearisations are only computed in post-processing
    for f in repo.funcs.values():
        for c in calls_in(f, lambda c: call_name(c) in ('_init_mro', 'compute_mro')):
            nm = call_name(c)
            ok = (nm == '_init_mro' and f.qn == f'{M}.defaultPostProcess') or (nm == 'compute_mro' and f.qn == f'{M}.Class._init_mro')
            chk.ob('R05.2', f'{f.qn} :: calls {nm}', ok, 'post-processing only' if ok else
                   f'{nm}() called outside post-processing: bases of modules not yet processed are unresolved, the stored MRO is wrong', repo.loc(f.mod, c))
    reg = False
    for f in repo.funcs.values():
        for c in calls_in(f, lambda c: call_name(c) == 'register_post_processor'):
            if any('defaultPostProcess' in norm(a) for a in c.args):
                reg = True
    chk.ob('R05.2', f'{M}.defaultPostProcess :: registered as post-processor', reg, 'register_post_processor(model.defaultPostProcess ...)' if reg else
           'defaultPostProcess is not registered', 'pydoctor/astbuilder.py')
    pr = repo.func(f'{M}.System.process')
    cfg = CFG(pr)
    loops = [n for n in pr.walk() if isinstance(n, ast.While) and 'unprocessed_modules' in norm(n.test)]
    pp = [c for c in calls_in(pr) if call_name(c) == 'postProcess']
    ok = bool(loops) and bool(pp) and not any(pp[0] in list(ast.walk(l)) for l in loops) and cfg.dominates(loops[0], cfg.stmt_of(pp[0]), no_exc=True)
    chk.ob('R05.2', f'{M}.System.process :: post-processing after the module list is drained', ok,
           'while unprocessed_modules: ...; then postProcess()' if ok else 'postProcess() can run before every module is processed', pr.loc)
    chk.require('R05.2', 9)

    # ------------------------------------------------------------------ R05.3
    mf = repo.func(f'{M}.Class.mro')
    rets = [n for n in mf.walk() if isinstance(n, ast.Return)]
    srcs = set()
    for r in rets:
        if isinstance(r.value, ast.Name):
            for a in mf.walk():
                if isinstance(a, ast.Assign) and any(isinstance(t, ast.Name) and t.id == r.value.id for t in a.targets):
                    srcs.add(norm(a.value))
        elif r.value is not None:
            srcs.add(norm(r.value))
    import re as _re
    ok = any('self._mro' in s for s in srcs) and all('self._mro' in s or 'allbases' in s or _re.fullmatch(r'\w+\[1:\]', s) for s in srcs)
    chk.ob('R05.3', f'{M}.Class.mro :: returns the stored linearisation', ok, f'sources: {sorted(srcs)}' if ok else f'mro() returns {sorted(srcs)}', mf.loc)
    sl = [n for n in mf.walk() if isinstance(n, ast.Subscript) and isinstance(n.slice, ast.Slice)]
    ok = len(sl) == 1 and norm(sl[0].slice) == '1:' and any('include_self' in norm(p.test) for p in parents(sl[0]) if isinstance(p, ast.If))
    chk.ob('R05.3', f'{M}.Class.mro :: include_self=False drops exactly the class itself', ok, '_mro[1:] under `include_self is False`' if ok else
           'slicing of the linearisation changed', mf.loc)
    mm = repo.func('pydoctor.mro.mro')
    ok = any(isinstance(n, ast.Assign) and norm(n.value) == '[cls]' for n in mm.walk()) and \
        all(isinstance(r.value, ast.Name) or (isinstance(r.value, ast.BinOp) and isinstance(r.value.left, ast.Name)) for r in mm.walk() if isinstance(r, ast.Return))
    chk.ob('R05.3', 'pydoctor.mro.mro :: the linearisation starts with the class itself', ok, 'result = [cls]; return result + _merge(...)' if ok else
           'the class itself is no longer the head of its linearisation', mm.loc)
    mg = [c for c in calls_in(mm) if call_name(c) == '_merge']
    ok = bool(mg) and len(mg[0].args) == 2 and isinstance(mg[0].args[0], ast.Starred) and 'getbases(cls)' in norm(mg[0].args[1])
    chk.ob('R05.3', 'pydoctor.mro.mro :: merge of the parents\' linearisations and the list of parents', ok,
           '_merge(*[mro(k) for k in bases], bases)' if ok else 'the C3 merge no longer receives the local precedence list', mm.loc)
    # every value stored as the linearisation starts with the class itself: compute_mro(self) does (mro.mro, above); the fallback for an
    # inconsistent hierarchy must ask allbases() to include the class
    for w_ in [n for f_ in repo.funcs.values() if f_.cls is not None and f_.cls.qn == f'{M}.Class' for n in f_.walk()
               if isinstance(n, ast.Assign) and any(isinstance(t, ast.Attribute) and t.attr == '_mro' and dotted(t.value) == 'self' for t in n.targets)]:
        v = w_.value
        calls_ab = [c for c in ast.walk(v) if isinstance(c, ast.Call) and call_name(c) == 'allbases']
        if isinstance(v, ast.Constant) and v.value is None:
            continue
        if calls_ab:
            c = calls_ab[0]
            inc = (c.args and isinstance(c.args[0], ast.Constant) and c.args[0].value is True) or \
                any(k.arg == 'include_self' and isinstance(k.value, ast.Constant) and k.value.value is True for k in c.keywords)
            chk.ob('R05.3', f'{M}.Class :: `{norm(w_)[:50]}` starts with the class itself', bool(inc),
                   'allbases(True)' if inc else
                   f'`{norm(v)[:50]}` leaves the class out of its own linearisation: mro() no longer starts with the class, mro(include_self=False) drops the first '
                   'base instead, and Class.find() misses the members of the class itself', repo.loc(repo.mod(M), w_))
    chk.require('R05.3', 5)

    # ------------------------------------------------------------------ R05.4
    vc = repo.func('pydoctor.astbuilder.ModuleVistor.visit_ClassDef')
    ex = [c for c in calls_in(vc) if call_name(c) == 'expandName' and any('base' in norm(a) for a in c.args)]
    pvars = {t.id for n in vc.walk() if isinstance(n, ast.Assign) and 'builder.current' in norm(n.value) for t in n.targets if isinstance(t, ast.Name)}
    push = [c for c in calls_in(vc) if call_name(c) == 'pushClass']
    cfgv = CFG(vc)
    ok = bool(ex) and all(isinstance(c.func.value, ast.Name) and c.func.value.id in pvars for c in ex) and bool(push) and \
        all(id(cfgv.stmt_of(c)) not in cfgv.reachable(cfgv.stmt_of(push[0]), no_exc=True) for c in ex)  # type: ignore[attr-defined]
    chk.ob('R05.4', 'ModuleVistor.visit_ClassDef :: bases expanded in the enclosing scope', ok,
           'parent.expandName(base) with parent = builder.current taken before the class is pushed' if ok else
           'base names are no longer expanded in the scope that encloses the class statement', vc.loc)
    ifb = repo.func(f'{M}.compute_mro.init_finalbaseobjects')
    rs = [c for c in calls_in(ifb) if call_name(c) in ('resolveName', 'expandName')]
    ok = bool(rs) and all(isinstance(c.func, ast.Attribute) and isinstance(c.func.value, ast.Attribute) and c.func.value.attr == 'parent' for c in rs)
    chk.ob('R05.4', f'{M}.compute_mro :: second pass resolves in the enclosing scope too', ok,
           'o.parent.resolveName(str_base)' if ok else
           f'`{norm(rs[0]) if rs else "?"}` resolves the base name inside the class itself: a member named like the first component of the base '
           'expression hides the real base, which drops out of the linearisation', ifb.loc)
    # either spelling: `if isinstance(b, ast.Subscript): name = b.value` or `name = b.value if isinstance(b, ast.Subscript) else b`
    strip = [n for n in vc.walk() if (isinstance(n, ast.If) and any(isinstance(s, ast.Assign) and norm(s.value).endswith('.value') and
                                                                      'base' in norm(s.value) for s in n.body)) or
             (isinstance(n, ast.IfExp) and ((norm(n.body).endswith('.value') and 'base' in norm(n.body)) or (norm(n.orelse).endswith('.value') and 'base' in norm(n.orelse))))]

    def _sub_test(t: ast.AST) -> bool:
        while isinstance(t, ast.UnaryOp) and isinstance(t.op, ast.Not):
            t = t.operand
        return isinstance(t, ast.Call) and call_name(t) == 'isinstance' and 'ast.Subscript' in norm(t)
    ok = bool(strip) and all(_sub_test(n.test) for n in strip)
    chk.ob('R05.4', 'ModuleVistor.visit_ClassDef :: generic subscripts are stripped from every base', ok,
           'if isinstance(base_node, ast.Subscript): name_node = base_node.value' if ok else
           f'the subscript is only stripped under `{norm(strip[0].test)[:70] if strip else "?"}`: other generic bases (e.g. mod.Base[int]) stay '
           'unresolvable strings and vanish from the MRO', vc.loc)
    # Python drops an explicit `Generic[T]` base when ANY later base is a subscripted generic (typing._GenericAlias.__mro_entries__: `for b in bases[i+1:]`).
    # The branch of compute_mro.localbases that leaves `Generic` out has to look at all the bases that follow, not at a fixed neighbour
    lb0 = _localbases_func(repo)
    mm0 = repo.mod(M)
    # the decision may sit in localbases itself, in a helper it calls, and the two names of Generic in a module constant: find the function that
    # compares a base name with 'typing.Generic' (directly or through such a constant) and is localbases or one of its callees
    gconsts = {k for k, v in mm0.assigns.items() if any(isinstance(c, ast.Constant) and c.value == 'typing.Generic' for c in ast.walk(v))}

    def _names_generic(e: ast.AST) -> bool:
        return any((isinstance(c, ast.Constant) and c.value == 'typing.Generic') or (isinstance(c, ast.Name) and c.id in gconsts) for c in ast.walk(e))
    callees0 = {call_name(c) for c in calls_in(lb0)}
    deciders = [g for g in repo.funcs.values() if g.mod is mm0 and (g is lb0 or (g.name in callees0 and g.cls is None and g.outer is None)) and
                any(isinstance(x, (ast.Compare, ast.Call)) and _names_generic(x) for x in g.walk())]
    if not deciders:
        raise AnalysisError('R05.4: the branch of compute_mro.localbases that drops an explicit Generic[...] base was not found')
    for lb in deciders:
        # every expression of the deciding function that takes part in the decision: tests, values of locals, returned expressions
        n = next((x for x in lb.walk() if isinstance(x, (ast.If, ast.Return, ast.Assign)) and _names_generic(x)), lb.node)
        read = {x.id for x in lb.walk() if isinstance(x, ast.Name)}
        exprs: List[ast.AST] = [x.test for x in lb.walk() if isinstance(x, (ast.If, ast.IfExp))] + [x.value for x in lb.walk() if isinstance(x, ast.Return) and x.value is not None] + \
            [a.value for a in lb.walk() if isinstance(a, ast.Assign)]

        def open_tail(x: ast.AST) -> bool:
            return (isinstance(x, ast.Subscript) and isinstance(x.slice, ast.Slice) and x.slice.upper is None and x.slice.lower is not None) or \
                (isinstance(x, ast.Call) and call_name(x) == 'range' and len(x.args) >= 2 and isinstance(x.args[0], ast.BinOp))
        quant = [g for e_ in exprs for g in ast.walk(e_) if isinstance(g, (ast.GeneratorExp, ast.ListComp, ast.SetComp)) and
                 any(open_tail(x) for gen in g.generators for x in ast.walk(gen.iter))] + \
            [lp for lp in lb.walk() if isinstance(lp, ast.For) and lp is not n and any(open_tail(x) for x in ast.walk(lp.iter)) and
             any(isinstance(a, ast.Assign) and any(isinstance(t, ast.Name) and t.id in read for t in a.targets) for st in lp.body for a in ast.walk(st))]
        fixed = [x for e_ in exprs for x in ast.walk(e_) if isinstance(x, ast.Subscript) and not isinstance(x.slice, ast.Slice) and isinstance(x.slice, ast.BinOp)]
        if not quant and not fixed:
            raise AnalysisError('R05.4: the test that drops Generic[...] reads the later bases in an unrecognised way')
        chk.ob('R05.4', f'{lb.qn} :: Generic[...] is dropped when ANY later base is a subscripted generic', bool(quant),
               'quantifies over the bases after it (rawbases[i+1:])' if quant else
               f'the test only looks at `{norm(fixed[0])[:40]}`: `class X(Generic[T], P, A[T])` keeps Generic in front although Python removes it - pydoctor reports an '
               'inconsistent hierarchy for a class CPython accepts and falls back to a depth-first order (X.find() and the inherited docstrings come from the wrong class)',
               repo.loc(lb.mod, n))
    chk.require('R05.4', 4)

    # ------------------------------------------------------------------ R05.11  one shape clause of C3 (the equality with type.__mro__ stays undecided)
    # C3 takes, at every step, the FIRST list whose head is in no tail: after a head has been taken the search starts again at the first list.  In _merge no
    # second element may be appended to the result before the outermost loop has come round (a run of heads taken from one list swaps classes)
    mg_ = repo.func('pydoctor.mro._merge')
    cfm = CFG(mg_)
    outer = [n for n in mg_.body() if isinstance(n, (ast.While, ast.For))]
    resv = {n.value.id for n in mg_.walk() if isinstance(n, ast.Return) and isinstance(n.value, ast.Name)}
    takes = [cfm.stmt_of(c) for c in calls_in(mg_) if call_name(c) in ('append', 'extend') and isinstance(c.func, ast.Attribute) and isinstance(c.func.value, ast.Name) and
             c.func.value.id in resv]
    if len(outer) != 1 or not takes:
        raise AnalysisError('R05.11: mro._merge: the outer loop / the statement that appends to the result was not found')
    for a in takes:
        again = False
        for (t, l, k) in cfm.succ.get(id(a), []):
            if k == 'exc':
                continue
            r = cfm.reachable(t, avoid_nodes=[outer[0]], no_exc=True)
            if any(id(b) in r for b in takes):
                again = True
        chk.ob('R05.11', 'pydoctor.mro._merge :: after a head is taken the search restarts at the first list', not again,
               'every path from one append to the next passes the head of the outer loop' if not again else
               'a second head can be appended without rescanning from the first list (a run of candidates taken from one linearisation): `E(C, D, A)` with C(A), D(B) gives '
               'E C D B A where Python gives E C D A B - still a valid order, so nothing is reported, but find()/docsources() and inherited docstrings differ', repo.loc(mg_.mod, a))

    # ------------------------------------------------------------------ R05.5
    # Python's attribute lookup does not know about documentation privacy: an override masks the inherited member whether or not it is shown
    ua = repo.func('pydoctor.templatewriter.util.unmasked_attrs')
    prm = ua.params()[0].arg
    PRESENTATION = ('isVisible', 'privacyClass', 'isPrivate', 'PrivacyClass', 'docstring', 'kind')
    found = 0

    def _is_tail(e: ast.AST, depth: int = 2) -> bool:
        """e is `<baselist>[k:]`, directly or through a local bound to it (`first, nearer = baselist[0], baselist[1:]`)."""
        if isinstance(e, ast.Subscript) and isinstance(e.value, ast.Name) and e.value.id == prm and isinstance(e.slice, ast.Slice):
            return True
        if isinstance(e, ast.Name) and depth > 0:
            for a in ua.walk():
                if isinstance(a, ast.Assign):
                    for t in a.targets:
                        if isinstance(t, ast.Name) and t.id == e.id and _is_tail(a.value, depth - 1):
                            return True
                        if isinstance(t, ast.Tuple) and isinstance(a.value, ast.Tuple) and len(t.elts) == len(a.value.elts):
                            for te, ve in zip(t.elts, a.value.elts):
                                if isinstance(te, ast.Name) and te.id == e.id and _is_tail(ve, depth - 1):
                                    return True
        return False
    for n in ua.walk():
        gens = n.generators if isinstance(n, (ast.SetComp, ast.ListComp, ast.GeneratorExp, ast.DictComp)) else []
        if gens and _is_tail(gens[0].iter):
            found += 1
            conds = [c for g in gens for c in g.ifs]
            bad = [c for c in conds if any(isinstance(x, ast.Attribute) and x.attr in PRESENTATION for x in ast.walk(c))]
            chk.ob('R05.5', 'templatewriter.util.unmasked_attrs :: every member of the nearer classes masks, shown or not', not bad,
                   f'the masking names are collected from all of {prm}[1:] without a presentation filter' if not bad else
                   f'masking names are filtered by `{norm(bad[0])}`: a hidden/private override no longer masks, so the page attributes the member to a '
                   'farther base than Python\'s lookup does', repo.loc(ua.mod, n))
        if isinstance(n, ast.For) and _is_tail(n.iter):
            found += 1
            bad2 = [x for x in ast.walk(n) if isinstance(x, (ast.If, ast.IfExp)) and any(isinstance(y, ast.Attribute) and y.attr in PRESENTATION for y in ast.walk(x.test))]
            chk.ob('R05.5', 'templatewriter.util.unmasked_attrs :: every member of the nearer classes masks, shown or not', not bad2,
                   'loop form, no presentation filter' if not bad2 else f'masking names are filtered by `{norm(bad2[0].test)}`', repo.loc(ua.mod, n))
    if not found:
        raise AnalysisError('R05.5: the collection of masking names over baselist[1:] was not found in unmasked_attrs')
    chk.require('R05.5', 1)

    # ------------------------------------------------------------------ R05.6
    # inside a class body Python mangles `__name` to `_Class__name`: `Base.__check` and `Derived.__check` are two independent attributes.  The
    # places that match a member of one class against the same NAME in another class of the linearisation must leave such names alone
    NAME_MATCHERS = [f'{M}.Inheritable.docsources', 'pydoctor.templatewriter.pages.get_override_info',
                     'pydoctor.templatewriter.util.overriding_subclasses', 'pydoctor.templatewriter.util.unmasked_attrs']

    def _is_mangling_test(g: Func) -> bool:
        starts = any(isinstance(c, ast.Call) and call_name(c) == 'startswith' and c.args and isinstance(c.args[0], ast.Constant) and c.args[0].value == '__' for c in calls_in(g))
        ends = any(isinstance(c, ast.Call) and call_name(c) == 'endswith' and c.args and isinstance(c.args[0], ast.Constant) and c.args[0].value == '__' for c in calls_in(g))
        return starts and ends
    helpers = {g.name for g in repo.funcs.values() if g.mod.name.startswith('pydoctor.') and '.test' not in g.mod.name and _is_mangling_test(g) and len(g.body()) <= 4}
    for q in NAME_MATCHERS:
        f = repo.funcs.get(q)
        if f is None:
            raise AnalysisError(f'R05.6: {q} no longer exists: re-confirm the table of cross-class name matchers')
        okn = any(_is_mangling_test(g_) or any(call_name(c) in helpers for c in calls_in(g_)) for g_ in impl_funcs(repo, f, depth=2))
        chk.ob('R05.6', f'{q} :: class-private names (__x) are not matched across classes', okn,
               'tests the mangling rule' if okn else
               'members are matched by their source spelling only: `Derived.__check` inherits the docstring of `Base.__check`, is shown as overriding it and hides '
               'it from the inherited members, although at run time `_Base__check` and `_Derived__check` are unrelated attributes', f.loc)
    chk.require('R05.6', 4)

    check_r05_10(repo, chk)
    # ------------------------------------------------------------------ R05.9
    # attribute lookup for a member of class C goes along the linearisation of C, whatever class an intermediate definition sits in.  docsources()
    # therefore consults every class of `self.parent.mro()` itself: a loop that leaves at the first hit, or hands the rest of the search to the base
    # member's own docsources() (which continues along the BASE's linearisation), finds Base.m before B.m in the diamond C(A, B)
    from ..util import loop_exits as _loop_exits
    ds = repo.func(f'{M}.Inheritable.docsources')
    mloops = [n for n in ds.walk() if isinstance(n, ast.For) and any(isinstance(c, ast.Call) and call_name(c) == 'mro' for c in ast.walk(n.iter))]
    if not mloops:
        raise AnalysisError('R05.9: Inheritable.docsources no longer loops over the linearisation of its class')
    for lp in mloops:
        exits = _loop_exits(lp)
        hand = [c for st in lp.body for c in ast.walk(st) if isinstance(c, ast.Call) and call_name(c) == 'docsources']
        recv_ok = 'self.parent' in norm(lp.iter)
        ok9 = not exits and not hand and recv_ok
        chk.ob('R05.9', f'{M}.Inheritable.docsources :: every class of the linearisation of the member\'s own class is consulted', ok9,
               f'for ... in {norm(lp.iter)}: no exit, no delegation' if ok9 else
               (f'the loop over `{norm(lp.iter)}` ' + ('leaves at the first hit' if exits else 'hands the search over to the base member\'s own docsources()' if hand else
                                                      'does not walk the linearisation of self.parent') +
                ': in the diamond `C(A, B)` with undocumented `C.m`, `A.m` and documented `B.m`, `Base.m` the docstring of Base.m (or none) is shown, Python reports B.m\'s'),
               repo.loc(ds.mod, lp))
    chk.require('R05.9', 1)

    # ------------------------------------------------------------------ R05.7
    # (a) the search for the first docstring along the linearisation stops at the first source that HAS a docstring, also an empty one
    #     (at run time `__doc__ == ''` is what the attribute lookup yields; nothing further along the MRO is inherited)
    gd = repo.func(f'{M}.get_docstring')
    cfd = CFG(gd)
    loops = [n for n in gd.walk() if isinstance(n, ast.For) and any(call_name(c) == 'docsources' for c in ast.walk(n.iter) if isinstance(c, ast.Call))]
    if not loops:
        raise AnalysisError('R05.7: get_docstring no longer iterates docsources()')
    lp = loops[0]
    dv = next((t.id for n in lp.body if isinstance(n, ast.Assign) and isinstance(n.value, ast.Attribute) and n.value.attr == 'docstring'
               for t in n.targets if isinstance(t, ast.Name)), None)
    if dv is None:
        raise AnalysisError('R05.7: get_docstring no longer reads <source>.docstring into a local')

    def is_none_edge(e: ast.AST, pol: bool) -> bool:
        if isinstance(e, ast.UnaryOp) and isinstance(e.op, ast.Not):
            return is_none_edge(e.operand, not pol)
        if isinstance(e, ast.Compare) and len(e.ops) == 1 and norm(e.left) == dv and norm(e.comparators[0]) == 'None':
            return pol == isinstance(e.ops[0], ast.Is)
        return False
    none_edges = [(nid, id(t), k) for nid, edges in cfd.succ.items() for (t, l, k) in edges if l is not None and is_none_edge(l[0], l[1])]
    rets = [n for st in lp.body for n in ast.walk(st) if isinstance(n, ast.Return)]
    r_ = cfd.reachable(lp.body[0], avoid_nodes=rets, avoid_edges=none_edges, no_exc=True)
    goes_on = id(lp) in r_
    chk.ob('R05.7', f'{M}.get_docstring :: an empty docstring ends the search like any other docstring', not goes_on,
           f'the next source is only consulted when `{dv} is None`' if not goes_on else
           'after an empty docstring the loop goes on to the next class of the linearisation: an override documented with "" inherits the text of a definition '
           'further along the MRO, whereas at run time its __doc__ is the empty string', repo.loc(gd.mod, lp))
    # (b) the two recursive walks that set up the base objects keep one path per branch: siblings must not share the list used to detect cycles
    ifb2 = repo.func(f'{M}.compute_mro.init_finalbaseobjects')
    pth = ifb2.params()[1].arg if len(ifb2.params()) > 1 else None
    recs = [c for c in calls_in(ifb2) if call_name(c) == ifb2.name]
    if not recs or pth is None:
        raise AnalysisError('R05.7: the recursion of compute_mro.init_finalbaseobjects was not found')
    for c in recs:
        arg = c.args[1] if len(c.args) > 1 else next((k.value for k in c.keywords if k.arg == pth), None)
        fresh = isinstance(arg, ast.Call) and (call_name(arg) in ('copy', 'list') or (isinstance(arg.func, ast.Attribute) and arg.func.attr == 'copy')) or \
            isinstance(arg, (ast.BinOp, ast.List))
        chk.ob('R05.7', f'{ifb2.qn} :: each branch of the hierarchy gets its own copy of the path', bool(fresh),
               f'{norm(arg) if arg is not None else "?"}' if fresh else
               f'`{norm(c)[:60]}` hands the same list to sibling branches: the second branch of a diamond finds the common root already in the path and a cycle '
               'is reported for a hierarchy Python accepts', repo.loc(ifb2.mod, c))
    chk.require('R05.7', 2)

    # ------------------------------------------------------------------ R05.8
    # the per-base tables of a class page: the first chain is dropped only when it is the chain of the class itself (a class without visible
    # members of its own has no such chain - then the first chain is the first base that contributes members)
    bt = repo.func('pydoctor.templatewriter.pages.ClassPage.baseTables')
    cfb = CFG(bt)
    dels = [n for n in bt.walk() if isinstance(n, ast.Delete) and any(isinstance(t, ast.Subscript) and norm(t.slice) == '0' for t in n.targets)] + \
           [n for n in bt.walk() if isinstance(n, ast.Expr) and isinstance(n.value, ast.Call) and call_name(n.value) == 'pop' and n.value.args and norm(n.value.args[0]) == '0']
    # ... or slices the head off (`baselists[1:]`)
    dels += [cfb.stmt_of(n) for n in bt.walk() if isinstance(n, ast.Subscript) and isinstance(n.slice, ast.Slice) and isinstance(n.slice.lower, ast.Constant) and
             isinstance(n.slice.lower.value, int) and n.slice.lower.value >= 1 and 'baselists' in norm(n.value)]
    for d_ in dels:
        own = any(pol and isinstance(x, ast.Compare) and len(x.ops) == 1 and isinstance(x.ops[0], (ast.Eq, ast.Is)) and
                  ('self.ob' in (norm(x.left), norm(x.comparators[0]))) for x, pol in cfb.dominating_tests(d_))
        chk.ob('R05.8', 'templatewriter.pages.ClassPage.baseTables :: the first chain is dropped only when it is the class itself', own,
               'guarded by a comparison with self.ob' if own else
               f'`{norm(d_)}` is unconditional: for `class Combined(A, B): pass` the members Python finds in the first contributing base are attributed to no '
               'class on the page', repo.loc(bt.mod, d_))
    if not dels:
        chk.note('R05.8: ClassPage.baseTables no longer drops a chain')



def check_r05_10(repo: Repo, chk: Check) -> None:
    # (a) the scope of a class body does not extend into nested classes: `class Server: class Handler: ...; class Protocols: class Http(Handler)` refers to the
    # module-level Handler.  The two lookups a class offers for a name it does not bind itself have to agree: isNameDefined() continues in the MODULE;
    # _localNameToFullName() must not continue in the enclosing class
    lf = repo.func(f'{M}.Class._localNameToFullName')
    dels = [c for c in calls_in(lf) if call_name(c) == '_localNameToFullName' and isinstance(c.func, ast.Attribute)]
    if not dels:
        raise AnalysisError('R05.10: Class._localNameToFullName no longer delegates to an outer scope')
    for c in dels:
        recv = c.func.value
        direct_parent = isinstance(recv, ast.Attribute) and recv.attr == 'parent' and dotted(recv.value) == 'self'
        skips = isinstance(recv, ast.Name) and any(isinstance(w, ast.While) and any(isinstance(x, ast.Call) and call_name(x) == 'isinstance' and 'Class' in norm(x.args[1])
                                                                                      for x in ast.walk(w.test)) for w in lf.walk()) or \
            (isinstance(recv, ast.Attribute) and recv.attr in ('module', 'parentMod'))
        ok = skips and not direct_parent
        chk.ob('R05.10', f'{M}.Class._localNameToFullName :: names not bound in the class are looked up outside every enclosing class', ok,
               f'continues in `{norm(recv)}`' if ok else
               f'continues in `{norm(recv)}`, the enclosing class: `class Http(Handler)` inside `Server.Protocols` takes `Server.Handler` as its base although Python '
               'uses the module-level `Handler` - wrong linearisation, wrong inherited docstring', repo.loc(lf.mod, c))
    # (b) the subclass graph is a DAG: a recursive walk over `.subclasses` reaches a class once per path - "overridden in shapes.Badge, shapes.Badge"
    os_ = repo.func('pydoctor.templatewriter.util.overriding_subclasses')
    rec = [c for c in calls_in(os_) if call_name(c) == os_.name]
    if not rec:
        raise AnalysisError('R05.10: overriding_subclasses no longer recurses')
    seen_sets = {t.id for a in os_.walk() if isinstance(a, (ast.Assign, ast.AnnAssign)) and a.value is not None and
                 ((isinstance(a.value, ast.Call) and call_name(a.value) in ('set', 'dict')) or isinstance(a.value, (ast.Set, ast.Dict)))
                 for t in (a.targets if isinstance(a, ast.Assign) else [a.target]) if isinstance(t, ast.Name)}
    dedup = any(isinstance(n, ast.Compare) and isinstance(n.ops[0], (ast.NotIn, ast.In)) and isinstance(n.comparators[0], ast.Name) and n.comparators[0].id in seen_sets
                for n in os_.walk()) or any(isinstance(c, ast.Call) and call_name(c) == 'fromkeys' for c in calls_in(os_))
    chk.ob('R05.10', 'templatewriter.util.overriding_subclasses :: a subclass reached along two paths is listed once', dedup,
           'results are de-duplicated' if dedup else
           'the walk treats the subclass graph as a tree: in a diamond (`Badge(Rounded, Filled)`, both deriving from `Shape`) the page of Shape says '
           '"overridden in shapes.Badge, shapes.Badge"', os_.loc)
    # (c) `class Impl(Generic[T], Named[T])`: typing drops `Generic[...]` from the bases when a later base is a subscripted generic (PEP 560,
    # `_GenericAlias.__mro_entries__`): Generic then comes in through that base only.  Fed to the C3 merge as a first base it makes a hierarchy that
    # CPython accepts look inconsistent ("Cannot compute linearization") and the class falls back to a wrong linearisation
    lb = _localbases_func(repo)
    # (the decision may live in localbases or in a module-level helper it calls, the names of Generic in a module constant)
    cal10 = {call_name(c) for c in calls_in(lb)}
    scope10: List[ast.AST] = list(lb.walk())
    for g in repo.funcs.values():
        if g.mod is lb.mod and g.name in cal10 and g.cls is None and g.outer is None:
            scope10 += list(g.walk())
    for k_, v_ in lb.mod.assigns.items():
        if any(isinstance(x, ast.Name) and x.id == k_ for x in scope10):
            scope10 += list(ast.walk(v_))
    knows = any(isinstance(x, ast.Constant) and isinstance(x.value, str) and x.value.endswith('Generic') for x in scope10) and \
        any(isinstance(x, ast.Attribute) and x.attr == 'Subscript' for x in scope10)
    chk.ob('R05.10', f'{M}.compute_mro.localbases :: Generic[...] followed by a subscripted base is left out, as typing does', knows,
           'handled' if knows else
           '`typing.Generic` is merged like any other base: `class Impl(Generic[T], Named[T], Box[T])`, which CPython accepts, is reported as inconsistent and gets '
           '[Impl, Named, Box, Box]', lb.loc)
    chk.require('R05.10', 3)
