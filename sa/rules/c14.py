"""
C14 - a displayed signature is the signature that was written.  Claimed narrowly: shape facts of the signature construction.
  R14.1 kind table: each ast.arguments field is added with the kind the language gives it, in the language's order
  R14.2 every stored annotation went through unstring_annotation / infer_type (provenance on def-use chains)
  R14.3 `-> None` is omitted
  R14.4 overloads own their signature
  R14.5 defaults are aligned to the end of the positional parameters (shape of the offset formula)
  R14.6 the link helpers show the caller's label unchanged (pydoctor.linker)
Does not decide: the text Signature.__str__ produces, equivalence of rendered defaults/annotations (C15), arbitrary layouts at run time.
"""
from __future__ import annotations

import ast
import inspect
from typing import Dict, List, Optional, Set, Tuple

from ..core import AnalysisError, Func, Repo, dotted, norm, parents
from ..cfg import CFG
from ..owners import writers
from ..report import Check
from ..util import call_name, calls_in

MV = 'pydoctor.astbuilder.ModuleVistor'
CLEANERS = {'unstring_annotation', 'infer_type', 'extract_final_subscript', 'annotation_from_attrib'}


def _language_kinds() -> Dict[str, str]:
    """Oracle: which inspect.Parameter kind CPython gives the parameters of each ast.arguments field."""
    src = 'def f(a, /, b, *c, d, **e): pass'
    node = ast.parse(src).body[0]
    ns: Dict[str, object] = {}
    exec(compile(src, '<oracle>', 'exec'), ns)   # the checker's own sample function, not pydoctor code
    sig = inspect.signature(ns['f'])  # type: ignore[arg-type]
    by_name = {n: p.kind.name for n, p in sig.parameters.items()}
    a = node.args  # type: ignore[attr-defined]
    out = {}
    for fld in ('posonlyargs', 'args', 'kwonlyargs'):
        out[fld] = by_name[getattr(a, fld)[0].arg]
    out['vararg'] = by_name[a.vararg.arg]
    out['kwarg'] = by_name[a.kwarg.arg]
    return out


def run(repo: Repo, chk: Check, thorough: bool = False) -> None:
    chk.explanation = ('table extraction of the add_arg(...) calls in ModuleVistor._handleFunctionDef compared with the kinds inspect gives a '
                       'sample function (oracle: the running interpreter); provenance fix-point over the annotation def-use chains; shape '
                       'of the return-annotation, overload and default-offset expressions')
    chk.assumptions = ['the text produced by inspect.Signature.__str__ and by the value formatters is not decided',
                       'R14.5 checks the shape of the offset formula, not its evaluation on every layout']
    hf = repo.func(f'{MV}._handleFunctionDef')
    cfg = CFG(hf)
    want = _language_kinds()
    # ------------------------------------------------------------------ R14.1
    calls = [c for c in calls_in(hf) if call_name(c) == 'add_arg' and len(c.args) >= 3]
    if len(calls) < 5:
        raise AnalysisError(f'_handleFunctionDef: {len(calls)} add_arg(...) calls found (5 confirmed by hand)')
    local_src: Dict[str, str] = {}
    for n in hf.walk():
        if isinstance(n, (ast.Assign, ast.AnnAssign)):
            tg = n.targets[0] if isinstance(n, ast.Assign) else n.target
            if isinstance(tg, ast.Name) and n.value is not None:
                local_src[tg.id] = norm(n.value)
    seen_fields: List[Tuple[str, ast.Call]] = []
    for c in calls:
        kind = (dotted(c.args[1]) or '').split('.')[-1]
        fld = None
        loop = next((p for p in parents(c) if isinstance(p, ast.For)), None)
        if loop is not None:
            it0 = loop.iter
            if isinstance(it0, ast.Call) and call_name(it0) in ('enumerate', 'zip') and it0.args:
                it0 = it0.args[0]
            it = norm(it0)
            for name, src in local_src.items():
                if it == name and 'posonlyargs' in src:
                    it = 'posonlyargs'
            for k in ('posonlyargs', 'kwonlyargs'):
                if k in it:
                    fld = k
            if fld is None and '.args.args' in it:
                fld = 'args'
        else:
            a0 = norm(c.args[0])
            for k in ('vararg', 'kwarg'):
                if local_src.get(a0.split('.')[0], '').endswith('.' + k):
                    fld = k
        if fld is None:
            chk.error(f'R14.1: cannot tell which ast.arguments field feeds {norm(c)[:50]}')
            continue
        seen_fields.append((fld, c))
        chk.ob('R14.1', f'{MV}._handleFunctionDef :: {fld} -> {kind}', want[fld] == kind,
               f'as in the language ({want[fld]})' if want[fld] == kind else
               f'parameters from ast.arguments.{fld} are added as {kind}; Python makes them {want[fld]}', repo.loc(hf.mod, c))
        if fld in ('vararg', 'kwarg'):
            d = c.args[2]
            ok = isinstance(d, ast.Constant) and d.value is None
            chk.ob('R14.1', f'{MV}._handleFunctionDef :: {fld} has no default', ok, 'default None' if ok else f'*/** parameter given default {norm(d)}', repo.loc(hf.mod, c))
        if fld == 'kwonlyargs':
            it = norm(loop.iter) if loop is not None else ''
            ok = 'zip(' in it and 'kwonlyargs' in it and 'kw_defaults' in it and isinstance(c.args[2], ast.Name) and \
                isinstance(loop.target, ast.Tuple) and norm(loop.target.elts[1]) == c.args[2].id  # type: ignore[union-attr]
            chk.ob('R14.1', f'{MV}._handleFunctionDef :: keyword-only defaults come from kw_defaults', ok, it if ok else
                   f'keyword-only parameters are not zipped with kw_defaults ({it})', repo.loc(hf.mod, c))
    order = ['posonlyargs', 'args', 'vararg', 'kwonlyargs', 'kwarg']
    got = [f for f, _ in seen_fields]
    ok = got == order and all(cfg.before(seen_fields[i][1], seen_fields[i + 1][1]) or
                              id(cfg.stmt_of(seen_fields[i][1])) not in cfg.reachable(cfg.stmt_of(seen_fields[i + 1][1]), no_exc=True)
                              for i in range(len(seen_fields) - 1))
    chk.ob('R14.1', f'{MV}._handleFunctionDef :: parameters added in the order of the language', ok,
           ' < '.join(got) if ok else f'order {got}, expected {order}', hf.loc)
    aa = repo.funcs.get(f'{hf.qn}.add_arg')
    if aa is None:
        raise AnalysisError('add_arg helper not found')
    pc = [c for c in calls_in(aa) if call_name(c) == 'Parameter']
    ps = [p.arg for p in aa.params()]
    ok = len(pc) == 1 and norm(pc[0].args[0]) == ps[0] and norm(pc[0].args[1]) == ps[1] and \
        any(call_name(c) == 'append' and c.args and c.args[0] is pc[0] for c in calls_in(aa))
    chk.ob('R14.1', f'{MV}._handleFunctionDef.add_arg :: one Parameter(name, kind, ...) appended per call', ok, norm(pc[0])[:80] if pc else 'no Parameter(...)', aa.loc)
    # the annotation collector covers the same five parameter lists
    gaa = repo.funcs.get(f'{MV}._annotations_from_function._get_all_args')
    if gaa is None:
        chk.error('R14.1: _annotations_from_function._get_all_args not found')
    else:
        cfgg = CFG(gaa)
        alias = {t.id: n.value.attr for n in gaa.walk() if isinstance(n, ast.Assign) and isinstance(n.value, ast.Attribute) for t in n.targets if isinstance(t, ast.Name)}
        for fld in order:
            ys = [y for y in gaa.walk() if isinstance(y, (ast.Yield, ast.YieldFrom)) and y.value is not None and
                  ((isinstance(y.value, ast.Attribute) and y.value.attr == fld) or (isinstance(y.value, ast.Name) and alias.get(y.value.id) == fld))]
            # ... whatever the other parameter lists hold: the yield depends on no test about another field (a keyword-only parameter after a bare `*`
            # is collected although there is no *args)
            foreign = []
            for y in ys:
                for t, _pol in cfgg.dominating_tests(cfgg.stmt_of(y)):
                    about = {x.attr for x in ast.walk(t) if isinstance(x, ast.Attribute)} | {alias.get(x.id) for x in ast.walk(t) if isinstance(x, ast.Name)}
                    if fld not in about:
                        foreign.append(t)
            ok = bool(ys) and not foreign
            chk.ob('R14.1', f'{MV}._annotations_from_function :: collects annotations of {fld}', ok,
                   'yielded, under no condition about another parameter list' if ok else
                   (f'annotations of the {fld} parameters are not collected: they are shown without their annotation' if not ys else
                    f'the {fld} parameters are only collected when `{norm(foreign[0])}` holds: `def f(x, *, a: int = 1)` is shown as `(x, *, a=1)` - the '
                    'annotation of a keyword-only parameter after a bare `*` is lost'), gaa.loc)
    chk.require('R14.1', 15)

    # ------------------------------------------------------------------ R14.2 provenance
    scope = [f for f in repo.funcs.values() if f.mod.name in ('pydoctor.astbuilder', 'pydoctor.extensions.attrs')]
    clean_params: Set[Tuple[str, str]] = set()

    def clean(e: Optional[ast.AST], f: Func, depth: int = 0) -> bool:
        if e is None or depth > 6:
            return e is None
        if isinstance(e, ast.Constant) and e.value is None:
            return True
        if isinstance(e, ast.Call):
            if call_name(e) in CLEANERS:
                return True
            if call_name(e) == 'cast' and len(e.args) == 2:
                return clean(e.args[1], f, depth + 1)
            # `mapping.get(name)` reads an entry of the mapping (or None)
            if call_name(e) == 'get' and isinstance(e.func, ast.Attribute) and isinstance(e.func.value, ast.Name) and 1 <= len(e.args) <= 2 and \
                    (len(e.args) == 1 or clean(e.args[1], f, depth + 1)):
                return clean(e.func.value, f, depth + 1)
            # a helper of the same module all of whose returns are clean
            cands = [g for g in scope if g.name == call_name(e)]
            if cands and all(any(isinstance(n, ast.Return) for n in g.walk()) and
                             all(clean(n.value, g, depth + 1) for n in g.walk() if isinstance(n, ast.Return)) for g in cands):
                return True
            return False
        if isinstance(e, ast.IfExp):
            return clean(e.body, f, depth + 1) and clean(e.orelse, f, depth + 1)
        if isinstance(e, ast.Name):
            g: Optional[Func] = f
            while g is not None:
                if e.id in [p.arg for p in g.params()]:
                    return (g.qn, e.id) in clean_params
                vals = [n.value for n in g.walk() if isinstance(n, (ast.Assign, ast.AnnAssign)) and n.value is not None and
                        any(isinstance(t, ast.Name) and t.id == e.id for t in (n.targets if isinstance(n, ast.Assign) else [n.target]))]
                # a mapping filled entry by entry: `m = {}` ... `m[k] = v`
                stores = [n.value for n in g.walk() if isinstance(n, ast.Assign) and any(isinstance(t, ast.Subscript) and isinstance(t.value, ast.Name) and t.value.id == e.id
                                                                                       for t in n.targets)]
                if vals:
                    return all(clean(v, g, depth + 1) for v in vals) and all(clean(v, g, depth + 1) for v in stores)
                g = g.outer
            return False
        if isinstance(e, ast.Subscript) and isinstance(e.value, ast.Name):
            # annotations[name] of the mapping built by _annotations_from_function
            return clean(e.value, f, depth + 1)
        if isinstance(e, ast.DictComp):
            return clean(e.value, f, depth + 1)
        if isinstance(e, ast.Dict) and not e.keys:
            return True          # the empty mapping: its entries are judged at the stores
        return False
    for _ in range(6):
        before = len(clean_params)
        for g in scope:
            for p in g.params():
                if 'annot' not in p.arg.lower() or (g.qn, p.arg) in clean_params:
                    continue
                sites = []
                for h in scope:
                    for c in calls_in(h, lambda c: call_name(c) == g.name):
                        sites.append((h, c))
                if not sites:
                    continue
                names = [x.arg for x in g.params()]
                idx = names.index(p.arg)
                off = 1 if (g.cls is not None and g.outer is None and not g.is_static) else 0
                ok_all = True
                for h, c in sites:
                    arg = next((k.value for k in c.keywords if k.arg == p.arg), None)
                    if arg is None:
                        pos = idx - off
                        arg = c.args[pos] if 0 <= pos < len(c.args) else None
                        if arg is None:
                            # default value
                            continue
                    if not clean(arg, h):
                        ok_all = False
                if ok_all:
                    clean_params.add((g.qn, p.arg))
        if len(clean_params) == before:
            break
    chk.stats['clean_annotation_parameters'] = sorted(f'{q}({p})' for q, p in clean_params)
    ws = writers(repo, 'annotation', ['pydoctor.model.Documentable'], unknown_counts=False, skip_modules=('pydoctor.sphinx_ext',))
    ws += writers(repo, 'annotations', ['pydoctor.model.Documentable'], unknown_counts=False, skip_modules=('pydoctor.sphinx_ext',))
    for w in ws:
        v = w.node.value if isinstance(w.node, (ast.Assign, ast.AnnAssign)) else None
        if w.func.qn == 'pydoctor.model.System._introspectThing':
            chk.ob('R14.2', f'{w.func.qn} :: {w.attr} (introspected C module)', True, 'parameter names only, no annotation expressions', w.loc)
            continue
        ok = clean(v, w.func)
        chk.ob('R14.2', f'{w.func.qn} :: {w.attr} <- {norm(v)[:40] if v is not None else "?"}', ok,
               'None / unstring_annotation(...) / infer_type(...) on every def-use path' if ok else
               f'`{norm(w.node)[:60]}` stores an annotation that did not pass unstring_annotation(): a string annotation would be displayed quoted',
               w.loc)
    # annotations of the signature come from the cleaned mapping
    annv = {k for k, v in local_src.items() if v == 'self._annotations_from_function(node)'}
    akw = next((k.value for c in pc for k in c.keywords if k.arg == 'annotation'), None)
    av = [n for n in aa.walk() if isinstance(n, (ast.Assign, ast.AnnAssign)) and n.value is not None and isinstance(akw, ast.Name) and
          any(isinstance(t, ast.Name) and t.id == akw.id for t in (n.targets if isinstance(n, ast.Assign) else [n.target]))]
    # every formatter handed to the signature wraps an entry of the cleaned mapping: `annotations[name]`, or a local read from it (`node = annotations.get(name)`)
    from ..util import single_value

    def from_mapping(x: ast.AST) -> bool:
        if isinstance(x, ast.Call) and call_name(x) == 'cast' and len(x.args) == 2:
            return from_mapping(x.args[1])
        if isinstance(x, ast.Subscript) and isinstance(x.value, ast.Name) and x.value.id in annv:
            return True
        if isinstance(x, ast.Call) and call_name(x) == 'get' and isinstance(x.func, ast.Attribute) and isinstance(x.func.value, ast.Name) and x.func.value.id in annv:
            return True
        if isinstance(x, ast.Name):
            v_ = single_value(aa, x.id)
            return v_ is not None and from_mapping(v_)
        return False
    fmts_a = [c for n in av for c in ast.walk(n.value) if isinstance(c, ast.Call) and call_name(c) == '_AnnotationValueFormatter']
    ok = bool(av) and bool(annv) and bool(fmts_a) and all(c.args and from_mapping(c.args[0]) for c in fmts_a) and \
        all(any(c in fmts_a for c in ast.walk(n.value)) or norm(n.value).endswith('.empty') for n in av)
    chk.ob('R14.2', f'{MV}._handleFunctionDef.add_arg :: signature annotations come from _annotations_from_function', ok,
           'annotations[name] of the unstringed mapping' if ok else 'signature annotations bypass the unstringed mapping', aa.loc)
    chk.require('R14.2', 7)

    # ------------------------------------------------------------------ R14.3
    sg = [c for c in calls_in(hf) if call_name(c) == 'Signature' and c.args]
    rakw = next((k.value for c in sg for k in c.keywords if k.arg == 'return_annotation'), None)
    ra = [n for n in hf.walk() if isinstance(n, (ast.Assign, ast.AnnAssign)) and n.value is not None and isinstance(rakw, ast.Name) and
          any(isinstance(t, ast.Name) and t.id == rakw.id for t in (n.targets if isinstance(n, ast.Assign) else [n.target]))]
    # in the scenario "the return annotation is the literal None" no formatter reaches the signature, and the empty marker does - whichever way the
    # condition is spelled (a conditional expression, or a default followed by an `if`)
    from ..util import excluded_by

    def none_literal(e: ast.AST) -> Optional[bool]:
        if isinstance(e, ast.Call) and call_name(e) == 'is_none_literal':
            return True
        if isinstance(e, ast.Compare) and len(e.ops) == 1 and isinstance(e.ops[0], ast.Is) and norm(e.comparators[0]) == 'None':
            return False          # the annotation exists (it is the literal None)
        return None
    sites_r = []
    for n in ra:
        for c in [c for c in ast.walk(n.value) if isinstance(c, ast.Call) and call_name(c) == '_AnnotationValueFormatter']:
            facts = list(cfg.scenario_facts(n))
            x_: ast.AST = c
            for p_ in parents(c):
                if isinstance(p_, ast.IfExp):
                    facts.append((p_.test, x_ is p_.body or any(y is x_ for y in ast.walk(p_.body))))
                if p_ is n:
                    break
                x_ = p_
            sites_r.append(excluded_by(facts, none_literal))
    ok = bool(ra) and bool(sites_r) and all(sites_r) and any('Parameter.empty' in norm(n.value) for n in ra)
    chk.ob('R14.3', f'{MV}._handleFunctionDef :: `-> None` is omitted', ok, norm(ra[0].value)[:100] if ra else 'return_annotation not found', hf.loc)
    plist = {norm(c.func.value) for c in calls_in(aa) if call_name(c) == 'append' and isinstance(c.func, ast.Attribute)}
    ok = bool(sg) and norm(sg[0].args[0]) in plist and rakw is not None
    chk.ob('R14.3', f'{MV}._handleFunctionDef :: Signature(parameters, return_annotation=...)', ok, norm(sg[0])[:80] if sg else '?', hf.loc)

    # ------------------------------------------------------------------ R14.4
    ov = [c for c in calls_in(hf) if call_name(c) == 'FunctionOverload']
    fsig = [n for n in hf.walk() if isinstance(n, ast.Assign) and any(isinstance(t, ast.Attribute) and t.attr == 'signature' for t in n.targets)
            and not (isinstance(n.value, ast.Constant) and n.value.value is None)]
    sigv = {t.id for n in hf.walk() if isinstance(n, ast.Assign) and isinstance(n.value, ast.Call) and call_name(n.value) == 'Signature'
            for t in n.targets if isinstance(t, ast.Name)}
    ok = len(ov) == 1 and len(fsig) == 1 and bool(sigv)
    if ok:
        tests_o = cfg.dominating_tests(cfg.stmt_of(ov[0]))
        tests_s = cfg.dominating_tests(fsig[0])
        flags_o = {norm(t) for t, pol in tests_o if pol and isinstance(t, ast.Name)}
        flags_s = {norm(t) for t, pol in tests_s if (not pol) and isinstance(t, ast.Name)}
        prim = next((norm(k.value) for k in ov[0].keywords if k.arg == 'primary'), None)
        ok = bool(flags_o & flags_s) and \
            any(k.arg == 'signature' and norm(k.value) in sigv for k in ov[0].keywords) and norm(fsig[0].value) in sigv and \
            prim is not None and norm(fsig[0].targets[0].value) == prim  # type: ignore[attr-defined]
    chk.ob('R14.4', f'{MV}._handleFunctionDef :: the signature built from this node goes to the overload XOR the function', ok,
           'if is_overload_func: overloads.append(FunctionOverload(signature=signature)) else: func.signature = signature' if ok else
           'an overload does not keep its own signature (or overwrites the primary one)', hf.loc)
    # the test that raises the overload flag: the innermost comparison dominating `<flag> = True`
    oflags = (flags_o & flags_s) if ok else set()
    from ..util import tuple_helpers
    ovt = []
    for fn_, ren_ in [(hf, {})] + tuple_helpers(repo, hf):
        cfg_ = cfg if fn_ is hf else CFG(fn_)
        for a in [n for n in fn_.walk() if isinstance(n, ast.Assign) and isinstance(n.value, ast.Constant) and n.value.value is True and
                  any(isinstance(t, ast.Name) and ren_.get(t.id, t.id) in oflags for t in n.targets)]:
            for t, pol in cfg_.dominating_tests(a):
                if pol and isinstance(t, ast.Compare) and any(isinstance(c, ast.Call) and call_name(c) == 'expandName' for c in ast.walk(t.left)):
                    ovt.append(t)
    if not ovt:
        chk.error('R14.4: the test recognising @overload was not found')
    for t in ovt:
        # (the two names may be hoisted into a module constant)
        cmp_nodes = [x for cmp_ in t.comparators for x in ([hf.mod.assigns[cmp_.id]] if isinstance(cmp_, ast.Name) and cmp_.id in hf.mod.assigns else [cmp_])]
        lits = {c.value for cmp_ in cmp_nodes for c in ast.walk(cmp_) if isinstance(c, ast.Constant) and isinstance(c.value, str)}
        want = {'typing.overload', 'typing_extensions.overload'}
        okn = want <= lits and isinstance(t.ops[0], (ast.In, ast.Eq))
        chk.ob('R14.4', f'{MV}._handleFunctionDef :: both spellings of @overload are recognised', okn,
               f'expanded decorator name in {sorted(lits)}' if okn else
               f'`{norm(t)[:90]}` no longer recognises {sorted(want - lits)}: such overloads become plain redefinitions, only the implementation '
               'signature is shown', repo.loc(hf.mod, t))
        ex = [c for c in ast.walk(t.left) if isinstance(c, ast.Call) and call_name(c) == 'expandName']
        arg = ex[0].args[0] if ex and ex[0].args else None
        full = isinstance(arg, ast.Call) and call_name(arg) == 'join' and arg.args and isinstance(arg.args[0], ast.Name)
        chk.ob('R14.4', f'{MV}._handleFunctionDef :: @overload recognised through the full dotted decorator name', bool(full),
               f'expandName({norm(arg)})' if full else
               f'the decorator is expanded from `{norm(arg) if arg is not None else "?"}` only: `@typing.overload` / `@t.overload` are not recognised, '
               'the overloads become duplicate definitions and only one signature is shown', repo.loc(hf.mod, t))
    fo = repo.func('pydoctor.templatewriter.pages.format_overloads')
    lps = [n for n in fo.walk() if isinstance(n, ast.For) and norm(n.iter).endswith('.overloads') and isinstance(n.target, ast.Name)]
    ok = bool(lps) and any(call_name(c) == 'format_function_def' and any(norm(a) == lps[0].target.id for a in c.args) for c in calls_in(fo))
    chk.ob('R14.4', 'pages.format_overloads :: each overload is rendered with its own object', ok, 'format_function_def(name, is_async, overload)', fo.loc)
    ffd = repo.func('pydoctor.templatewriter.pages.format_function_def')
    ok = any(call_name(c) == 'format_signature' and c.args and norm(c.args[0]) == [p.arg for p in ffd.params()][2] for c in calls_in(ffd))
    chk.ob('R14.4', 'pages.format_function_def :: renders the signature of the object it was given', ok, 'format_signature(func)', ffd.loc)

    # ------------------------------------------------------------------ R14.6
    # names inside defaults / annotations are decorated with links; the decoration must not change the text: every tag the link helpers
    # build shows the caller's label (whatever the target's visibility or location)
    lk = repo.mod('pydoctor.linker')
    CONTENT_POS = {'taglink': 2, 'intersphinx_link': 0, 'link_to': 1, 'link_xref': 1}
    n_lab = 0
    for f in sorted((f for f in repo.funcs.values() if f.mod is lk), key=lambda f: f.qn):
        ps = [p.arg for p in f.params()]
        if 'label' not in ps:
            continue
        for c in calls_in(f):
            nm = call_name(c)
            if isinstance(c.func, ast.Attribute) and dotted(c.func.value) == 'tags':
                content = c.args[0] if c.args else None
            elif nm in CONTENT_POS:
                pos = CONTENT_POS[nm]
                content = next((k.value for k in c.keywords if k.arg == 'label'), c.args[pos] if len(c.args) > pos else None)
                if content is None and nm == 'taglink':
                    continue   # label omitted on purpose: the callee falls back to the full name
            else:
                continue
            n_lab += 1

            def carries(e: Optional[ast.expr], depth: int = 0, f: Func = f) -> bool:
                if e is None or depth > 4:
                    return False
                if isinstance(e, ast.Name):
                    if e.id == 'label':
                        return True
                    vals = [n.value for n in f.walk() if isinstance(n, (ast.Assign, ast.AnnAssign)) and n.value is not None and
                            any(isinstance(t, ast.Name) and t.id == e.id for t in (n.targets if isinstance(n, ast.Assign) else [n.target]))]
                    return bool(vals) and all(carries(v, depth + 1) for v in vals)
                if isinstance(e, ast.Call):
                    if isinstance(e.func, ast.Attribute) and dotted(e.func.value) == 'tags':
                        return carries(e.args[0] if e.args else None, depth + 1)
                    if call_name(e) in CONTENT_POS:
                        pos_ = CONTENT_POS[call_name(e)]
                        return carries(next((k.value for k in e.keywords if k.arg == 'label'), e.args[pos_] if len(e.args) > pos_ else None), depth + 1)
                return False
            okl = carries(content)
            chk.ob('R14.6', f'{f.qn} :: {norm(c.func)}(...) shows the caller\'s label', okl,
                   f'{norm(c)[:70]}' if okl else
                   f'`{norm(c)[:80]}` displays `{norm(content) if content is not None else "nothing"}` instead of the label it was given: a name in a '
                   'default value or annotation is shown differently from what was written', repo.loc(f.mod, c))
    if n_lab < 10:
        raise AnalysisError(f'R14.6: only {n_lab} label-carrying tag constructions found in pydoctor.linker (13 confirmed)')
    chk.require('R14.6', 10)

    # ------------------------------------------------------------------ R14.5
    posv = {k for k, v in local_src.items() if 'posonlyargs' in v and 'len(' not in v}
    defv = {k for k, v in local_src.items() if v == 'node.args.defaults'}
    numv = {k: v for k, v in local_src.items() if v.count('len(') == 2 and '+' in v}
    offv = {k: v for k, v in local_src.items() if ' - len(' in v and any(v.startswith(n + ' ') for n in numv)}
    npa = next(iter(numv.values()), '')
    off = next(iter(offv.values()), '')
    ok1 = any(f'len({p})' in npa for p in posv) and 'len(node.args.args)' in npa
    ok2 = bool(offv) and any(off == f'{n} - len({d})' for n in numv for d in defv)
    chk.ob('R14.5', f'{MV}._handleFunctionDef :: defaults belong to the last positional parameters', ok1 and ok2,
           f'num_pos_args = {npa}; default_offset = {off}' if ok1 and ok2 else
           f'offset formula changed (num_pos_args = {npa}; default_offset = {off}): defaults would be attached to the wrong parameters', hf.loc)
    gd = repo.funcs.get(f'{hf.qn}.get_default')
    if gd is None:
        chk.error('R14.5: get_default helper not found')
    else:
        txt = ' ; '.join(norm(s) for s in gd.node.body if not isinstance(s, ast.Assert))
        ip = gd.params()[0].arg
        # `index -= offset ; return None if index < 0 else defaults[index]`, or the same through a local `j = index - offset`
        shifted: Set[str] = set()
        for n_ in gd.walk():
            if isinstance(n_, ast.AugAssign) and isinstance(n_.op, ast.Sub) and isinstance(n_.target, ast.Name) and n_.target.id == ip and norm(n_.value) in offv:
                shifted.add(ip)
            if isinstance(n_, ast.Assign) and isinstance(n_.value, ast.BinOp) and isinstance(n_.value.op, ast.Sub) and norm(n_.value.left) == ip and \
                    norm(n_.value.right) in offv:
                shifted |= {t.id for t in n_.targets if isinstance(t, ast.Name)}
        ok = False
        for r_ in [x for x in gd.walk() if isinstance(x, ast.Return) and isinstance(x.value, ast.IfExp)]:
            ie = r_.value
            assert isinstance(ie, ast.IfExp)
            t_ = ie.test
            none_arm, val_arm = (ie.body, ie.orelse)
            if isinstance(t_, ast.Compare) and len(t_.ops) == 1 and isinstance(t_.ops[0], ast.GtE):
                none_arm, val_arm = ie.orelse, ie.body
            if isinstance(t_, ast.Compare) and len(t_.ops) == 1 and isinstance(t_.ops[0], (ast.Lt, ast.GtE)) and norm(t_.comparators[0]) == '0' and \
                    norm(t_.left) in shifted and isinstance(none_arm, ast.Constant) and none_arm.value is None and isinstance(val_arm, ast.Subscript) and \
                    norm(val_arm.value) in defv and norm(val_arm.slice) == norm(t_.left):
                ok = True
        # the statement form: `if j >= 0: return defaults[j]` ... `return None` - every read of defaults[j] is dominated by j >= 0
        sub_rets = [x for x in gd.walk() if isinstance(x, ast.Return) and isinstance(x.value, ast.Subscript) and norm(x.value.value) in defv]
        if not ok and sub_rets:
            cg_gd = CFG(gd)
            def _nonneg(r0: ast.Return) -> bool:
                ix = norm(r0.value.slice)   # type: ignore[union-attr]
                if ix not in shifted:
                    return False
                for t0, pol0 in cg_gd.dominating_tests(r0):
                    if isinstance(t0, ast.Compare) and len(t0.ops) == 1 and norm(t0.left) == ix and norm(t0.comparators[0]) == '0' and \
                            ((isinstance(t0.ops[0], ast.GtE) and pol0) or (isinstance(t0.ops[0], ast.Lt) and not pol0)):
                        return True
                return False
            none_ret = any(isinstance(x, ast.Return) and (x.value is None or (isinstance(x.value, ast.Constant) and x.value.value is None)) for x in gd.walk())
            ok = all(_nonneg(r0) for r0 in sub_rets) and none_ret
        chk.ob('R14.5', f'{MV}._handleFunctionDef.get_default :: shifted index into defaults, None before the offset', ok, txt[:120], gd.loc)
    loops = [n for n in hf.walk() if isinstance(n, ast.For) and 'enumerate(' in norm(n.iter)]
    ok = any('.args.args' in norm(l.iter) and any(f'start=len({p})' in norm(l.iter).replace(' ', '') for p in posv) for l in loops) and \
        any(any(norm(l.iter) == f'enumerate({p})' for p in posv) for l in loops)
    chk.ob('R14.5', f'{MV}._handleFunctionDef :: positional parameters are numbered across both lists', ok,
           'enumerate(posonlyargs) ; enumerate(args, start=len(posonlyargs))' if ok else 'index of the regular arguments no longer continues after the positional-only ones', hf.loc)
    for c in calls:
        loop = next((p for p in parents(c) if isinstance(p, ast.For)), None)
        if loop is not None and 'enumerate(' in norm(loop.iter):
            d = c.args[2]
            ok = isinstance(d, ast.Call) and call_name(d) == 'get_default' and isinstance(loop.target, ast.Tuple) and norm(d.args[0]) == norm(loop.target.elts[0])
            chk.ob('R14.5', f'{MV}._handleFunctionDef :: {norm(c)[:50]} uses the default of its own index', ok, norm(d), repo.loc(hf.mod, c))
    chk.require('R14.5', 5)
