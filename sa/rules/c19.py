"""
C19 - visitor extensions see a balanced, ordered walk whatever the main visitor prunes.
  R19.1 typestate over the pruning exceptions in Visitor.walkabout: whatever visit() raises, depart() is reached in the same activation;
        a recorded SkipSiblings always leaves walk() / walkabout() as an exception
  R19.2 Visitor.visit / Visitor.depart: pruning is delayed past the extensions; documented order of the four timings
  R19.3 scope-stack pairing in the AST builder
  R19.4 Visitor.visit is only invoked by the walkers (which pair it with depart)
Does not decide: third-party extensions raising pruning exceptions themselves; the skip-flag semantics of each pruning class.
"""
from __future__ import annotations

import ast
import re
from typing import Dict, List, Optional, Set, Tuple

from ..core import AnalysisError, Cls, Func, Repo, dotted, norm, parents
from ..cfg import CFG
from ..report import Check
from ..util import call_name, calls_in, enclosing_trys, handler_names

VIS = 'pydoctor.visitor.Visitor'
BASE = '_TreePruningException'

EXPECTED_ORDER = {
    # documented in visitor.When: BEFORE / OUTTER run before the main visit, AFTER / INNER after it;
    # on departure INNER leaves before the main visitor and OUTTER after it.
    'visit': ({'before_visit', 'outter_visit'}, {'after_visit', 'inner_visit'}),
    'depart': ({'before_visit', 'inner_visit'}, {'after_visit', 'outter_visit'}),
}


def _pruning_classes(repo: Repo) -> Dict[str, Cls]:
    vis = repo.cls(VIS)
    base = vis.nested.get(BASE)
    if base is None:
        raise AnalysisError(f'{VIS}.{BASE} not found')
    out = {}
    for name, c in vis.nested.items():
        if c is not base and repo.is_subclass(c, base.qn):
            out[name] = c
    if len(out) < 4:
        raise AnalysisError(f'only {len(out)} pruning exception classes found in {VIS} (4 confirmed by hand)')
    return out


def _handler_classes(repo: Repo, h: ast.ExceptHandler) -> Optional[Set[str]]:
    """Names (last component) of the classes a handler catches; None = catches everything."""
    if h.type is None:
        return None
    ts = h.type.elts if isinstance(h.type, ast.Tuple) else [h.type]
    out = set()
    for t in ts:
        d = dotted(t) or ''
        out.add(d.split('.')[-1])
    if out & {'Exception', 'BaseException'}:
        return None
    return out


def _catches(repo: Repo, h: ast.ExceptHandler, exc: str) -> bool:
    hc = _handler_classes(repo, h)
    return hc is None or exc in hc or BASE in hc


def _exc_flow(f: Func, stmt: ast.AST, exc: str, repo: Repo) -> Optional[ast.ExceptHandler]:
    """Handler of f that receives exception class `exc` raised by `stmt`, or None when it leaves f."""
    for t in enclosing_trys(stmt, f.node):
        for h in t.handlers:
            if _catches(repo, h, exc):
                return h
    return None


def run(repo: Repo, chk: Check, thorough: bool = False) -> None:
    chk.explanation = ('typestate rule over the pruning exception classes on the statement CFG of Visitor.walkabout (R19.1); handler '
                       'subsumption, post-dominance and order tables of Visitor.visit/depart (R19.2); push/pop pairing, '
                       'raise-before-push and who-may-call rules for the AST builder scope stack (R19.3)')
    chk.assumptions = ['extensions bundled with pydoctor are checked not to raise pruning exceptions; third-party ones are not analysed',
                       'which children/departure each pruning class suppresses (the skip flags) is not decided, only that depart() is reached']
    pruning = _pruning_classes(repo)
    chk.stats['pruning_classes'] = sorted(pruning)

    # ------------------------------------------------------------------ R19.1
    wa = repo.func(f'{VIS}.walkabout')
    cfg = CFG(wa)
    visit_calls = [c for c in calls_in(wa) if call_name(c) == 'visit' and dotted(c.func) == 'self.visit']
    depart_calls = [c for c in calls_in(wa) if call_name(c) == 'depart' and dotted(c.func) == 'self.depart']
    if len(visit_calls) != 1 or not depart_calls:
        raise AnalysisError('Visitor.walkabout: expected one self.visit(...) call and a self.depart(...) call')
    vstmt = cfg.stmt_of(visit_calls[0])
    dstmts = [cfg.stmt_of(c) for c in depart_calls]
    for name in sorted(pruning):
        h = _exc_flow(wa, vstmt, name, repo)
        key = f'{VIS}.walkabout :: {name} raised by visit()'
        if h is None:
            chk.ob('R19.1', key, False,
                   f'{name} raised by self.visit(ob) is caught by no handler of this activation: it leaves walkabout without '
                   f'self.depart(ob): extensions that entered the node never leave it', repo.loc(wa.mod, visit_calls[0]))
            continue
        ok = cfg.must_pass(h, cfg.EXIT, dstmts, no_exc=True) and cfg.must_pass(h, cfg.RAISE, dstmts, no_exc=False) \
            if True else False
        # from the handler, every normal path to the end (and every explicit raise) goes through depart
        ok = cfg.must_pass(h, cfg.EXIT, dstmts, no_exc=True)
        raises_after = [n for n in wa.walk() if isinstance(n, ast.Raise) and id(n) in cfg.reachable(h, no_exc=True)]
        ok = ok and all(cfg.must_pass(h, r, dstmts, no_exc=True) for r in raises_after)
        chk.ob('R19.1', key, ok,
               f'caught by `except {", ".join(handler_names(h))}` (line {h.lineno}); every path from there to the end of the activation '
               'passes self.depart(ob, ...)' if ok else
               f'caught at line {h.lineno} but a path from the handler to the end of walkabout bypasses self.depart(ob)',
               f'{wa.mod.relpath}:{h.lineno}')
    # normal path: visit returns -> depart reached
    ok = cfg.must_pass(vstmt, cfg.EXIT, dstmts, no_exc=True)
    chk.ob('R19.1', f'{VIS}.walkabout :: no pruning', ok, 'depart is on every normal path after visit' if ok else
           'a normal path from visit() to the end bypasses depart()', wa.loc)
    # SkipSiblings must still reach the parent's child loop: re-raised after depart, and the child loop catches it
    hs = _exc_flow(wa, vstmt, 'SkipSiblings', repo)
    if hs is not None:
        after = cfg.reachable(hs, no_exc=True)
        rer = [n for n in wa.walk() if isinstance(n, ast.Raise) and id(n) in after]
        ok = bool(rer) and all(any(cfg.dominates(d, r, no_exc=True) for d in dstmts) for r in rer)
        chk.ob('R19.1', f'{VIS}.walkabout :: SkipSiblings propagates to the siblings loop after depart', ok,
               'recorded, node finished (children + depart), then re-raised' if ok else
               'SkipSiblings raised by visit() is swallowed (siblings would still be visited) or re-raised before depart', wa.loc)
    def children_steps(wf: Func, cw_: CFG, wname_: str) -> List[Tuple[ast.AST, bool]]:
        """The statements of walker wf that walk the children, each with "a SkipSiblings raised by a child is caught around the loop": the loop over the
        children calling wname_ itself, or the call of a private helper of the class that is handed the bound walker (`self._walk_children(ob, self.walk)`)
        and loops calling it."""
        out: List[Tuple[ast.AST, bool]] = []
        for n in wf.walk():
            if isinstance(n, ast.For) and any(call_name(c) == wname_ for st in n.body for c in ast.walk(st) if isinstance(c, ast.Call)):
                out.append((n, _exc_flow(wf, n, 'SkipSiblings', repo) is not None))
        for c in calls_in(wf):
            g = next((h_ for h_ in repo.funcs.values() if h_.cls is wf.cls and h_ is not wf and h_.name == call_name(c) and h_.name.startswith('_')), None)
            if g is None or dotted(c.func) != f'self.{g.name}':
                continue
            # ... or of a helper that walks the children with this walker itself (`self._walkabout_children(ob)`)
            for n in g.walk():
                if isinstance(n, ast.For) and any(call_name(c2) == wname_ and dotted(c2.func) == f'self.{wname_}' for st in n.body for c2 in ast.walk(st) if isinstance(c2, ast.Call)):
                    st_c = cw_.stmt_of(c)
                    out.append((st_c, _exc_flow(g, n, 'SkipSiblings', repo) is not None or _exc_flow(wf, st_c, 'SkipSiblings', repo) is not None))
            gpar = [p_.arg for p_ in g.params() if p_.arg != 'self']
            for i_, a_ in enumerate(c.args):
                if dotted(a_) == f'self.{wname_}' and i_ < len(gpar):
                    for n in g.walk():
                        if isinstance(n, ast.For) and any(call_name(c2) == gpar[i_] for st in n.body for c2 in ast.walk(st) if isinstance(c2, ast.Call)):
                            st_c = cw_.stmt_of(c)
                            out.append((st_c, _exc_flow(g, n, 'SkipSiblings', repo) is not None or _exc_flow(wf, st_c, 'SkipSiblings', repo) is not None))
        return out
    steps_wa = children_steps(wa, cfg, 'walkabout')
    ok = bool(steps_wa) and all(caught for _, caught in steps_wa)
    chk.ob('R19.1', f'{VIS}.walkabout :: children loop stops on SkipSiblings', ok,
           'the loop over get_children is inside try/except SkipSiblings' if ok else 'SkipSiblings from a child is not caught around the children loop',
           wa.loc)
    # second dimension of the typestate: are the CHILDREN walked?  expected: SkipNode / SkipChildren - no; SkipDeparture / SkipSiblings - yes
    # (SkipDeparture only suppresses the node's own depart_*).  Decided on the CFG with the boolean flags a handler sets propagated along.
    EXPECT_CHILDREN = {'SkipNode': False, 'SkipChildren': False, 'SkipDeparture': True, 'SkipSiblings': True}

    def children_reached(fn: Func, cf: CFG, handler: ast.ExceptHandler, loop: ast.AST) -> bool:
        flags = {t.id: n.value.value for st in handler.body for n in ast.walk(st) if isinstance(n, ast.Assign) and isinstance(n.value, ast.Constant) and
                 isinstance(n.value.value, bool) for t in n.targets if isinstance(t, ast.Name)}

        def known(e: ast.AST) -> Optional[bool]:
            if isinstance(e, ast.Name) and e.id in flags:
                return flags[e.id]
            if isinstance(e, ast.UnaryOp) and isinstance(e.op, ast.Not):
                k = known(e.operand)
                return None if k is None else (not k)
            return None
        dead = [(nid, id(t), k) for nid, edges in cf.succ.items() for (t, l, k) in edges if l is not None and known(l[0]) is not None and known(l[0]) != l[1]]
        return id(loop) in cf.reachable(handler, avoid_edges=dead, no_exc=True)
    for wname in ('walkabout', 'walk'):
        wf = repo.func(f'{VIS}.{wname}')
        cw = CFG(wf)
        vc = [c for c in calls_in(wf) if call_name(c) == 'visit' and dotted(c.func) == 'self.visit']
        lps = [n for n, _ in children_steps(wf, cw, wname)]
        if len(vc) != 1 or len(lps) != 1:
            raise AnalysisError(f'R19.1: Visitor.{wname}: expected one self.visit(...) call and one loop over the children')
        vs_ = cw.stmt_of(vc[0])
        for name in sorted(pruning):
            h = _exc_flow(wf, vs_, name, repo)
            if h is None and wname == 'walkabout':
                continue      # reported above for walkabout
            # walk() is the sibling of walkabout() and documents the same pruning actions ("SkipSiblings: ... the current node's children are not
            # affected"): an exception that visit() raises and walk() does not catch leaves before the children loop (an exclusion this rule used to
            # make for walk + SkipSiblings was wrong - F11 had repaired exactly this in walkabout and left walk alone)
            got = children_reached(wf, cw, h, lps[0]) if h is not None else False
            want = EXPECT_CHILDREN[name]
            chk.ob('R19.1', f'{VIS}.{wname} :: {name} raised by visit() - children {"are" if want else "are not"} walked', got == want,
                   ('children loop reached after the handler' if got else 'children loop not reached') if got == want else
                   ((f'after `except {", ".join(handler_names(h))}` the loop over the children is not reached any more' if h is not None else
                     f'{name} raised by visit() is not caught in {wname}(): it leaves before the loop over the children') +
                    f': a node whose visit raises {name} loses its whole subtree, for the main visitor and every extension' if want else
                    f'after `except {", ".join(handler_names(h)) if h is not None else "?"}` the children are still walked although {name} prunes them'),
                   f'{wf.mod.relpath}:{h.lineno if h is not None else vs_.lineno}')
    # a SkipSiblings that visit() raised is RECORDED and must leave this activation as an exception whatever the children do - also when a child ends the
    # children loop with a SkipSiblings of its own.  From the recording handler no path (exception edges to the local handlers included) reaches the normal
    # end of the walker without passing a `raise`; the branch on which the record is None is infeasible there
    for wname in ('walkabout', 'walk'):
        wf = repo.func(f'{VIS}.{wname}')
        cw = CFG(wf)
        vc = [c for c in calls_in(wf) if call_name(c) == 'visit' and dotted(c.func) == 'self.visit']
        h = _exc_flow(wf, cw.stmt_of(vc[0]), 'SkipSiblings', repo)
        if h is None:
            chk.ob('R19.1', f'{VIS}.{wname} :: a recorded SkipSiblings always leaves the walker as an exception', False, 'SkipSiblings raised by visit() is not caught', wf.loc)
            continue
        rec = {t.id for st in h.body for n in ast.walk(st) if isinstance(n, ast.Assign) and isinstance(n.value, ast.Name) and n.value.id == h.name
               for t in n.targets if isinstance(t, ast.Name)}
        raises_ = [n for n in wf.walk() if isinstance(n, ast.Raise)]

        def none_edge(l: Tuple[ast.expr, bool]) -> bool:
            t, pol = l
            while isinstance(t, ast.UnaryOp) and isinstance(t.op, ast.Not):
                t, pol = t.operand, not pol
            if isinstance(t, ast.Name) and t.id in rec:
                return not pol
            if isinstance(t, ast.Compare) and len(t.ops) == 1 and isinstance(t.left, ast.Name) and t.left.id in rec and \
                    isinstance(t.comparators[0], ast.Constant) and t.comparators[0].value is None:
                return (isinstance(t.ops[0], ast.Is) and pol) or (isinstance(t.ops[0], ast.IsNot) and not pol)
            return False
        dead = [(nid, id(t), k) for nid, edges in cw.succ.items() for (t, l, k) in edges if l is not None and none_edge(l)]
        r = cw.reachable(h, avoid_nodes=raises_, avoid_edges=dead)
        lost = id(cw.EXIT) in r or not rec
        chk.ob('R19.1', f'{VIS}.{wname} :: a recorded SkipSiblings always leaves the walker as an exception', not lost,
               f'every path from `except SkipSiblings` to the end of {wname}() passes a raise' if not lost else
               f'{wname}() can return normally after visit() raised SkipSiblings (e.g. when a child ends the children loop with a SkipSiblings of its own, the '
               're-raise is skipped): the later siblings of the node are entered by the main visitor and by every extension although they were pruned',
               f'{wf.mod.relpath}:{h.lineno}')
    # the departure itself: `depart(ob, extensions_only=E)` - E decides whether the main visitor's depart_* runs.  With the boolean flags the handlers set
    # propagated, E is true exactly for the two exceptions that suppress the node's own departure (SkipNode, SkipDeparture), false otherwise
    wa_ = repo.func(f'{VIS}.walkabout')
    dcalls = [c for c in calls_in(wa_) if call_name(c) == 'depart' and dotted(c.func) == 'self.depart']
    vc_ = [c for c in calls_in(wa_) if call_name(c) == 'visit' and dotted(c.func) == 'self.visit']
    defaults = {t.id: n.value.value for n in wa_.body() if isinstance(n, ast.Assign) and isinstance(n.value, ast.Constant) and isinstance(n.value.value, bool)
                for t in n.targets if isinstance(t, ast.Name)}
    if len(dcalls) != 1 or not vc_:
        raise AnalysisError('R19.1: Visitor.walkabout: expected exactly one self.depart(...) call')
    eo = next((k.value for k in dcalls[0].keywords if k.arg == 'extensions_only'), dcalls[0].args[1] if len(dcalls[0].args) > 1 else None)

    def ev_flag(e: Optional[ast.AST], env: Dict[str, bool]) -> Optional[bool]:
        if e is None:
            return False
        if isinstance(e, ast.Constant) and isinstance(e.value, bool):
            return e.value
        if isinstance(e, ast.Name):
            return env.get(e.id)
        if isinstance(e, ast.UnaryOp) and isinstance(e.op, ast.Not):
            v = ev_flag(e.operand, env)
            return None if v is None else not v
        if isinstance(e, ast.BoolOp):
            vs = [ev_flag(v, env) for v in e.values]
            if any(v is None for v in vs):
                return None
            return all(vs) if isinstance(e.op, ast.And) else any(vs)
        return None
    cww = CFG(wa_)
    for name in sorted(pruning) + ['(no pruning)']:
        env = dict(defaults)
        if name != '(no pruning)':
            h = _exc_flow(wa_, cww.stmt_of(vc_[0]), name, repo)
            if h is None:
                continue
            env.update({t.id: n.value.value for st in h.body for n in ast.walk(st) if isinstance(n, ast.Assign) and isinstance(n.value, ast.Constant) and
                        isinstance(n.value.value, bool) for t in n.targets if isinstance(t, ast.Name)})
        want = name in ('SkipNode', 'SkipDeparture')
        got = ev_flag(eo, env)
        chk.ob('R19.1', f'{VIS}.walkabout :: {name} - the main visitor\'s depart_* {"is skipped" if want else "runs"}', got is want,
               f'extensions_only={norm(eo) if eo is not None else "False"} evaluates to {got}' if got is want else
               f'extensions_only=`{norm(eo) if eo is not None else "False"}` evaluates to {got} after {name}: ' +
               ('the node\'s own depart_* method is called although the exception says it must not be' if want else
                'the main visitor never leaves a node it entered'), repo.loc(wa_.mod, dcalls[0]))
    chk.require('R19.1', 19)

    # ------------------------------------------------------------------ R19.2
    from ..util import single_value as _single_value

    def _lists_of(f_: Func, e: ast.AST, depth: int = 2) -> Set[str]:
        """The extension lists an iterated expression stands for, named intermediates written out (`entering_first = ext.before_visit + ext.outter_visit`)."""
        out = {a.attr for a in ast.walk(e) if isinstance(a, ast.Attribute) and a.attr.endswith('_visit')}
        if depth > 0:
            for x in ast.walk(e):
                if isinstance(x, ast.Name):
                    v = _single_value(f_, x.id)
                    if v is not None:
                        out |= _lists_of(f_, v, depth - 1)
        return out
    for meth in ('visit', 'depart'):
        f = repo.func(f'{VIS}.{meth}')
        cf = CFG(f)
        mains = [c for c in calls_in(f) if call_name(c) == meth and isinstance(c.func, ast.Attribute) and
                 isinstance(c.func.value, ast.Call) and call_name(c.func.value) == 'super']
        if len(mains) != 1:
            raise AnalysisError(f'{VIS}.{meth}: expected exactly one super().{meth}(...) call')
        main = mains[0]
        mstmt = cf.stmt_of(main)
        loops = []
        for n in f.walk():
            if isinstance(n, ast.For) and any(isinstance(c, ast.Call) and call_name(c) == meth for st in n.body for c in ast.walk(st)):
                lists = _lists_of(f, n.iter)
                loops.append((n, lists))
        # the same dispatch through a private helper of the class that loops over the list it is given: `self._visit_with(<lists>, ob)`
        for c in calls_in(f):
            if not (isinstance(c.func, ast.Attribute) and dotted(c.func.value) in ('self', 'cls') and c.args):
                continue
            hs = [g for g in repo.funcs.values() if g.cls is f.cls and g.name == c.func.attr and g.name.startswith('_') and g is not f]
            for g in hs:
                gp = [p_.arg for p_ in g.params() if p_.arg not in ('self', 'cls')]
                if gp and any(isinstance(n, ast.For) and isinstance(n.iter, ast.Name) and n.iter.id == gp[0] and
                              any(isinstance(x, ast.Call) and call_name(x) == meth for st in n.body for x in ast.walk(st)) for n in g.walk()):
                    lists = _lists_of(f, c.args[0])
                    loops.append((cf.stmt_of(c), lists))
        # ... or through a method of the extension list itself: `self.extensions.visit_leading(ob)` with the loop in ExtList
        for c in calls_in(f):
            if isinstance(c.func, ast.Attribute) and dotted(c.func.value) == 'self.extensions':
                for g in [g_ for g_ in repo.funcs.values() if g_.cls is not None and g_.cls.qn == 'pydoctor.visitor.ExtList' and g_.name == c.func.attr]:
                    for n in g.walk():
                        if isinstance(n, ast.For) and any(isinstance(x, ast.Call) and call_name(x) == meth for st in n.body for x in ast.walk(st)):
                            loops.append((cf.stmt_of(c), _lists_of(g, n.iter)))
        exp_before, exp_after = EXPECTED_ORDER[meth]
        before = [(n, l) for n, l in loops if cf.dominates(n, mstmt, no_exc=True) and n is not mstmt]
        after = [(n, l) for n, l in loops if (n, l) not in before]
        got_before = set().union(*[l for _, l in before]) if before else set()
        got_after = set().union(*[l for _, l in after]) if after else set()
        chk.ob('R19.2', f'{VIS}.{meth} :: extensions called before the main visitor', got_before == exp_before,
               f'{sorted(got_before)}' if got_before == exp_before else f'got {sorted(got_before)}, documented {sorted(exp_before)}', f.loc)
        chk.ob('R19.2', f'{VIS}.{meth} :: extensions called after the main visitor', got_after == exp_after,
               f'{sorted(got_after)}' if got_after == exp_after else f'got {sorted(got_after)}, documented {sorted(exp_after)}', f.loc)
        # every extension loop is on every path (only the main call may be conditional)
        for exp, which in ((exp_before, 'before'), (exp_after, 'after')):
            full = [n for n, l in loops if l == exp]
            ok = bool(full) and cf.must_pass(cf.ENTRY, cf.EXIT, full, no_exc=True)
            chk.ob('R19.2', f'{VIS}.{meth} :: {"+".join(sorted(exp))} extensions run on every path', ok,
                   'the loop is on every path from entry to exit' if ok else
                   f'a path through {meth}() skips the {"+".join(sorted(exp))} extensions (or the loop no longer covers both lists)', f.loc)
        if meth == 'visit':
            # the main visit is inside a handler subsuming every pruning class, which does not re-raise inside
            trys = enclosing_trys(main, f.node)
            for name in sorted(pruning):
                h = None
                for t in trys:
                    for hh in t.handlers:
                        if _catches(repo, hh, name):
                            h = hh
                            break
                    if h:
                        break
                ok = h is not None and not any(isinstance(n, ast.Raise) for st in h.body for n in ast.walk(st))
                chk.ob('R19.2', f'{VIS}.visit :: {name} from the main visitor is delayed', ok,
                       f'caught by `except {", ".join(handler_names(h))}` and stored' if ok and h is not None else
                       f'{name} raised by the main visit_* method is not delayed: the AFTER/INNER extensions do not see the node '
                       'but are still asked to leave it', repo.loc(f.mod, main))
            # the stored exception is re-raised after the AFTER/INNER loop
            rer = [n for n in f.walk() if isinstance(n, ast.Raise)]
            aft = [n for n, l in loops if l == exp_after]
            ok = bool(rer) and bool(aft) and all(any(cf.dominates(a, r, no_exc=True) for a in aft) for r in rer)
            chk.ob('R19.2', f'{VIS}.visit :: pruning re-raised after the extensions', ok,
                   'raise follows the AFTER+INNER loop' if ok else 'the delayed pruning exception is dropped or raised before the extensions ran', f.loc)
    # the two dispatchers resolve handler names the same way (visit_X / visit_x / unknown_visit  ~  depart_X / depart_x / unknown_departure):
    # an extension method found on the way in must be found on the way out
    bv, bd = repo.func('pydoctor.visitor._BaseVisitor.visit'), repo.func('pydoctor.visitor._BaseVisitor.depart')

    def shape(f: Func) -> str:
        loc_names: List[str] = []
        for st in f.body():
            for n in ast.walk(st):
                if isinstance(n, ast.Name) and isinstance(n.ctx, ast.Store) and n.id not in loc_names:
                    loc_names.append(n.id)     # numbered in order of first binding: independent of the names chosen
        txt = ' ; '.join(norm(st) for st in f.body() if not (isinstance(st, ast.Expr) and isinstance(st.value, ast.Constant)))
        for i, nm in enumerate(loc_names):
            txt = re.sub(rf'\b{re.escape(nm)}\b', f'v{i}', txt)
        return txt.replace('unknown_departure', 'unknown_X').replace('unknown_visit', 'unknown_X').replace("'depart_'", "'X_'").replace("'visit_'", "'X_'")
    sv, sd = shape(bv), shape(bd)
    chk.ob('R19.2', '_BaseVisitor.visit ~ _BaseVisitor.depart :: same handler-name resolution', sv == sd and 'X_' in sv,
           sv[:120] if sv == sd else f'visit resolves `{sv[:110]}` but depart resolves `{sd[:110]}`: a handler reached on entry has no counterpart on exit '
           '(or the reverse), so an extension is entered on nodes it never leaves', bd.loc)
    chk.require('R19.2', 14)

    # ------------------------------------------------------------------ R19.4 who may call Visitor.visit
    # Visitor.visit() makes the extensions enter a node; only walkabout() pairs it with depart().  Any other caller lets the extensions
    # enter nodes they never leave (and, from inside a visit_* method of the main visitor, before their parents)
    viscls = repo.cls('pydoctor.visitor.Visitor')
    n_vc = 0
    for f in sorted(repo.funcs.values(), key=lambda f: f.qn):
        if f.cls is None or '.test' in f.mod.name or not repo.is_subclass(f.cls, viscls.qn):
            continue
        for c in calls_in(f, lambda c: call_name(c) == 'visit' and isinstance(c.func, ast.Attribute) and dotted(c.func.value) == 'self'):
            n_vc += 1
            okc = f.cls is viscls and f.name in ('walk', 'walkabout')
            # a helper that is never called is dead code, not a violation
            used = okc or any(call_name(x) == f.name and isinstance(x.func, ast.Attribute) and dotted(x.func.value) == 'self'
                              for g in repo.funcs.values() if '.test' not in g.mod.name and g.cls is not None and
                              (repo.is_subclass(g.cls, f.cls.qn) or repo.is_subclass(f.cls, g.cls.qn)) for x in calls_in(g))
            chk.ob('R19.4', f'{f.qn} :: self.visit(...) only from the walkers', okc or not used,
                   'called from walk()/walkabout(), which also depart' if okc else
                   ('helper that nothing calls' if not used else
                    f'`{norm(c)}` makes every extension enter the node although nothing will make them leave it: with the AST builder, the value of each '
                    'expression statement (calls, docstrings) is entered by the extensions and never left'), repo.loc(f.mod, c))
    if n_vc < 2:
        raise AnalysisError(f'R19.4: {n_vc} self.visit(...) calls found in Visitor subclasses (walk, walkabout confirmed)')
    chk.require('R19.4', 2)

    # ------------------------------------------------------------------ R19.3
    mv = repo.cls('pydoctor.astbuilder.ModuleVistor')
    builder = repo.cls('pydoctor.astbuilder.ASTBuilder')
    PUSH = {'push': 'pop', 'pushClass': 'popClass', 'pushFunction': 'popFunction'}
    POPS = set(PUSH.values())

    def reach_calls(f: Func, names: Set[str], seen: Optional[Set[str]] = None) -> List[Tuple[Func, ast.Call]]:
        """Calls to builder.<names> made by f or by ModuleVistor helpers it calls."""
        seen = seen if seen is not None else set()
        if f.qn in seen:
            return []
        seen.add(f.qn)
        out: List[Tuple[Func, ast.Call]] = []
        for c in calls_in(f):
            nm = call_name(c)
            if nm in names and isinstance(c.func, ast.Attribute) and 'builder' in norm(c.func.value):
                out.append((f, c))
            elif isinstance(c.func, ast.Attribute) and dotted(c.func.value) == 'self' and nm in mv.methods and not nm.startswith(('visit_', 'depart_')):
                out.extend(reach_calls(mv.methods[nm], names, seen))
        return out

    kinds = sorted({n[len('visit_'):] for n in list(mv.methods) + list(mv.aliases) if n.startswith('visit_')})
    n_pairs = 0
    for k in kinds:
        v = repo.find_method(mv, f'visit_{k}')
        if v is None or v.cls is not mv:
            continue
        pushes = reach_calls(v, set(PUSH))
        if not pushes:
            continue
        n_pairs += 1
        d = repo.find_method(mv, f'depart_{k}')
        want = set()
        for _, c in pushes:
            nm = call_name(c)
            if nm == 'push':
                a0 = norm(c.args[0]) if c.args else ''
                want.add('pop' if 'module' in a0 else 'popFunction' if 'func' in a0 else 'popClass' if 'cls' in a0 else 'pop')
            else:
                want.add(PUSH[nm])
        pops = {call_name(c) for _, c in reach_calls(d, POPS)} if d is not None and d.cls is mv else set()
        ok = d is not None and pops == want
        chk.ob('R19.3', f'ModuleVistor.visit_{k} / depart_{k} :: push-pop pairing', ok,
               f'visit pushes via {sorted({call_name(c) for _, c in pushes})}, depart pops via {sorted(pops)}' if ok else
               f'visit_{k} enters a scope ({sorted({call_name(c) for _, c in pushes})}) but depart_{k} leaves via {sorted(pops) or "nothing"} (expected {sorted(want)})',
               v.loc)
        # no pruning exception after the push on any path
        for g, c in pushes:
            cg_ = CFG(g)
            after = cg_.reachable(cg_.stmt_of(c), no_exc=True)
            late = [n for n in g.walk() if isinstance(n, ast.Raise) and id(n) in after and n.exc is not None and 'Skip' in norm(n.exc)]
            chk.ob('R19.3', f'{g.qn} :: no pruning exception after {norm(c)[:40]}', not late,
                   'every raise self.Skip*() is before the scope is entered' if not late else
                   f'`{norm(late[0])}` (line {late[0].lineno}) can follow the push: the scope is entered but depart_{k} (the pop) is skipped',
                   repo.loc(g.mod, c))
        # an exit that does NOT enter the scope must skip both the children and depart_<k> (the pop): only SkipNode does that
        if d is not None and pops:
            seen_f: Set[str] = set()
            reach_calls(v, set(), seen_f)
            for qn in sorted(seen_f):
                g = repo.funcs[qn]
                for n in g.walk():
                    if isinstance(n, ast.Raise) and n.exc is not None and 'Skip' in norm(n.exc):
                        exc = n.exc.func if isinstance(n.exc, ast.Call) else n.exc
                        nm = exc.attr if isinstance(exc, ast.Attribute) else norm(exc)
                        chk.ob('R19.3', f'{g.qn} [visit_{k}] :: exit without entering the scope is SkipNode',
                               nm == 'SkipNode',
                               'the children are not walked in the enclosing scope and the pop is not run' if nm == 'SkipNode' else
                               f'`{norm(n)}`: walkabout() then ' + ('still calls depart_' + k + ' (a pop without a push)' if nm == 'SkipChildren' else
                                                                  'still walks the children, with the enclosing scope as current object') +
                               ' - only SkipNode prunes both', repo.loc(g.mod, n))
    if n_pairs < 4:
        chk.error(f'R19.3: only {n_pairs} pushing visit methods found in ModuleVistor (Module, ClassDef, FunctionDef, AsyncFunctionDef confirmed by hand)')
    # every raise of a pruning exception in the main visitor is in a visit_* path that did not push (count)
    raises = [(f, n) for f in repo.funcs.values() if f.cls is mv for n in f.walk()
              if isinstance(n, ast.Raise) and n.exc is not None and 'Skip' in norm(n.exc)]
    chk.stats['pruning_raises_in_ModuleVistor'] = len(raises)
    if len(raises) < 4:
        chk.error(f'R19.3: {len(raises)} pruning raises found in ModuleVistor (5 confirmed by hand)')
    # siblings
    for a, b in (('visit_FunctionDef', 'visit_AsyncFunctionDef'), ('depart_FunctionDef', 'depart_AsyncFunctionDef')):
        fa, fb = repo.find_method(mv, a), repo.find_method(mv, b)
        if fa is None or fb is None:
            chk.error(f'R19.3: {a}/{b} missing')
            continue
        ca = sorted(call_name(c) for c in calls_in(fa))
        cb = sorted(call_name(c) for c in calls_in(fb))
        chk.ob('R19.3', f'ModuleVistor.{a} ~ {b} :: siblings', ca == cb and bool(ca),
               f'both call {ca}' if ca == cb else f'{a} calls {ca} but {b} calls {cb}', fa.loc)
    # push / pop move the stack by exactly one
    for nm, op in (('push', 'append'), ('pop', 'pop')):
        f = builder.methods.get(nm)
        if f is None:
            raise AnalysisError(f'ASTBuilder.{nm} not found')
        cf = CFG(f)
        ops = [c for c in calls_in(f) if call_name(c) == op and isinstance(c.func, ast.Attribute) and dotted(c.func.value) == 'self._stack']
        other = [c for c in calls_in(f) if isinstance(c.func, ast.Attribute) and dotted(c.func.value) == 'self._stack' and c not in ops]
        ok = len(ops) == 1 and not other and cf.must_pass(cf.ENTRY, cf.EXIT, [cf.stmt_of(ops[0])], no_exc=True)
        chk.ob('R19.3', f'ASTBuilder.{nm} :: moves _stack by exactly one', ok,
               f'one self._stack.{op}(...) on every path' if ok else f'{len(ops)} self._stack.{op} call(s), {len(other)} other stack operation(s)', f.loc)
    for nm, inner in (('_push', 'push'), ('_pop', 'pop')):
        f = builder.methods.get(nm)
        if f is None:
            raise AnalysisError(f'ASTBuilder.{nm} not found')
        n = len([c for c in calls_in(f) if call_name(c) == inner and dotted(c.func) == f'self.{inner}'])
        chk.ob('R19.3', f'ASTBuilder.{nm} :: delegates once to {inner}', n == 1, f'{n} call(s) of self.{inner}', f.loc)
    # who may touch the stack / call push-pop
    for f in repo.funcs.values():
        if f.mod.name.startswith('pydoctor.sphinx_ext'):
            continue
        for n in f.walk():
            if isinstance(n, ast.Attribute) and n.attr == '_stack' and f.cls is not builder and 'builder' in norm(n.value):
                chk.ob('R19.3', f'{f.qn} :: touches builder._stack', False, 'the scope stack is manipulated outside ASTBuilder', repo.loc(f.mod, n))
        if f.cls is mv or f.cls is builder:
            continue
        # elsewhere (extensions) a scope may only be entered and left again inside one function
        outside = [c for c in calls_in(f) if call_name(c) in set(PUSH) | POPS and isinstance(c.func, ast.Attribute)
                   and 'builder' in norm(c.func.value)]
        if outside:
            cf = CFG(f)
            for c in outside:
                nm = call_name(c)
                if nm in PUSH:
                    pops = [cf.stmt_of(x) for x in outside if call_name(x) == PUSH[nm]]
                    ok = bool(pops) and cf.must_pass(cf.stmt_of(c), cf.EXIT, pops, no_exc=True)
                    why = f'{PUSH[nm]}() follows on every path of the same function' if ok else \
                        f'a path from {nm}() to the end of the function has no {PUSH[nm]}(): the scope stack stays non-empty'
                else:
                    inv = {v: k for k, v in PUSH.items()}
                    pushes = [cf.stmt_of(x) for x in outside if call_name(x) == inv[nm]]
                    ok = bool(pushes) and any(cf.dominates(p, cf.stmt_of(c), no_exc=True) for p in pushes)
                    why = f'dominated by the {inv[nm]}() of the same function' if ok else \
                        f'{nm}() without a preceding {inv[nm]}() in the same function: it pops a scope the main visitor entered'
                chk.ob('R19.3', f'{f.qn} :: {norm(c)[:40]} paired locally', ok, why, repo.loc(f.mod, c))
    # bundled extensions raise no pruning exception
    ext_base = repo.classes.get('pydoctor.visitor.VisitorExt')
    n_ext = 0
    if ext_base is None:
        raise AnalysisError('pydoctor.visitor.VisitorExt not found')
    for c in repo.all_subclasses(ext_base):
        if c.mod.name.startswith(('pydoctor.visitor', 'pydoctor.astutils')) or c.name in ('ModuleVisitorExt',):
            continue
        n_ext += 1
        bad = [n for m in c.methods.values() for n in m.walk() if isinstance(n, ast.Raise) and n.exc is not None and 'Skip' in norm(n.exc)]
        chk.ob('R19.3', f'{c.qn} :: bundled extension raises no pruning exception', not bad,
               'no raise of a Skip* exception' if not bad else f'`{norm(bad[0])}` at line {bad[0].lineno}', c.loc)
    chk.stats['bundled_visitor_extensions'] = n_ext
    if n_ext < 3:
        chk.error(f'R19.3: only {n_ext} bundled visitor extensions found (attrs, deprecate, zopeinterface, TypeAliasVisitorExt, pydantic confirmed)')
    chk.require('R19.3', 14)
