"""who-may-write: all writers of a field or container, receiver-typed."""
from __future__ import annotations

import ast
from typing import Dict, Iterable, List, Optional, Set, Tuple

from .core import Func, Repo, dotted, norm

MUTATORS = {'append', 'extend', 'pop', 'remove', 'setdefault', 'update', 'clear', 'insert', 'popitem', 'add', 'discard', 'sort', 'reverse'}


class Write:
    __slots__ = ('func', 'node', 'attr', 'kind', 'recv')

    def __init__(self, func: Func, node: ast.AST, attr: str, kind: str, recv: ast.AST):
        self.func = func
        self.node = node
        self.attr = attr
        self.kind = kind      # 'rebind' | 'setitem' | 'delitem' | method name
        self.recv = recv      # expression whose attribute is written

    @property
    def loc(self) -> str:
        return f'{self.func.mod.relpath}:{getattr(self.node, "lineno", 0)}'


def receiver_is(repo: Repo, f: Func, recv: ast.AST, bases: Iterable[str], unknown_counts: bool) -> bool:
    t = repo.type_of(recv, f)
    if not t:
        return unknown_counts
    for a in t:
        if a[0] in ('inst', 'type') and a[1] in repo.classes:
            c = repo.classes[a[1]]
            if any(repo.is_subclass(c, b) for b in bases):
                return True
            # mixins composed into the model classes by the factory
            if any(k.mod.name == 'pydoctor.extensions' and k.name.endswith('Mixin') for k in repo.mro(c)):
                return True
    return False


def writers(repo: Repo, attr: str, bases: Iterable[str], unknown_counts: bool = False,
            skip_modules: Iterable[str] = ()) -> List[Write]:
    out: List[Write] = []
    bases = list(bases)
    skip = tuple(skip_modules)
    for f in repo.funcs.values():
        if skip and f.mod.name.startswith(skip):
            continue
        for n in f.walk():
            # x.attr = v / x.attr: T = v / x.attr += v
            tgts: List[ast.AST] = []
            if isinstance(n, ast.Assign):
                for t in n.targets:
                    tgts.extend(t.elts if isinstance(t, (ast.Tuple, ast.List)) else [t])
            elif isinstance(n, (ast.AnnAssign, ast.AugAssign)):
                tgts = [n.target]
            elif isinstance(n, ast.Delete):
                tgts = list(n.targets)
            for t in tgts:
                if isinstance(t, ast.Attribute) and t.attr == attr and receiver_is(repo, f, t.value, bases, unknown_counts):
                    if isinstance(n, ast.AnnAssign) and n.value is None:
                        continue
                    out.append(Write(f, n, attr, 'rebind' if not isinstance(n, ast.Delete) else 'delattr', t.value))
                if isinstance(t, ast.Subscript) and isinstance(t.value, ast.Attribute) and t.value.attr == attr and \
                        receiver_is(repo, f, t.value.value, bases, unknown_counts):
                    out.append(Write(f, n, attr, 'delitem' if isinstance(n, ast.Delete) else 'setitem', t.value.value))
            if isinstance(n, ast.Call) and isinstance(n.func, ast.Attribute) and n.func.attr in MUTATORS and \
                    isinstance(n.func.value, ast.Attribute) and n.func.value.attr == attr and \
                    receiver_is(repo, f, n.func.value.value, bases, unknown_counts):
                out.append(Write(f, n, attr, n.func.attr, n.func.value.value))
    return out
